"""C05 - async callbacks behave exactly like their synchronous counterparts.

(1) Twins: every base scenario (sync machine) is also run with all / one / a random subset of its
callbacks written as coroutine functions (some of them really suspending: `await asyncio.sleep(0)`),
each variant under three drivers: plain synchronous calls with no loop, the whole history awaited
inside a running loop, and each operation from a different OS thread without a loop.  Every run is
compared with the model of that variant; the model's async engine differs from the sync one only
in that all guards of a list are evaluated and that activation is deferred (Impl/Engine.v), so
equal projections mean the twins are equivalent.  Additionally asserted on every run: no coroutine
is left un-awaited, and no callback begins while a callback of another phase is still running.
(2) Expression guards with coroutine operands (cond="a and b") and (3) a plain callback sending an
event from the async engine are probed against the sync twin's result.
"""
import asyncio
import copy
import gc
import itertools
import warnings

from . import eng, enggen, engfam

PROP = "C05"
RUN_MODULE = "Run.EngineRun"
VERDICT_FN = "verdict_C05_any"
CHUNK = 100


def render_source(sc):
    if sc.get("probe") == "expr":
        return (f"# probe: class M(StateMachine): s0 = State(initial=True); go = s0.to.itself(cond={sc['text']!r}); "
                f"ga is {'async' if sc['coro'][0] else 'plain'}, gb is {'async' if sc['coro'][1] else 'plain'}; "
                f"on_go is a coroutine (async engine); valuations {sc['vals']}\n")
    if sc.get("probe") == "refusal":
        return "# probe: " + " ".join(refusal_probe.__doc__.split()) + "\n"
    if sc.get("probe") == "d18":
        return "# probe: plain after_go callback calls self.send('back') on a machine with a coroutine on_back\n"
    return eng.render_source(sc)

DRIVER_ERR = eng.DRIVER_ERR
K = dict(sig_attr=0.15, twin_decoy=0.3, exc_classes=0.35, wrapped_coros=0.4, base_exc=0.15, p_clone=0.2, cbs=0.5, conv=0.25, guards=0.5, validators=0.25, sends=0.12, raises=0.04, guard_raise=0.0, multi_event=0.4,
         multi_cand=0.6, p_async=0.0, rtc_false=0.0, ops=(2, 9), scripts=(0, 3), share_groups=0.0, falsy_machine=0.0)
DRIVERS = ["plain", "loop", "threads"]


def variants(base, rng):
    out = [dict(copy.deepcopy(base), driver=d, twin="sync") for d in ("loop", "threads")]
    cbs = [(p, tuple(nm)) for p in range(len(base["provs"])) for nm in base["provs"][p]]
    multi = {}
    for p, nm in cbs:
        multi.setdefault(nm, []).append(p)
    guards = eng.guard_names(base)
    senders = {(p, kind, k) for p, kind, k, scripts, _d in base["tbl"] if any(a[0] == "send" for s in scripts for a in s["a"])}
    for mode in ("all", "one", "mixed"):
        acoro = []
        for p, nm in cbs:
            if nm in guards and len(multi[nm]) > 1:
                continue          # coroutine guard inside a conjunction of providers: D10
            if mode == "all" or (mode == "mixed" and rng.random() < 0.5) or (mode == "one" and not acoro):
                acoro.append([p, nm[0], nm[1]])
        if not acoro:
            continue
        have = {tuple(x) for x in acoro}
        if rng.random() < 0.5:
            # (otherwise plain callbacks send from inside the async engine: the trigger is queued all
            # the same; what such a callback gets back is known finding D18, probed separately)
            for key in senders:
                if key not in have:
                    acoro.append(list(key))
        v = copy.deepcopy(base)
        v["async"] = acoro
        if base.get("twin_decoy"):
            # the decoy instance created first is of the other kind: plain model / listeners when this variant's
            # coroutines live on the model / listeners only (for the sync twin the decoy's are coroutines)
            v["twin_decoy"] = "plain" if not any(x[0] == 0 for x in acoro) else None
        # some of them (never the first: the engine is chosen from coroutine *functions*) are plain functions
        # returning the coroutine / an awaitable object
        v["wrapped_coros"] = [list(x) for x in acoro[1:] if rng.random() < 0.3] if (rng.random() < 0.5 and acoro[0][1] == 0) else []
        v["marked_coros"] = rng.random() < 0.2 and not v.get("callable_names") and not v.get("inst_hooks") and not v.get("state_decor")
        have = {tuple(x) for x in acoro}
        for row in v["tbl"]:
            if (row[0], row[1], row[2]) in have:
                for s in row[3]:
                    if rng.random() < 0.3:
                        pos = len(s["a"]) - 1 if s["a"] and s["a"][-1][0] == "raise" else len(s["a"])
                        s["a"].insert(pos, ["yield"])
        for d in DRIVERS:
            out.append(dict(copy.deepcopy(v), driver=d, twin=mode))
    return out


# ------------------------------------------------------------------ probes
def expr_probe(sc):
    """cond="<a> <op> <b>" / "not a" with coroutine operands, on the async engine, against Python"""
    from statemachine import State, StateMachine
    from statemachine.exceptions import TransitionNotAllowed
    text, flags, vals = sc["text"], sc["coro"], sc["vals"]
    bad = []
    for va, vb in vals:
        body = {"s0": State(initial=True)}
        body["go"] = body["s0"].to.itself(cond=text)
        for name, isco, v in (("ga", flags[0], va), ("gb", flags[1], vb)):
            if isco:
                async def f(self, v=v):
                    await asyncio.sleep(0)
                    return v
            else:
                def f(self, v=v):
                    return v
            body[name] = f

        async def on_go(self):
            return 1
        body["on_go"] = on_go        # forces the async engine
        with warnings.catch_warnings():
            warnings.simplefilter("ignore")
            M = type(StateMachine)("M", (StateMachine,), body)
            sm = M()
            try:
                sm.send("go")
                fired = True
            except TransitionNotAllowed:
                fired = False
            except Exception as e:  # noqa: BLE001
                fired = repr(e)
            gc.collect()
        expect = bool(eval(text, {}, {"ga": va, "gb": vb}))  # noqa: S307
        if fired != expect:
            bad.append([va, vb, fired, expect])
    return {"probe": "expr", "bad": bad}


def d18_probe(sc):
    """a plain (non-coroutine) callback sends an event from inside the async engine: what does it get?"""
    from statemachine import State, StateMachine
    got = []

    class M(StateMachine):
        s0 = State(initial=True)
        s1 = State()
        go = s0.to(s1)
        back = s1.to(s0)

        def after_go(self):
            r = self.send("back")
            got.append("coroutine" if asyncio.iscoroutine(r) else r)
            if asyncio.iscoroutine(r):
                r.close()

        async def on_back(self):
            return 5
    with warnings.catch_warnings():
        warnings.simplefilter("ignore")
        sm = M()
        sm.send("go")
    return {"probe": "d18", "bad": [] if got == [None] else [got]}


def refusal_probe(sc):
    """an event refused after its guard changed the stored state through the low-level API: the refusal names the
    state the machine was in when the event started - on the async engine as on the sync one"""
    from statemachine import State, StateMachine
    from statemachine.exceptions import TransitionNotAllowed

    def build(is_async):
        body = {"a": State(initial=True), "b": State(), "c": State()}
        name = "veto_coroutine" if is_async else "veto"      # (distinct names: the signature cache is keyed by name, D7)
        body["go"] = body["a"].to(body["b"], cond=name) | body["b"].to(body["c"]) | body["c"].to(body["a"])
        if is_async:
            async def veto_coroutine(self):
                self.current_state_value = "c"
                return False
            body[name] = veto_coroutine
        else:
            def veto(self):
                self.current_state_value = "c"
                return False
            body[name] = veto
        return type(StateMachine)("R", (StateMachine,), body)
    got = {}
    with warnings.catch_warnings():
        warnings.simplefilter("ignore")
        for is_async in (False, True):
            sm = build(is_async)()
            if is_async:
                sm.activate_initial_state()
            try:
                sm.send("go")
                got[is_async] = "fired"
            except TransitionNotAllowed as e:
                got[is_async] = (str(e.event), e.state.id, sm.current_state.id)
            except Exception as e:  # noqa: BLE001
                got[is_async] = repr(e)
    bad = []
    if got[False] != ("go", "a", "c"):
        bad.append(f"sync machine: {got[False]}")
    if got[True] != got[False]:
        bad.append(f"async machine {got[True]} differs from the sync one {got[False]}")
    return {"probe": "refusal", "bad": bad}


def run_impl(sc):
    if sc.get("probe") == "refusal":
        return refusal_probe(sc)
    if sc.get("probe") == "expr":
        return expr_probe(sc)
    if sc.get("probe") == "d18":
        return d18_probe(sc)
    obs = eng.run_impl(sc)
    if sc.get("async") and obs and any(a_[0] == "yield" for row in sc["tbl"] for s_ in row[3] for a_ in s_["a"]):
        # the same machine written with plain functions, run right here: every value an operation returns
        # must be the very same value (for a list of results: the same order), however long the individual
        # coroutines stay suspended
        tw = copy.deepcopy(sc)
        tw.update({"async": [], "wrapped_coros": [], "twin_decoy": None, "decoys": [], "driver": "plain", "sig_attr": False})
        for row in tw["tbl"]:
            for s_ in row[3]:
                s_["a"] = [a_ for a_ in s_["a"] if a_[0] != "yield"]
        try:
            ref = eng.run_impl(tw)
        except Exception:  # noqa: BLE001
            ref = None
        if ref is not None and len(ref) == len(obs):
            def ran(o):
                return sorted((e[1], e[2], e[3]) for e in o["log"] if e[0] == "c")
            # (compared where both runs did the same thing: an event, the same callbacks)
            diff = []
            for k, (o, t) in enumerate(zip(obs, ref)):
                if ran(o) != ran(t) or o["out"][0] != t["out"][0]:
                    break           # (from here on the call counters of the two runs may differ)
                if sc["ops"][k][0] in ("send", "call") and o["out"][0] == "v" and o["out"] != t["out"]:
                    diff.append(k)
            if diff:
                obs[0]["twin_result_differs"] = diff
    return obs


def coq_case(sc, obs):
    if sc.get("probe"):
        return f"(asserted {0 if obs['bad'] else 1})"
    if obs and (obs[0].get("never_awaited") or obs[0].get("overlap") or obs[0].get("twin_result_differs")):
        return "(asserted 0)"
    return "(wfc " + eng.coq_case(sc, obs) + ")"


def generate(rng, tier):
    n = 230 if tier == "quick" else 4000
    scs = []
    for _ in range(n):
        base = enggen.gen_scenario(rng, K)
        base["async"] = []
        scs.append(dict(base, driver="plain", twin="sync"))
        scs += variants(base, rng)
    parts = [("twins: %d base scenarios, each as sync twin and with all / one / a random subset of callbacks as "
              "coroutines (30%% of their scripts really suspend), each under the drivers plain / in-loop / one "
              "thread per operation" % n, len(scs))]
    pr = []
    for text in ("ga and gb", "ga or gb", "not ga", "gb and not ga", "ga and gb or ga"):
        for flags in itertools.product([False, True], repeat=2):
            if not any(flags):
                continue
            pr.append({"probe": "expr", "text": text, "coro": list(flags),
                       "vals": [[a, b_] for a in (True, False) for b_ in (True, False)]})
    pr.append({"probe": "d18"})
    pr.append({"probe": "refusal"})
    scs += pr
    parts.append(("probes: boolean guard expressions with coroutine operands in every position x all boolean "
                  "valuations, on the async engine, against Python's value; a plain callback sending an event "
                  "from the async engine", len(pr)))
    return scs, parts


def nontrivial(sc, obs):
    """Non-trivial: a mixed twin (some callbacks coroutines, some plain) in which >= 3 callbacks ran,
    or any twin driven from inside a loop / from threads with >= 3 callbacks."""
    if sc.get("probe"):
        return False
    n = sum(1 for o in obs for e in o["log"] if e[0] == "c")
    return n >= 3 and (sc.get("twin") in ("mixed", "one") or sc.get("driver") in ("loop", "threads"))


def extra_coverage(scs, obs, verdicts):
    import collections
    h = collections.Counter()
    for s in scs:
        if not s.get("probe"):
            h[f"twin={s.get('twin')} driver={s.get('driver')}"] += 1
    return {"twin_driver_histogram": dict(sorted(h.items())),
            "runs_with_unawaited_coroutine": sum(1 for o in obs if isinstance(o, list) and o and o[0].get("never_awaited")),
            "runs_with_phase_overlap": sum(1 for o in obs if isinstance(o, list) and o and o[0].get("overlap")),
            "out_of_scope": sum(1 for v in verdicts if v == 9)}


def d10(sc, v):
    """a coroutine operand anywhere but in the last position of the expression (its coroutine object is
    taken as a truthy value instead of being awaited)"""
    if sc.get("probe") != "expr":
        return False
    text, flags = sc["text"], sc["coro"]
    last = text.split()[-1]
    nonlast_async = (flags[0] and (last != "ga" or text.count("ga") > 1 or "not ga" in text)) or \
                    (flags[1] and (last != "gb" or "not gb" in text))
    return nonlast_async


def d18(sc, v):
    return sc.get("probe") == "d18"


CLASSIFIERS = {"C05.coroutine_operand_not_last": d10, "C05.plain_callback_nested_send": d18}


def explain(sc, obs):
    if sc.get("probe"):
        return obs
    if obs and (obs[0].get("never_awaited") or obs[0].get("overlap")):
        return {"never_awaited": obs[0].get("never_awaited"), "phase_overlap": obs[0].get("overlap")}
    return engfam.explain_for("C05")(sc, obs)
