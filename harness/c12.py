"""C12 - listeners and the model are first-class callback providers, attached once.

Engine-family scenarios in which every callback / guard / validator name (user names and
convention names) is spread at random over the machine, the model, constructor listeners and
listeners attached later with add_listener - at any point of the history, repeatedly, several at a
time.  The whole trace is compared with the model (Impl/Registry.v resolution rounds + engine).
Isolation: two instances of one class with different listeners are driven alternately and each must
behave exactly as when driven alone.  Probe: a coroutine listener added to a machine that chose the
sync engine (known finding D11).
"""
import copy
import warnings

from . import eng, enggen, engfam

PROP = "C12"
RUN_MODULE = "Run.EngineRun"
VERDICT_FN = "verdict_C12_any"
CHUNK = 100
DRIVER_ERR = eng.DRIVER_ERR
K = dict(falsy_listeners=0.25, attr_guards=0.35, cbs=0.55, conv=0.4, guards=0.5, guard_max=2, validators=0.3, listeners=(1, 4), multi_prov=0.55, sends=0.05,
         raises=0.03, multi_event=0.4, p_async=0.0, rtc_false=0.1, ops=(3, 10), p_construct=0.0, share_groups=0.1,
         falsy_model=0.15, inst_listeners=0.3, lstyles=0.35, stateid_names=0.25)


def add_late(sc, rng):
    """turn some listeners into late ones, attached by `add` operations spread over the history"""
    np_ = len(sc["provs"])
    cands = list(range(2, np_))
    rng.shuffle(cands)
    late = []
    # a user name must be provided by somebody at construction (else InvalidDefinition): keep a
    # listener constructor-time if it is the only provider of one of its user names
    for p in cands:
        only = False
        for nm in sc["provs"][p]:
            if nm[0] == 0 and not any(nm in sc["provs"][q] for q in range(np_) if q != p and q not in late):
                only = True
        if not only and rng.random() < 0.7:
            late.append(p)
    sc["late"] = sorted(late)
    # late listeners also bring event-named convention callbacks for the events of multi-event
    # transitions (they must run for their own event only, also when attached after the first firing)
    # (an event called `transition` has no event-named hooks of its own: their names are the generic hooks')
    multi = sorted({e for t in sc["trans"] if len(t["ev"]) > 1 for e in t["ev"] if eng.evname(e) != "transition"})
    for p in late:
        for e in multi:
            for kind in (4, 5, 6):
                if rng.random() < 0.4 and [kind, e] not in sc["provs"][p]:
                    sc["provs"][p].append([kind, e])
                    sc["tbl"].append([p, kind, e, [], {"a": [], "r": None}])
    if rng.random() < 0.45 and np_ > 3:
        # value-object listeners: some distinct listener objects compare and hash equal; one late listener
        # always has an equal twin (attached at construction or in another add_listener call)
        sc["eqgroups"] = {str(p): rng.randint(1, 2) for p in range(2, np_)}
        if late:
            p = late[0]
            q = rng.choice([x for x in range(2, np_) if x != p])
            sc["eqgroups"][str(p)] = sc["eqgroups"][str(q)]
    ops = list(sc["ops"])
    for p in late:
        pos = rng.randint(1, len(ops))
        ops.insert(pos, ["add", [p]])
        if rng.random() < 0.4:                      # attach again later (must not duplicate calls)
            ops.insert(rng.randint(pos + 1, len(ops)), ["add", [p] if rng.random() < 0.6 else list(late)])
    sc["ops"] = ops
    return sc


def pair_probe(sc):
    """instances A and B of one class with different listeners, driven alternately: A's trace must
    equal A's trace when driven alone"""
    alone = eng.run_impl(sc)
    other = copy.deepcopy(sc)
    other["provs"] = [list(p) for p in sc["provs"]]
    # B: same class and model class, other listener objects; interleave by running B's history in
    # between every operation of A through a wrapper scenario
    eng.RUN = R = eng.Run(sc)
    ns = {}
    with warnings.catch_warnings():
        warnings.simplefilter("ignore")
        eng._clear_signature_cache()
        exec(compile(eng.render_source(sc), "<c12>", "exec"), ns)  # noqa: S102
        R.cls = ns["M"]
        ma, mb = ns["Mdl"](), ns["Mdl"]()
        if sc.get("field0") is not None:
            ma.state = eng.state_value(sc, sc["field0"])
        la = ns["LISTENERS"]
        lb = [type(x)() for x in la][: max(0, len(la) - 1)]
        a = b_ = None
        obs = []
        for op in sc["ops"]:
            if op[0] not in ("construct", "send"):
                continue
            R.log = []
            try:
                if op[0] == "construct":
                    a = ns["construct"](ma, la)
                    r = None
                else:
                    r = a.send(eng.evname(op[1]), tag=op[2])
                out = ["v", eng.to_json(r)]
            except Exception as e:  # noqa: BLE001
                out = ["x", eng.exn_json(e)]
            log_a = [e[:11] for e in R.log]
            obs.append([out, ma.state, log_a])
            # unrelated activity on B
            R.log = []
            try:
                if op[0] == "construct":
                    b_ = ns["construct"](mb, lb)
                elif b_ is not None:
                    b_.send(eng.evname((op[1] + 1) % max(1, sc["ne"])), tag=77)
            except Exception:  # noqa: BLE001
                pass
            if op[0] == "construct" and out[0] == "x":
                break
    eng.RUN = None
    return {"probe": "pair", "obs": obs, "alone": alone}


def pair_alone(sc):
    sc2 = dict(sc, ops=[op for op in sc["ops"] if op[0] in ("construct", "send")])
    return eng.run_impl(sc2)


def d11_probe(sc):
    """a listener with a coroutine callback added to a machine that chose the sync engine"""
    from statemachine import State, StateMachine
    got = []

    class M(StateMachine):
        s0 = State(initial=True)
        s1 = State()
        go = s0.to(s1) | s1.to(s0)

    class L:
        async def after_go(self):
            got.append("ran")
    with warnings.catch_warnings():
        warnings.simplefilter("ignore")
        sm = M()
        sm.add_listener(L())
        sm.send("go")
        import gc
        gc.collect()
    return {"probe": "d11", "bad": [] if got == ["ran"] else [got]}


def copy_attach_probe(sc):
    """a machine and a (shallow or deep) copy of it; a listener is attached to only one of the two; the
    other one - and any later copy of the other one - must never invoke it"""
    import random
    from statemachine import State, StateMachine
    rng = random.Random(sc["seed"])

    class M(StateMachine):
        s0 = State(initial=True)
        s1 = State()
        go = s0.to(s1) | s1.to(s0)

    class L:
        def __init__(self):
            self.calls = 0

        def after_go(self):
            self.calls += 1
    bad = []
    via = sc.get("via", "send")

    def fire(m):
        # the same event through one of the interchangeable entry points
        if via == "attr":
            return m.go()
        if via == "events":
            return [e for e in m.events if str(e) == "go"][0]()
        if via == "allowed":
            return [e for e in m.allowed_events if str(e) == "go"][0]()
        return m.send("go")
    with warnings.catch_warnings():
        warnings.simplefilter("ignore")
        if sc.get("shared_list"):
            # two machines constructed from the very same list object; a listener attached to one of them later
            # belongs to that one only - the other machine, its copies and the caller's list never see it
            given = [L()]
            a, other = M(listeners=given), M(listeners=given)
            x = L()
            a.add_listener(x)
            for m in [other] + [(copy.deepcopy if rng.random() < 0.5 else copy.copy)(other) for _ in range(2)] + [M(listeners=given)]:
                fire(m)
                fire(m)
            if x.calls:
                bad.append(f"a listener attached to one machine was invoked {x.calls} time(s) by another machine built from the same list")
            if len(given) != 1:
                bad.append("the caller's list of listeners was changed")
            fire(a)
            if x.calls != 1:
                bad.append(f"the machine it was attached to invoked it {x.calls} time(s) for one event")
            return {"probe": "copy_attach", "bad": bad}
        a = M(listeners=[L()])
        if rng.random() < 0.5 or via != "send":
            fire(a)
        b_ = (copy.copy if sc["first"] == "copy" else copy.deepcopy)(a)
        x = L()
        with_x, without = (b_, a) if sc["side"] == "copy" else (a, b_)
        if sc.get("via_observer"):
            with_x.add_observer(x)           # the older name of add_listener
        else:
            with_x.add_listener(x)
        # a deep copy of the machine it WAS attached to carries (a copy of) it along
        twin = copy.deepcopy(with_x)
        mine = [l_ for l_ in twin._listeners if isinstance(l_, L)]
        before = sum(l_.calls for l_ in mine)
        fire(twin)
        if sum(l_.calls for l_ in mine) - before != 2 or len(mine) != 2:
            bad.append(f"a deep copy of the machine with the late listener invoked {sum(l_.calls for l_ in mine) - before} "
                       f"of its {len(mine)} listener(s) (expected both the constructor's and the late one)")
        later = [(copy.deepcopy if rng.random() < 0.7 else copy.copy)(without) for _ in range(rng.randint(1, 2))]
        for m in [without] + later:
            fire(m)
            fire(m)
        if x.calls:
            bad.append(f"a listener attached to one machine only was invoked {x.calls} time(s) by the other / its copies")
        fire(with_x)
        if x.calls != 1:
            bad.append(f"the machine it was attached to invoked it {x.calls} time(s) for one event")
    return {"probe": "copy_attach", "bad": bad}


def expr_late_probe(sc):
    """a guard written as an expression over names the model has at construction; a listener attached later
    has the same names: the guard must hold on the late listener's values too"""
    import random
    from statemachine import State, StateMachine
    from statemachine.exceptions import TransitionNotAllowed
    rng = random.Random(sc["seed"])
    text = sc["text"]
    names = ["level", "ready", "blocked"]
    bad = []
    for _ in range(6):
        vm = {"level": rng.choice([0, 1, 2, 3]), "ready": rng.choice([True, False, 1, 0]), "blocked": rng.choice([True, False, 0, 2])}
        vl = {"level": rng.choice([0, 1, 2, 3]), "ready": rng.choice([True, False, 1, 0]), "blocked": rng.choice([True, False, 0, 2])}

        class M(StateMachine):
            a = State(initial=True)
            b = State()
            go = a.to(b, **{sc["kind"]: text}) | b.to(a)
        Mdl = type("Mdl", (), dict(vm, state=None))
        Late = type("Late", (), dict(vl))
        with warnings.catch_warnings():
            warnings.simplefilter("ignore")
            sm = M(Mdl())
            if sc["copy_first"]:
                sm = copy.deepcopy(sm)
            sm.add_listener(Late())
            if sc["copy_after"]:
                sm = copy.deepcopy(sm)
            try:
                sm.send("go")
                fired = True
            except TransitionNotAllowed:
                fired = False
            except Exception as e:  # noqa: BLE001
                fired = repr(e)
        want_value = sc["kind"] == "cond"

        def entry(vals):
            return bool(eval(text, {"__builtins__": {}}, dict(vals))) == want_value  # noqa: S307
        # (also on a copy taken afterwards: it attaches its listeners in the groups of its original - until the
        # repair D30 a copy resolved model and late listener together, one entry over the conjunction of the
        # providers of each name, as a machine constructed with that listener still does: known finding D25)
        expect = entry(vm) and entry(vl)
        if fired != expect:
            bad.append(f"{sc['kind']}={text!r}: model {vm}, late listener {vl}: fired={fired}, expected {expect}")
    return {"probe": "expr_late", "bad": bad[:3]}


def event_name_probe(sc):
    """a callback name that is also an event of the machine: the event is sent, and every other provider of
    that name (model, constructor listeners, late listeners - also after a copy) is called as well"""
    from statemachine import State, StateMachine
    calls = []

    class Mdl:
        def __init__(self):
            self.state = None

        def finish(self):
            calls.append("model")

    class L:
        def __init__(self, tag):
            self.tag = tag

        def finish(self):
            calls.append(self.tag)

    class M(StateMachine):
        idle = State(initial=True)
        running = State()
        done = State(final=True)
        start = idle.to(running, **{sc["group"]: "finish"})
        finish = running.to(done)
    bad = []
    with warnings.catch_warnings():
        warnings.simplefilter("ignore")
        sm = M(Mdl(), listeners=[L("ctor")])
        sm.add_listener(L("late"))
        if sc["copy"]:
            sm = copy.deepcopy(sm)
        try:
            sm.send("start")
        except Exception as e:  # noqa: BLE001
            bad.append(repr(e))
    if sorted(calls) != ["ctor", "late", "model"]:
        bad.append(f"providers of `finish` called: {calls}")
    if not bad and sm.current_state.id != "done":
        bad.append("state " + sm.current_state.id)
    return {"probe": "event_name", "bad": bad}


def d25_probe(sc):
    """`unless="blocked"` where the model says False and a listener passed to the constructor says True: the
    guard does not hold on the listener, so the transition must not fire (as it does not when the same listener
    is attached later with add_listener)"""
    from statemachine import State, StateMachine
    from statemachine.exceptions import TransitionNotAllowed

    class Door(StateMachine):
        closed = State(initial=True)
        opened = State()
        open = closed.to(opened, unless="blocked") | opened.to(closed)

    class Mdl:
        def __init__(self):
            self.state = None
            self.blocked = False

    class Sensor:
        blocked = True

    def fires(sm):
        try:
            sm.send("open")
            return True
        except TransitionNotAllowed:
            return False
    with warnings.catch_warnings():
        warnings.simplefilter("ignore")
        late = Door(Mdl())
        late.add_listener(Sensor())
        r_late = fires(late)
        r_ctor = fires(Door(Mdl(), listeners=[Sensor()]))
    bad = []
    if r_late:
        bad.append("fired although the late listener is blocked")
    if r_ctor:
        bad.append("fired although the constructor listener is blocked (the late listener does block)")
    return {"probe": "d25", "bad": bad}


def factory_listeners_probe(sc):
    """two listener classes made by one factory (same qualified name) whose hook of the same name declares
    different keyword-only parameters: each one receives exactly what IT declares"""
    from statemachine import State, StateMachine
    rec = []

    def make(detailed):
        if detailed:
            class Audit:
                def after_transition(self, *, event, source=None, target=None):
                    rec.append(("detailed", str(event), getattr(source, "id", None), getattr(target, "id", None)))
        else:
            class Audit:
                def after_transition(self, *, event):
                    rec.append(("simple", str(event)))
        return Audit()

    class M(StateMachine):
        a = State(initial=True)
        b = State()
        go = a.to(b) | b.to(a)
    bad = []
    with warnings.catch_warnings():
        warnings.simplefilter("ignore")
        first, second = (make(False), make(True)) if sc["order"] == "simple_first" else (make(True), make(False))
        sm = M(listeners=[first])
        sm.add_listener(second)
        sm.send("go")
    if sorted(rec) != [("detailed", "go", "a", "b"), ("simple", "go")]:
        bad.append(f"received: {sorted(rec)}")
    return {"probe": "factory_listeners", "bad": bad}


def run_impl(sc):
    if sc.get("probe") == "factory_listeners":
        return factory_listeners_probe(sc)
    if sc.get("probe") == "d25":
        return d25_probe(sc)
    if sc.get("probe") == "expr_late":
        return expr_late_probe(sc)
    if sc.get("probe") == "event_name":
        return event_name_probe(sc)
    if sc.get("probe") == "copy_attach":
        return copy_attach_probe(sc)
    if sc.get("probe") == "pair":
        sc2 = dict(sc, ops=[op for op in sc["ops"] if op[0] in ("construct", "send")])
        alone = eng.run_impl(sc2)
        inter = pair_probe(sc2)
        same = len(alone) == len(inter["obs"]) and all(
            o["out"] == i[0] and [e[:11] for e in o["log"]] == i[2] for o, i in zip(alone, inter["obs"]))
        return {"probe": "pair", "bad": [] if same else ["trace of A changes when B is driven in between"]}
    if sc.get("probe") == "d11":
        return d11_probe(sc)
    return eng.run_impl(sc)


def coq_case(sc, obs):
    if sc.get("probe"):
        return f"(asserted {0 if obs['bad'] else 1})"
    return "(wfc " + eng.coq_case(sc, obs) + ")"


def render_source(sc):
    if sc.get("probe") == "copy_attach":
        return (f"# probe: a = M(listeners=[L()]); b = copy.{sc['first']}(a); x = L(); attach x to the {sc['side']} only; "
                "deep / shallow copies of the other one are made and driven: x must never be invoked by them\n")
    if sc.get("probe") == "factory_listeners":
        return "# probe: " + " ".join(factory_listeners_probe.__doc__.split()) + f" ({sc['order']})\n"
    if sc.get("probe") == "d25":
        return "# probe: " + " ".join(d25_probe.__doc__.split()) + "\n"
    if sc.get("probe") == "expr_late":
        return "# probe: " + " ".join(expr_late_probe.__doc__.split()) + f"\n# {sc}\n"
    if sc.get("probe") == "event_name":
        return "# probe: " + " ".join(event_name_probe.__doc__.split()) + f"\n# {sc}\n"
    if sc.get("probe") == "d11":
        return "# probe: listener with `async def after_go` added with add_listener to a machine without coroutine callbacks\n"
    return eng.render_source(sc) + (f"\n# probe: a second instance with other listeners is driven in between\n" if sc.get("probe") else "")


def generate(rng, tier):
    n = 1600 if tier == "quick" else 30000
    scs = [add_late(enggen.gen_scenario(rng, K), rng) for _ in range(n)]
    parts = [("seeded random machines whose callback / guard / validator names are spread over machine, model, "
              "constructor listeners and listeners attached later (add_listener at random points, repeated, "
              "several at once)", n)]
    npair = 150 if tier == "quick" else 3000
    pr = []
    for _ in range(npair):
        # behaviours independent of call counts: the driver's counters are shared by both instances
        sc = enggen.gen_scenario(rng, dict(K, sends=0.0, raises=0.0, rtc_false=0.0, scripts=(0, 0), attr_guards=0.0, lstyles=0.0))
        sc["probe"] = "pair"
        pr.append(sc)
    pr.append({"probe": "d11"})
    pr.append({"probe": "d25"})
    pr.append({"probe": "factory_listeners", "order": "simple_first"})
    pr.append({"probe": "factory_listeners", "order": "detailed_first"})
    for k in range(24):
        pr.append({"probe": "copy_attach", "seed": rng.randrange(10 ** 6), "first": ["copy", "deepcopy"][k % 2],
                   "side": ["copy", "original"][(k // 2) % 2]})
    for k in range(4):
        pr.append({"probe": "copy_attach", "seed": rng.randrange(10 ** 6), "first": "copy", "side": "copy", "shared_list": True})
    for k in range(4):
        pr.append({"probe": "copy_attach", "seed": rng.randrange(10 ** 6), "first": ["copy", "deepcopy"][k % 2],
                   "side": ["copy", "original"][k // 2], "via_observer": True})
    texts = ["level >= 2", "level > 1 and ready", "not blocked", "ready", "level == 2 or blocked", "level != 0"]
    for k in range(12):
        pr.append({"probe": "expr_late", "seed": rng.randrange(10 ** 6), "text": texts[k % len(texts)],
                   "kind": ["cond", "unless"][(k // 6) % 2], "copy_first": k % 4 == 1, "copy_after": k % 4 == 2})
    for k in range(6):
        pr.append({"probe": "event_name", "group": ["before", "on", "after"][k % 3], "copy": k >= 3})
    scs += pr
    parts.append(("isolation pairs: two instances of one class with different listener objects driven alternately, "
                  "A's trace compared with A driven alone; + probe of a coroutine listener added to a sync machine; + probes "
                  "where a listener is attached to only one of a machine and its shallow / deep copy", len(pr)))
    return scs, parts


def nontrivial(sc, obs):
    """Non-trivial: at least one listener was attached after construction and afterwards >= 1 of its
    callbacks ran, or the same name is provided by >= 2 providers that both ran."""
    if sc.get("probe"):
        return False
    late = set(sc.get("late", []))
    ran = {e[1] for o in obs for e in o["log"] if e[0] == "c"}
    if late & ran:
        return True
    names = {}
    for o in obs:
        for e in o["log"]:
            if e[0] == "c":
                names.setdefault((e[2], e[3]), set()).add(e[1])
    return any(len(v) >= 2 for v in names.values())


def d11(sc, v):
    return sc.get("probe") == "d11"


def d25(sc, v):
    return sc.get("probe") == "d25"


CLASSIFIERS = {"C12.coroutine_listener_added_to_sync_machine": d11,
               "C12.unless_over_constructor_providers": d25}


def extra_coverage(scs, obs, verdicts):
    return {"late_listener_scenarios": sum(1 for s in scs if s.get("late")),
            "add_operations": sum(1 for s in scs for op in s.get("ops", []) if op[0] == "add"),
            "out_of_scope": sum(1 for v in verdicts if v == 9)}


def explain(sc, obs):
    if sc.get("probe"):
        return obs
    return engfam.explain_for("C12")(sc, obs)
