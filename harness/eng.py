"""Shared driver of the engine-family checks (C01 C02 C03 C04 C11 C14 ...).

A scenario (JSON, also the replay format) is an abstract machine declaration + callback providers +
behaviour table + option values + an operation history.  `render_source` turns it into Python
source for the real library, `run_impl` executes it and records the observables, `coq_case` writes
the same scenario and the recorded observables as a Gallina literal for Run/EngineRun.v.
"""
import asyncio
import logging
import sys
import warnings

# "Task exception was never retrieved" is expected noise when a sibling coroutine callback raises
logging.getLogger("asyncio").setLevel(logging.CRITICAL)

POOL = ["go", "go_back", "g", "run", "run_2", "tick", "t", "transition"]     # (index 7: see engfam.post_C02)


class UserErr(Exception):
    def __init__(self, code):
        super().__init__(code)
        self.code = code


class UserBase(BaseException):
    """a user exception that is not an Exception (the class of KeyboardInterrupt, SystemExit,
    asyncio.CancelledError): a callback that lets one escape has failed like with any other exception"""

    def __init__(self, code):
        super().__init__(code)
        self.code = code


def make_user_tna(code):
    """a TransitionNotAllowed raised by user code inside a callback (e.g. by driving another, strict machine):
    a failure of the callback like any other, also when this machine tolerates unknown events"""
    from statemachine.exceptions import TransitionNotAllowed

    class UserTNA(TransitionNotAllowed):
        pass
    e = UserTNA.__new__(UserTNA)
    Exception.__init__(e, f"user code {code}")
    e.code, e.event, e.state = code, None, None
    return e


class UserStop(StopIteration):
    """a user exception that happens to be a StopIteration (e.g. next() on an exhausted iterator in a
    callback): it must propagate like any other exception"""

    def __init__(self, code):
        super().__init__(code)
        self.code = code


class UserRuntime(RuntimeError):
    def __init__(self, code):
        super().__init__(code)
        self.code = code


class UserAttr(AttributeError):
    def __init__(self, code):
        super().__init__(code)
        self.code = code


class UserKey(KeyError):
    def __init__(self, code):
        super().__init__(code)
        self.code = code


class UserType(TypeError):
    def __init__(self, code):
        super().__init__(code)
        self.code = code


class UserNotImpl(NotImplementedError):
    def __init__(self, code):
        super().__init__(code)
        self.code = code


class UserIndex(IndexError):
    def __init__(self, code):
        super().__init__(code)
        self.code = code


class UserFalsy(Exception):
    """an exception object that evaluates as false (e.g. an error collection raised while empty)"""

    def __init__(self, code):
        super().__init__(code)
        self.code = code

    def __bool__(self):
        return False

    def __len__(self):
        return 0


# exceptions a callback may raise that derive from classes Python or asyncio themselves give a meaning to:
# they must escape like any other exception of a callback
EXC_CLASSES = {"runtime": UserRuntime, "attr": UserAttr, "key": UserKey, "type": UserType, "notimpl": UserNotImpl,
               "falsy": UserFalsy, "index": UserIndex}


def user_exception(sc, code, sync_only_ok=True):
    if sc.get("base_exc") and code % 3 == 0:
        return UserBase(code)
    if sc.get("user_tna") and code % 4 == 1:
        return make_user_tna(code)
    if sc.get("stop_iter") and sync_only_ok and not sc.get("async") and code % 2:
        return UserStop(code)
    kinds = sc.get("exc_classes") or []
    if kinds and code % 2 == 0:
        return EXC_CLASSES[kinds[code % len(kinds)]](code)
    return UserErr(code)


class Opq:
    """An arbitrary object with a chosen truthiness."""

    def __init__(self, ident, truthy):
        self.ident, self.truthy = ident, truthy

    def __bool__(self):
        return self.truthy

    def __repr__(self):
        return f"Opq({self.ident},{self.truthy})"


class AnyEq(Opq):
    """a truthy object that claims to be equal to everything (like unittest.mock.ANY): results must be
    handled by identity, never by comparing them with library-internal markers"""

    def __eq__(self, other):
        return True

    def __ne__(self, other):
        return False

    __hash__ = Opq.__hash__


# undeclared event names that are names of other attributes of the machine (state ids, reserved words, ...)
SPECIAL_NAMES = {800: "s0", 801: "model", 802: "current_state", 803: "states", 804: "send", 805: "u1",
                 806: "allowed_events", 807: "s1", 808: "current_state_value", 809: "add_listener",
                 # (812..814: DECLARED events that are called like a state, see c13.post)
                 812: "s2", 813: "s3", 814: "s4"}


def evname(e):
    if e in SPECIAL_NAMES:
        return SPECIAL_NAMES[e]
    return POOL[e] if e < len(POOL) else f"zz{e}"


def evidx(name):
    name = str(name)
    if name == "__initial__":
        return None
    for k_, v_ in SPECIAL_NAMES.items():
        if v_ == name:
            return k_
    if name in POOL:
        return POOL.index(name)
    if name.startswith("zz"):
        return int(name[2:])
    return 900


def cbname(nm):
    kind, k = nm
    if kind == 0 and 300 <= k < 320:
        return f"s{k - 300}"          # a user name that is also the id of a state (provided by model / listeners)
    return {
        # (every fifth user name starts with an underscore: a legal name for a callback, on listeners too)
        0: (f"_u{k}" if (k % 5 == 0 and k < 300) else f"u{k}"), 1: "before_transition", 2: "on_transition", 3: "after_transition",
        4: f"before_{evname(k)}", 5: f"on_{evname(k)}", 6: f"after_{evname(k)}",
        7: "on_enter_state", 8: "on_exit_state", 9: f"on_enter_s{k}", 10: f"on_exit_s{k}",
    }[kind]


def from_json(v):
    if v is None or isinstance(v, (bool, int)):
        return v
    if "sid" in v:
        return f"s{v['sid']}"            # (a state value spelled like the id of ANOTHER state)
    if "s" in v:
        return "" if v["s"] == 0 else f"str{v['s']}"
    if "l" in v:
        return [from_json(x) for x in v["l"]]
    if "t" in v:
        return tuple(from_json(x) for x in v["t"])
    if "x" in v:
        return UserErr(v["x"])               # an exception object handed back as an ordinary value
    if v.get("eq"):
        return AnyEq(v["o"], True)
    return Opq(v["o"], v["b"])


def to_json(v):
    if v is None or isinstance(v, bool):
        return v
    if isinstance(v, int):
        return v
    if isinstance(v, str):
        if v == "":
            return {"s": 0}
        if v.startswith("str") and v[3:].isdigit():
            return {"s": int(v[3:])}
        return {"o": 999, "b": True}
    if isinstance(v, list):
        return {"l": [to_json(x) for x in v]}
    if isinstance(v, tuple):
        return {"t": [to_json(x) for x in v]}
    if isinstance(v, UserErr):
        return {"x": v.code}
    if isinstance(v, AnyEq):
        return {"o": v.ident, "b": True, "eq": 1}
    if isinstance(v, Opq):
        return {"o": v.ident, "b": v.truthy}
    if asyncio.iscoroutine(v):
        v.close()
        return {"o": 998, "b": True}
    return {"o": 997, "b": bool(v)}


def sidx(state):
    sid = getattr(state, "id", None)
    if not sid:
        return None
    return int(sid[1:]) if sid[0] == "s" and sid[1:].isdigit() else 900


def exn_json(e):
    from statemachine.exceptions import InvalidDefinition, InvalidStateValue, TransitionNotAllowed
    if (isinstance(e, (UserErr, UserStop, UserBase) + tuple(EXC_CLASSES.values()))
            or hasattr(e, "code") and type(e).__name__ == "UserTNA"):
        return ["u", e.code]
    if isinstance(e, TransitionNotAllowed):
        return ["na", evidx(e.event), sidx(e.state)]
    if isinstance(e, InvalidStateValue):
        return ["ns"]
    if isinstance(e, IndexError):
        return ["ix"]
    if isinstance(e, InvalidDefinition):
        return ["idef"]
    return ["other", type(e).__name__ + ": " + str(e)[:200]]


class Run:
    """Mutable context of one scenario execution (what the generated callbacks talk to)."""

    def __init__(self, sc):
        self.sc = sc
        self.tbl = {(p, kind, k): (scripts, dflt) for p, kind, k, scripts, dflt in sc["tbl"]}
        self.count = {}
        self.log = []
        self.cls = None
        self.running = []        # (activation id, group) of the callbacks currently between begin and end
        self.overlap = 0         # times a callback began while one of another activation / group was running
        self.tags = {}           # id(model) -> tag of machines other than the scenario's own
        self.mute_tags = {99}    # tags whose callbacks are not logged (decoys, C16's unrelated machines)
        self.group_of = {}
        for t in sc["trans"]:
            for key in ("val", "before", "on", "after"):
                for nm in t[key]:
                    self.group_of.setdefault(tuple(nm), set()).add(key)
            for nm, _ in t["cond"]:
                self.group_of.setdefault(tuple(nm), set()).add("cond")
        for st in sc["states"]:
            for key in ("enter", "exit"):
                for nm in st[key]:
                    self.group_of.setdefault(tuple(nm), set()).add(key)

    def group(self, kind, k):
        conv = {1: "before", 2: "on", 3: "after", 4: "before", 5: "on", 6: "after", 7: "enter", 8: "exit",
                9: "enter", 10: "exit"}
        if kind in conv:
            return conv[kind]
        g = self.group_of.get((kind, k), set())
        return next(iter(g)) if len(g) == 1 else None

    def csv(self, machine):
        v = machine.current_state_value
        if v is None:
            return None
        st = self.cls.states_map.get(v)
        return sidx(st) if st is not None else 900


RUN = None
BETWEEN = None
WRAP = None          # C16: run each operation from inside a callback of an unrelated machine
DEFAULT_SCRIPT = {"a": [], "r": None}


def _depth():
    f = sys._getframe(2)
    n = 0
    while f is not None:
        n += 1
        f = f.f_back
    return n


def _enter(p, kind, k, isg, kw):
    R = RUN
    key = (p, kind, k)
    m = kw.get("machine")
    # call counters are per machine (a clone continues the call history of its original)
    tags = getattr(R, "tags", None)
    tag = tags.get(id(getattr(m, "model", None)), 0) if tags else 0
    n = R.count.get((tag,) + key, 0)
    R.count[(tag,) + key] = n + 1
    scripts, dflt = R.tbl.get(key, ([], DEFAULT_SCRIPT))
    script = scripts[n] if n < len(scripts) else dflt
    if tag in getattr(R, "mute_tags", ()):
        return R, dict(script, a=[a for a in script["a"] if a[0] not in ("raise", "write")]), m    # unrelated machine (C16): not logged
    # the injected event_data must describe the same event as the individual built-in parameters
    ed = kw.get("event_data")
    consistent = True
    if ed is not None:
        for nm in ("state", "source", "target", "event", "machine", "model", "transition"):
            if nm in kw:
                v = getattr(ed, nm, kw[nm])
                if v is not kw[nm] and v != kw[nm]:
                    consistent = False
        tr = kw.get("transition")
        if tr is not None and "source" in kw and "target" in kw and (tr.source is not kw["source"] or tr.target is not kw["target"]):
            consistent = False
    R.log.append(["c", p, kind, k, bool(isg), evidx(kw.get("event")), sidx(kw.get("source")),
                  sidx(kw.get("target")), sidx(kw.get("state")) if consistent else 901, R.csv(m), kw.get("tag", 0) or 0,
                  0 if isg else _depth()])
    return R, script, m


def _muted(R, m):
    tags = getattr(R, "tags", None)
    return bool(tags) and tags.get(id(getattr(m, "model", None)), 0) in getattr(R, "mute_tags", ())


class _NoLog(list):
    def append(self, _x):
        pass


def _cb(p, kind, k, isg, kw):
    R, script, m = _enter(p, kind, k, isg, kw)
    if _muted(R, m):
        R = type("Quiet", (), {"log": _NoLog(), "sc": R.sc})()      # an unrelated machine: nothing of it is logged
    for act in script["a"]:
        if act[0] == "send":
            try:
                r = m.send(evname(act[1]), tag=act[2])
            except (Exception, UserBase) as e:  # noqa: BLE001 - recorded and re-raised: the callback does not catch
                R.log.append(["n", "x", exn_json(e)])
                raise
            if asyncio.iscoroutine(r):
                # a plain callback inside the async engine gets an un-awaited coroutine back (known
                # finding D18, probed by C05); the trigger itself is already queued: treat as None here
                r.close()
                r = None
            R.log.append(["n", "v", to_json(r)])
        elif act[0] == "write":
            # the low-level API: the callback assigns the state itself
            m.current_state_value = state_value(RUN.sc, act[1])
        else:
            raise user_exception(RUN.sc, act[1])
    return from_json(script["r"])


def _prop(p, kind, k, obj):
    """a guard that is a property of its provider (read with getattr, never called): outside the processing of
    an event it reads as None; inside, its n-th read follows the n-th script (a value, or an exception - for
    even codes an AttributeError subclass, as a property reaching through a missing attribute raises)"""
    R = RUN
    if R is None or not getattr(R, "in_send", False):
        return None
    key = (p, kind, k)
    n = R.count.get((0,) + key, 0)
    R.count[(0,) + key] = n + 1
    scripts, dflt = R.tbl.get(key, ([], DEFAULT_SCRIPT))
    script = scripts[n] if n < len(scripts) else dflt
    for act in script["a"]:
        if act[0] == "raise":
            raise (UserAttr(act[1]) if act[1] % 2 == 0 else UserErr(act[1]))
    return from_json(script["r"])


class _Aw:
    """an awaitable that is not a coroutine object"""

    def __init__(self, coro):
        self.coro = coro

    def __await__(self):
        return self.coro.__await__()


def _same_loop(R):
    """driven from synchronous code, the coroutine callbacks of one thread always run on one and the same
    event loop (so that loop-bound objects a callback keeps - tasks, futures - stay usable in later events)"""
    import threading
    if R.sc.get("driver", "plain") == "loop":
        return True
    key, lp = threading.get_ident(), id(asyncio.get_running_loop())
    loops = R.__dict__.setdefault("loops", {})
    return loops.setdefault(key, lp) == lp


async def _acb(p, kind, k, isg, kw):
    R, script, m = _enter(p, kind, k, isg, kw)
    if not _same_loop(R) and R.log and R.log[-1][0] == "c":
        R.log[-1][8] = 902                                        # the event loop changed under the callbacks
    mark = (id(kw.get("event_data")), R.group(kind, k))
    if mark[1] is not None:
        if any(x != mark for x in R.running):
            R.overlap += 1
        R.running.append(mark)
    try:
        return await _acb_body(R, script, m)
    finally:
        if mark[1] is not None:
            R.running.remove(mark)


async def _acb_body(R, script, m):
    if _muted(R, m):
        R = type("Quiet", (), {"log": _NoLog(), "sc": R.sc})()
    for act in script["a"]:
        if act[0] == "send":
            try:
                r = m.send(evname(act[1]), tag=act[2])
                if asyncio.iscoroutine(r) or isinstance(r, asyncio.Future):
                    r = await r
            except (Exception, UserBase) as e:  # noqa: BLE001
                R.log.append(["n", "x", exn_json(e)])
                raise
            R.log.append(["n", "v", to_json(r)])
        elif act[0] == "yield":
            await asyncio.sleep(0)
        elif act[0] == "write":
            m.current_state_value = state_value(RUN.sc, act[1])
        else:
            raise user_exception(RUN.sc, act[1], sync_only_ok=False)
    return from_json(script["r"])


# ------------------------------------------------------------------ rendering
GUARD_NAMES_CACHE = {}


def guard_names(sc):
    g = set()
    for t in (sc["trans"] + ([sc["any_render"]] if sc.get("any_render") else [])
              + ([sc["any_render2"]] if sc.get("any_render2") else []) + list(sc.get("also_guards", []))):
        for nm, _ in t["cond"]:
            g.add(tuple(nm))
    return g


def state_value(sc, i):
    if sc.get("values") and sc["values"][i] is not None:
        return from_json(sc["values"][i])
    return f"s{i}"


def render_source(sc):
    if sc.get("any_group"):
        # the last group of transitions (one from every non-final state to one target, same arguments)
        # is written as target.from_.any(...)
        n_any = sc["any_group"]
        sc = dict(sc, trans=sc["trans"][:-n_any], any_render=sc["trans"][-1], any_group=0,
                  mixed=(sc["mixed"][:-n_any] if sc.get("mixed") else sc.get("mixed")))
    ext_ev = sc.get("extend_event")          # an event the SUBCLASS adds to every inherited transition
    if ext_ev is not None:
        sc = dict(sc, trans=[dict(t, ev=[e for e in t["ev"] if e != ext_ev]) for t in sc["trans"]], inherit=True)
    gn = guard_names(sc)
    acoros = {tuple(x) for x in sc.get("async", [])}
    out = ["from statemachine import State, StateMachine",
           "from harness.eng import _cb, _acb, _Aw, _prop", "from inspect import markcoroutinefunction as _mark", ""]

    inst = []
    hooks = []
    wrapped_ = {tuple(x) for x in sc.get("wrapped_coros", [])}

    def methods(p, attrs, ind="    "):
        ls = []
        for nm in attrs:
            kind, k = nm
            isg = tuple(nm) in gn
            if kind == 0 and k >= 500 and sc.get("prop_guards"):
                ls.append(f"{ind}{cbname(nm)} = property(lambda self: _prop({p}, {kind}, {k}, self))      # a guard that is a property")
                continue
            if p == 0 and [kind, k] in (sc.get("inst_hooks") or []):
                hooks.append(nm)              # set on the instance by __init__ (not an attribute of the class)
                continue
            if kind == 0 and k >= 500:
                if p == 0 and sc.get("inst_attrs"):
                    inst.append(cbname(nm))       # exists on the instance only (set in __init__)
                else:
                    ls.append(f"{ind}{cbname(nm)} = None      # a plain attribute: its value is assigned after attachment")
                continue
            if (p, kind, k) in acoros and (p, kind, k) in wrapped_:
                # a plain function that returns an awaitable: the coroutine itself (e.g. an async function behind
                # an ordinary wrapper), or an object that is awaitable without being a coroutine
                if (p + kind + k) % 2:
                    ls.append(f"{ind}def {cbname(nm)}(self, **kw): return _Aw(_acb({p}, {kind}, {k}, {isg}, kw))")
                else:
                    ls.append(f"{ind}def {cbname(nm)}(self, **kw): return _acb({p}, {kind}, {k}, {isg}, kw)")
            elif (p, kind, k) in acoros and sc.get("marked_coros"):
                # a plain function that hands back the coroutine, declared a coroutine function with
                # inspect.markcoroutinefunction (what decorators wrapping async functions do since Python 3.12)
                ls.append(f"{ind}def {cbname(nm)}(self, **kw): return _acb({p}, {kind}, {k}, {isg}, kw)")
                ls.append(f"{ind}{cbname(nm)} = _mark({cbname(nm)})")
            elif (p, kind, k) in acoros:
                ls.append(f"{ind}async def {cbname(nm)}(self, **kw): return await _acb({p}, {kind}, {k}, {isg}, kw)")
            else:
                ls.append(f"{ind}def {cbname(nm)}(self, **kw): return _cb({p}, {kind}, {k}, {isg}, kw)")
        return ls

    callables_ = {tuple(nm) for nm in sc.get("callable_names", [])}    # passed as function objects, not by name

    bound_refs = bool(sc.get("bound_refs"))      # the function objects are bound methods of a helper object

    def names(l):
        return "[" + ", ".join((("EXT." if bound_refs else "") + "fn_" + cbname(nm)) if tuple(nm) in callables_
                               else repr(cbname(nm)) for nm in l) + "]"

    style = sc.get("evstyle", "str")          # how events are attached: str / list / obj / assign / event_ctor
    tstyle = sc.get("tstyle", "to")           # how transitions are created: to / from / multi / multi_from
    sstyle = sc.get("sstyle", "attr")         # how states are declared: attr / dict / enum
    inherit = bool(sc.get("inherit"))         # states and transitions live in a base class
    imports = {"State", "StateMachine"}
    body = []

    def S(i):
        return f"s{i}" if sstyle == "attr" else f"states.s{i}"

    state_decor = [x for x in sc.get("state_decor", [])] if sstyle == "attr" else []

    def state_args(i):
        st = sc["states"][i]
        st = {"enter": list(st["enter"]), "exit": list(st["exit"])}
        for i_, g_, nm_ in state_decor:
            if i_ == i:
                idx = max(j for j, n_ in enumerate(st[g_]) if list(n_) == list(nm_))
                del st[g_][idx]
        args = []
        if i in (sc.get("dup_names") or []):
            args.append("name='Same name'")          # several states share one display name
        if sc.get("values") and sc["values"][i] is not None:
            args.append(f"value={from_json(sc['values'][i])!r}")
        if i == sc["initial"]:
            args.append("initial=True")
        if i in sc["finals"]:
            args.append("final=True")
        if st["enter"]:
            args.append(f"enter={names(st['enter'])}")
        if st["exit"]:
            args.append(f"exit={names(st['exit'])}")
        return ", ".join(args)

    pre = []
    if sstyle == "attr":
        for i in range(sc["n"]):
            body.append(f"    s{i} = State({state_args(i)})")
    elif sstyle == "dict":
        imports.add("States")
        body.append("    states = States({" + ", ".join(f"'s{i}': State({state_args(i)})" for i in range(sc["n"])) + "})")
    else:   # enum: names are the state ids, values 1.. are the state values
        imports.add("States")
        if sc.get("enum_kind") == "int0":
            # an IntEnum whose first member is 0 (falsy), with an alias of that member
            pre.append("from enum import IntEnum")
            pre.append("class SE(IntEnum):")
            base_ = sc["finals"][0] if sc["finals"] else 0       # a final state (if any) is the member with value 0
            for i in range(sc["n"]):
                pre.append(f"    s{i} = {(i - base_) % sc['n']}")
            pre.append(f"    zz_alias = 0")
        else:
            pre.append("from enum import Enum")
            pre.append("class SE(Enum):")
            for i in range(sc["n"]):
                pre.append(f"    s{i} = {i + 1}")
        fin = "[" + ", ".join(f"SE.s{i}" for i in sc["finals"]) + "]"
        if len(sc["finals"]) == 1:
            fin = f"SE.s{sc['finals'][0]}"          # a single member instead of a list
        body.append(f"    states = States.from_enum(SE, initial=SE.s{sc['initial']}, final={fin})")
    used_events = sorted({e for t in sc["trans"] for e in t["ev"]})
    if style == "obj":
        imports.add("Event")
        ev_lines = [f"    {evname(e)} = Event()" for e in used_events]
        if sc.get("events_first") and sstyle == "attr":
            body[0:0] = ev_lines           # the Event() attributes come before the State attributes
        else:
            body += ev_lines

    def kwargs_of(t):
        args = []
        if style == "str":
            args.append("event=" + repr(" ".join(evname(e) for e in t["ev"])))
        elif style == "list":
            args.append("event=" + repr([evname(e) for e in t["ev"]]))
        elif style == "list_spaced":
            # a list whose first item names two events, separated by a space
            names_ = [evname(e) for e in t["ev"]]
            args.append("event=" + repr([" ".join(names_[:2])] + names_[2:]))
        elif style == "obj":
            args.append("event=[" + ", ".join(evname(e) for e in t["ev"]) + "]")
        if t["int"]:
            args.append("internal=True")
        if t["val"]:
            args.append(f"validators={names(t['val'])}")
        conds = [nm for nm, b_ in t["cond"] if b_]
        unl = [nm for nm, b_ in t["cond"] if not b_]
        if conds:
            args.append(f"cond={names(conds)}")
        if unl:
            args.append(f"unless={names(unl)}")
        for key in ("before", "on", "after"):
            if t[key]:
                args.append(f"{key}={names(t[key])}")
        return args

    decor = sc.get("decor") if style in ("assign", "event_ctor") else None      # callbacks / an event given by decorators
    decor_cbs = (decor or {}).get("cbs", [])
    decor_ev = (decor or {}).get("event") if style == "assign" else None
    decor_evobj = (decor or {}).get("evobj") if style == "event_ctor" else None     # [event, group, name]: @ev.<group>
    if style == "event_ctor":
        decor_cbs = []

    def strip_decor(j, t):
        if not decor:
            return t
        t = dict(t, before=list(t["before"]), on=list(t["on"]), after=list(t["after"]), val=list(t["val"]), cond=list(t["cond"]))
        for j_, g, nm in decor_cbs:
            if j_ == j:
                if g in ("cond", "unless"):
                    idx = max(i for i, (n_, b_) in enumerate(t["cond"]) if list(n_) == list(nm))
                else:
                    idx = max(i for i, n_ in enumerate(t[g]) if list(n_) == list(nm))
                del t["cond" if g in ("cond", "unless") else g][idx]
        if decor_ev and t["ev"] == [decor_ev[0]]:
            idx = max(i for i, n_ in enumerate(t["on"]) if list(n_) == list(decor_ev[1]))
            del t["on"][idx]
        if decor_evobj and t["ev"] == [decor_evobj[0]]:
            e_, g, nm = decor_evobj
            if g in ("cond", "unless"):
                idx = max(i for i, (n_, b_) in enumerate(t["cond"]) if list(n_) == list(nm))
                del t["cond"][idx]
            else:
                idx = max(i for i, n_ in enumerate(t[g]) if list(n_) == list(nm))
                del t[g][idx]
        return t

    emitted = []

    def emit_decorated():
        """`@tr.before / .on / ... def f` and `@state.enter / .exit def f`: one def per name, decorators stacked"""
        if emitted:
            return
        emitted.append(1)
        by_name = {}
        for j_, g, nm in decor_cbs:
            by_name.setdefault(tuple(nm), []).append(f"tr{j_}.{'validators' if g == 'val' else g}")
        for i_, g, nm in state_decor:
            by_name.setdefault(tuple(nm), []).append(f"{S(i_)}.{g}")
        for nm, uses in by_name.items():
            for u in uses:
                body.append(f"    @{u}")
            if (0, nm[0], nm[1]) in acoros:
                body.append(f"    async def {cbname(list(nm))}(self, **kw): return await _acb(0, {nm[0]}, {nm[1]}, {nm in gn}, kw)")
            else:
                body.append(f"    def {cbname(list(nm))}(self, **kw): return _cb(0, {nm[0]}, {nm[1]}, {nm in gn}, kw)")

    def same_kw(t, u):
        return all(t[k] == u[k] for k in ("ev", "int", "val", "cond", "before", "on", "after"))

    temps = style in ("assign", "event_ctor")
    mixed = list(sc.get("mixed")) if style == "mixed" else None     # per transition: 1 = event by attribute
    heads = []
    j = 0
    trs = sc["trans"]
    while j < len(trs):
        t = trs[j]
        group = [t]
        if tstyle == "multi" and not temps:
            while j + len(group) < len(trs) and trs[j + len(group)]["s"] == t["s"] and same_kw(trs[j + len(group)], t):
                group.append(trs[j + len(group)])
        elif tstyle == "multi_from" and not temps:
            while (j + len(group) < len(trs) and trs[j + len(group)]["t"] == t["t"] and same_kw(trs[j + len(group)], t)
                   and trs[j + len(group)]["s"] not in [g["s"] for g in group]):
                group.append(trs[j + len(group)])
        kw = kwargs_of(strip_decor(j, t))
        heads.append(j)
        if mixed is not None:
            for i in range(1, len(group)):
                mixed[j + i] = mixed[j]           # one call, one way of naming its event
        if mixed is not None and not mixed[j]:
            kw = ["event=" + repr(" ".join(evname(e) for e in t["ev"]))] + kw
        if len(group) > 1 and tstyle == "multi":
            call = f"{S(t['s'])}.to({', '.join([S(g['t']) for g in group] + kw)})"
        elif len(group) > 1:
            call = f"{S(t['t'])}.from_({', '.join([S(g['s']) for g in group] + kw)})"
        elif tstyle in ("from", "multi_from") and not (t["s"] == t["t"] and sc.get("itself")):
            call = f"{S(t['t'])}.from_({', '.join([S(t['s'])] + kw)})"
        elif t["s"] == t["t"] and sc.get("itself"):
            call = f"{S(t['s'])}.to.itself({', '.join(kw)})"
        else:
            call = f"{S(t['s'])}.to({', '.join([S(t['t'])] + kw)})"
        body.append(f"    tr{j} = {call}" if (temps or (mixed is not None and mixed[j])) else f"    {call}")
        j += len(group)
    if mixed is not None:
        # the same event is attached with event= on some transitions and by class attribute on others
        for e in used_events:
            via_attr = [f"tr{j}" for j, t in enumerate(trs) if j in heads and mixed[j] and e in t["ev"]]
            if via_attr:
                body.append(f"    {evname(e)} = " + " | ".join(via_attr))
        if any(mixed):
            body.append("    del " + ", ".join(f"tr{j}" for j in range(len(trs)) if j in heads and mixed[j]))
    alias = bool(sc.get("alias_inherit")) and style == "assign" and not decor_ev and not sc.get("any_render")
    if alias:
        inherit = True
    if style == "assign":
        # event attributes in index order: `go = tr0 | tr3`, then drop the helper names
        for e in used_events:
            tl_ = " | ".join(f"tr{j}" for j, t in enumerate(trs) if e in t["ev"])
            if alias:
                # the base class declares the event under another name; the machine class gives it its name
                body.append(f"    x_{evname(e)} = {tl_}")
                continue
            if decor_ev and decor_ev[0] == e:
                # the event is declared by decorating its `on` action with the transition list
                p_, (kind_, k_) = 0, decor_ev[1]
                if (decor or {}).get("event_alias"):
                    # the decorated function has another name than the attribute the event is bound to
                    body.append(f"    def impl_{evname(e)}(self, **kw): return _cb({p_}, {kind_}, {k_}, False, kw)")
                    body.append(f"    {evname(e)} = ({tl_})(impl_{evname(e)})")
                    body.append(f"    del impl_{evname(e)}")
                else:
                    body.append(f"    @({tl_})")
                    body.append(f"    def {evname(e)}(self, **kw): return _cb({p_}, {kind_}, {k_}, False, kw)")
            elif sc.get("ior") and " | " in tl_:
                # built up with the augmented operator: `go = tr0` then `go |= tr3` (tr0 itself must stay as it is:
                # other events may name it too)
                parts_ = tl_.split(" | ")
                body.append(f"    {evname(e)} = {parts_[0]}")
                for p_ in parts_[1:]:
                    body.append(f"    {evname(e)} |= {p_}")
            else:
                body.append(f"    {evname(e)} = {tl_}")
        emit_decorated()
        body.append("    del " + ", ".join(f"tr{j}" for j in range(len(trs))))
    elif style == "event_ctor":
        imports.add("Event")
        for e in used_events:
            tl = " | ".join(f"tr{j}" for j, t in enumerate(trs) if e in t["ev"])
            body.append(f"    {evname(e)} = Event({tl}, name={evname(e)!r})")
            if decor_evobj and decor_evobj[0] == e:
                # a callback / guard attached to every transition of the event through the Event object
                _e, g, nm = decor_evobj
                body.append(f"    @{evname(e)}.{'validators' if g == 'val' else g}")
                body.append(f"    def {cbname(list(nm))}(self, **kw): return _cb(0, {nm[0]}, {nm[1]}, {tuple(nm) in gn}, kw)")
        body.append("    del " + ", ".join(f"tr{j}" for j in range(len(trs))))
    emit_decorated()          # (styles other than "assign": state decorators only)
    if sc.get("any_render"):
        # one transition from every non-final state, written as target.from_.any(...) under its own event
        a = sc["any_render"]
        kw_any = [k for k in kwargs_of(a) if not k.startswith("event=")]
        any_names = sorted(evname(e_) for e_ in a["ev"])
        line = f"    {any_names[0]} = {S(a['t'])}.from_.any({', '.join(kw_any)})"
        if sc.get("any_render2"):
            # two from_.any() parts under one event: every non-final state gets one transition of each
            a2 = sc["any_render2"]
            kw2 = [k for k in kwargs_of(a2) if not k.startswith("event=")]
            line += f" | {S(a2['t'])}.from_.any({', '.join(kw2)})"
        body.append(line)
        for e_more in any_names[1:]:
            # the same declaration under a further event name
            body.append(f"    {e_more} = {any_names[0]}")
    out[0] = "from statemachine import " + ", ".join(sorted(imports - {"States"}))
    if "States" in imports:
        pre.insert(0, "from statemachine.states import States")
    out += pre
    if bound_refs and callables_:
        out.append("class Ext:")
        out.append("    def _mine(self):")
        out.append("        if self is not EXT: raise AssertionError('callback invoked on a copy of the object it belongs to')")
    for nm in sorted(callables_):
        if bound_refs:
            if (0, nm[0], nm[1]) in acoros:
                out.append(f"    async def fn_{cbname(list(nm))}(self, **kw): self._mine(); return await _acb(0, {nm[0]}, {nm[1]}, {nm in gn}, kw)")
            else:
                out.append(f"    def fn_{cbname(list(nm))}(self, **kw): self._mine(); return _cb(0, {nm[0]}, {nm[1]}, {nm in gn}, kw)")
        elif (0, nm[0], nm[1]) in acoros:
            out.append(f"async def fn_{cbname(list(nm))}(**kw): return await _acb(0, {nm[0]}, {nm[1]}, {nm in gn}, kw)")
        else:
            out.append(f"def fn_{cbname(list(nm))}(**kw): return _cb(0, {nm[0]}, {nm[1]}, {nm in gn}, kw)")
    if bound_refs and callables_:
        out.append("EXT = Ext()")
    decor_defined = ({tuple(nm) for _j, _g, nm in decor_cbs} | ({tuple(decor_ev[1])} if decor_ev else set())
                     | ({tuple(decor_evobj[2])} if decor_evobj else set())
                     | {tuple(nm) for _i, _g, nm in state_decor} | callables_)
    methods_in_base = bool(sc.get("base_first")) and ext_ev is not None
    if inherit:
        out.append("class Base(StateMachine):")
        out += body
        if methods_in_base:      # (the base class is a complete machine of its own: it is used before M exists)
            out += methods(0, [nm for nm in sc["provs"][0] if tuple(nm) not in decor_defined])
        out.append("")
        out.append("class M(Base):")
        if ext_ev is not None:
            srcs = sorted({t["s"] for t in sc["trans"]})
            out.append(f"    {evname(ext_ev)} = " + " | ".join(f"Base.s{i}.transitions" for i in srcs)
                       + "      # one more event for every inherited transition")
        elif alias:
            for e in used_events:
                out.append(f"    {evname(e)} = Base.x_{evname(e)}      # an inherited event under a new name")
        else:
            out.append("    pass")
    else:
        out.append("class M(StateMachine):")
        out += body
    if not (inherit and methods_in_base):
        out += methods(0, [nm for nm in sc["provs"][0] if tuple(nm) not in decor_defined])
    if inst or hooks:
        out.append("    def __init__(self, *a, hooks=True, **k):")
        for name in inst:
            out.append(f"        self.{name} = None      # a per-instance attribute used as guard")
        if hooks:
            out.append("        if hooks:        # optional per-instance callbacks, assigned before the machine is set up")
        for nm in hooks:
            kind, k = nm
            if (0, kind, k) in acoros:
                out.append(f"            async def af_{cbname(nm)}(**kw): return await _acb(0, {kind}, {k}, False, kw)")
                out.append(f"            self.{cbname(nm)} = af_{cbname(nm)}")
            else:
                out.append(f"            self.{cbname(nm)} = lambda **kw: _cb(0, {kind}, {k}, False, kw)")
        out.append("        super().__init__(*a, **k)")
    if sc.get("falsy_machine"):
        out.append("    def __len__(self): return 0      # a machine that evaluates as false")
    if sc.get("eq_machine"):
        # value-style equality: all instances of the class compare (and hash) equal
        out.append("    def __eq__(self, other): return type(other) is type(self)")
        out.append("    def __hash__(self): return 7")
    out.append("")
    if sc.get("mixin"):
        # the model is a MachineMixin: it creates its machine itself (by registered class name) and gets
        # the event triggers bound as its own methods
        out.append("from statemachine.mixins import MachineMixin")
        out.append("import statemachine.registry as _reg")
        out.append("_reg._initialized = True      # no Django project in this process: skip its module autodiscovery")
        out.append("class Mdl(MachineMixin):")
        out.append("    state_machine_name = __name__ + '.M'      # fully qualified: <module>.<class>")
        out.append("    state_machine_attr = 'sm'")
        out.append("    bind_events_as_methods = True")
        out.append("    def __init__(self): self.state = None")
        out.append("    def boot(self): MachineMixin.__init__(self)")
    elif sc.get("recording_model"):
        out.append("class Mdl:")
        out.append("    def __init__(self): self._state, self.state_writes = None, 0")
        out.append("    state = property(lambda self: self._state, lambda self, v: (setattr(self, '_state', v), "
                   "setattr(self, 'state_writes', self.state_writes + 1)) and None)      # counts the writes")
    else:
        out.append("class Mdl:")
        out.append("    def __init__(self): self.state = None")
    if sc.get("falsy_model"):
        out.append("    def __bool__(self): return False      # a model that evaluates as false")
    out += methods(1, sc["provs"][1])
    inst_l = bool(sc.get("inst_listeners")) and not sc.get("eqgroups")
    if inst_l:
        out.append("")
        out.append("class LS:")
        out.append("    pass      # all listeners are objects of this one class; each carries its own callables")
    for p in range(2, len(sc["provs"])):
        out.append("")
        if inst_l:
            out.append(f"def L{p}():")
            out.append("    o = LS()")
            for nm in sc["provs"][p]:
                kind, k = nm
                isg = tuple(nm) in gn
                if kind == 0 and k >= 500:
                    out.append(f"    o.{cbname(nm)} = None")
                elif (p, kind, k) in acoros:
                    out.append(f"    async def f(**kw): return await _acb({p}, {kind}, {k}, {isg}, kw)")
                    out.append(f"    o.{cbname(nm)} = f")
                else:
                    out.append(f"    o.{cbname(nm)} = lambda **kw: _cb({p}, {kind}, {k}, {isg}, kw)")
            out.append("    return o")
            continue
        lstyle = (sc.get("lstyles") or {}).get(str(p)) if not sc.get("eqgroups") else None
        if lstyle == "classobj":
            # the listener is a class object: its callbacks are class methods, half of them inherited
            out.append(f"class L{p}Base:")
            out.append("    pass")
            half = [nm for i_, nm in enumerate(sc["provs"][p]) if i_ % 2 == 0]
            for nm in sc["provs"][p]:
                kind, k = nm
                isg = tuple(nm) in gn
                tgt = out
                if kind == 0 and k >= 500:
                    tgt.append(f"    {cbname(nm)} = None")
                    continue
                if nm not in half:
                    continue
                tgt.append("    @classmethod")
                tgt.append(f"    def {cbname(nm)}(cls, **kw): return _cb({p}, {kind}, {k}, {isg}, kw)")
            out.append(f"class L{p}_(L{p}Base):")
            out.append("    pass")
            for nm in sc["provs"][p]:
                kind, k = nm
                isg = tuple(nm) in gn
                if (kind == 0 and k >= 500) or nm in half:
                    continue
                out.append("    @staticmethod")
                out.append(f"    def {cbname(nm)}(**kw): return _cb({p}, {kind}, {k}, {isg}, kw)")
            out.append(f"def L{p}(): return L{p}_         # the class itself is attached")
            continue
        if lstyle == "proxy":
            # the listener shows the callbacks of a hidden object only through __dir__ and __getattr__
            out.append(f"class L{p}Impl:")
            out.append("    pass")
            out += methods(p, sc["provs"][p])
            out.append(f"class L{p}:")
            out.append(f"    def __init__(self): object.__setattr__(self, '_t', L{p}Impl())")
            out.append("    def __dir__(self): return dir(self._t)")
            out.append("    def __getattr__(self, name): return getattr(self._t, name)")
            out.append("    def __setattr__(self, name, value): setattr(self._t, name, value)")
            continue
        out.append(f"class L{p}:")
        grp = (sc.get("eqgroups") or {}).get(str(p))
        if grp is None:
            out.append("    pass")
        else:       # value-object listeners: distinct objects that compare (and hash) equal
            out.append(f"    _grp = {grp}")
            out.append("    def __eq__(self, other): return getattr(other, '_grp', None) == self._grp")
            out.append("    def __hash__(self): return hash(self._grp)" if grp != 2 else
                       "    __hash__ = None      # (like a dataclass with eq=True that is not frozen)")
        if p in (sc.get("falsy_listeners") or []):
            out.append("    def __len__(self): return 0      # a listener object that evaluates as false")
        out += methods(p, sc["provs"][p])
    if sc.get("sig_attr"):
        # every callback function carries an explicit __signature__ (as signature-preserving decorators and
        # mock spies leave behind)
        out.append("")
        out.append("import inspect as _inspect")
        out.append("for _cls in [M, Mdl] + [v for k, v in list(globals().items()) if k.startswith('L') and isinstance(v, type)]:")
        out.append("    for _n, _f in list(vars(_cls).items()):")
        out.append("        if _inspect.isfunction(_f) and not _n.startswith('__'):")
        out.append("            _f.__signature__ = _inspect.signature(_f)")
    # H: twins of the model / listener classes whose callbacks are all plain functions (or all coroutine
    # functions): a decoy instance of M over them is created first
    twin = sc.get("twin_decoy")
    if twin:
        def tmethods(p, attrs):
            ls = []
            for nm in attrs:
                kind, k = nm
                if kind == 0 and k >= 500:
                    ls.append(f"    {cbname(nm)} = None")
                elif twin == "coro":
                    ls.append(f"    async def {cbname(nm)}(self, **kw): return await _acb({p}, {kind}, {k}, {tuple(nm) in gn}, kw)")
                else:
                    ls.append(f"    def {cbname(nm)}(self, **kw): return _cb({p}, {kind}, {k}, {tuple(nm) in gn}, kw)")
            return ls or ["    pass"]
        out.append("")
        out.append("class MdlTwin:")
        out.append("    def __init__(self): self.state = None")
        out += tmethods(1, sc["provs"][1])
        for p in range(2, len(sc["provs"])):
            out.append(f"class L{p}Twin:")
            out += tmethods(p, sc["provs"][p])
        out.append("TWINS = [" + ", ".join(f"L{p}Twin" for p in range(2, len(sc["provs"])) if p not in set(sc.get("late", []))) + "]")
    out.append("")
    late = set(sc.get("late", []))
    out.append(f"LISTENERS = [{', '.join(f'L{p}()' for p in range(2, len(sc['provs'])) if p not in late)}]")
    out.append("LATE = {" + ", ".join(f"{p}: L{p}()" for p in sorted(late)) + "}    # attached later with add_listener")
    kw = []
    # over a stored state the start_value is never looked at: half of the machines that resume a stored state (and
    # have no start_value of their own) are given one that is no state value at all
    bad_start = (sc.get("field0") is not None and sc.get("start") is None and len(sc["trans"]) % 2 == 0
                 and not any(op[0] in ("construct", "activate") for op in sc["ops"][1:]))
    if sc.get("start") is not None:
        kw.append(f"start_value={state_value(sc, sc['start'])!r}")
    elif bad_start:
        kw.append("start_value='no such state'")
    # (a third of the rtc=False machines get the option as another falsy value)
    rtc_false = "0" if (len(sc["trans"]) + sc["n"]) % 3 == 0 else "False"
    if not sc.get("rtc", True):
        kw.append(f"rtc={rtc_false}")
    if sc.get("allow"):
        kw.append("allow_event_without_transition=True")
    out.append("def construct(model, listeners):")
    if sc.get("mixin"):
        out.append("    model.boot()")
        out.append("    return model.sm")
    elif sc.get("positional_ctor") and not hooks and not inst:
        # every option given positionally, in the documented order
        sv_ = repr(state_value(sc, sc["start"])) if sc.get("start") is not None else ("'no such state'" if bad_start else "None")
        out.append(f"    return M(model, 'state', {sv_}, {True if sc.get('rtc', True) else rtc_false}, {bool(sc.get('allow'))}, listeners)")
    else:
        out.append(f"    return M(model{''.join(', ' + k for k in kw)}, listeners=listeners)")
    return "\n".join(out) + "\n"


def _rank_depths(entries):
    ds = sorted({e[11] for e in entries if e[0] == "c" and e[11] > 0})
    rk = {d: i + 1 for i, d in enumerate(ds)}
    for e in entries:
        if e[0] == "c" and e[11] > 0:
            e[11] = rk[e[11]]


def _clear_signature_cache():
    """Every scenario defines classes with the same names; the library's process-wide signature
    cache is keyed by qualified name (cross-class collisions are C16/C07's subject, D7), so each
    scenario starts from an empty cache."""
    try:
        from statemachine.signature import SignatureAdapter
        fc = SignatureAdapter.from_callable
        getattr(fc, "__func__", fc).clear_cache()
    except Exception:  # noqa: BLE001 - the cache is an implementation detail; absence is fine
        pass


class _Other:
    """an unrelated object the machine's triggers get bound onto (bind_events_to)"""


def call_style(sm, style, name, tag, ns):
    """the same event through the other documented entry points"""
    if style == "attr":                       # sm.go(...)
        return getattr(sm, name)(tag=tag)
    if style == "strenum":                    # send() with a member of a str-based Enum whose value is the event name
        import enum
        Ev = enum.Enum("Ev", {"member": str(name)}, type=str)
        return sm.send(Ev.member, tag=tag)
    if style == "events":                     # the matching item of sm.events
        for ev in sm.events:
            if str(ev) == name:
                return ev(tag=tag)
        return sm.send(name, tag=tag)
    if style == "allowed":                    # the matching item of sm.allowed_events, when listed
        try:
            items = list(sm.allowed_events)
        except Exception:  # noqa: BLE001 - no current state yet (async machine before activation)
            items = []
        for ev in items:
            if str(ev) == name:
                return ev(tag=tag)
        return sm.send(name, tag=tag)
    if style == "bound":                      # a trigger bound onto another object
        other = _Other()
        sm.bind_events_to(other)
        if hasattr(other, name):
            return getattr(other, name)(tag=tag)
        return sm.send(name, tag=tag)
    if style == "bound3":                     # several targets in one call; the first one already has an attribute of that name
        first, second = _Other(), _Other()
        setattr(first, name, "taken")
        with warnings.catch_warnings():
            warnings.simplefilter("ignore")     # (the clash on `first` is reported by a warning and skipped)
            sm.bind_events_to(first, second)
        if hasattr(second, name) or str(name) in [str(e) for e in sm.events]:
            return getattr(second, name)(tag=tag)
        return sm.send(name, tag=tag)
    if style == "bound2":                     # ... onto an object that another machine binds its triggers onto afterwards
        other = _Other()
        sm.bind_events_to(other)
        with warnings.catch_warnings():
            warnings.simplefilter("ignore")     # (the second binding warns about the names already taken and skips them)
            mdl = ns["Mdl"]()
            RUN.tags[id(mdl)] = 99
            try:
                second = ns["construct"](mdl, [type(x)() for x in ns["LISTENERS"]])
                second.bind_events_to(other)
            except Exception:  # noqa: BLE001 - the other instance's own failures are not this machine's business
                pass
        if hasattr(other, name):
            return getattr(other, name)(tag=tag)
        return sm.send(name, tag=tag)
    if style == "foreign":                    # a trigger bound to ANOTHER instance: for this one it is just the name
        with warnings.catch_warnings():
            warnings.simplefilter("ignore")
            mdl = ns["Mdl"]()
            RUN.tags[id(mdl)] = 99
            try:
                other = ns["construct"](mdl, [type(x)() for x in ns["LISTENERS"]])
            except Exception:  # noqa: BLE001 - the other instance's own failures are not this machine's business
                other = None
        trig = getattr(other, name, None)
        if trig is None:
            return sm.send(name, tag=tag)
        r = sm.send(trig, tag=tag)
        return r
    if style == "mixin":                      # the trigger MachineMixin bound onto the model
        if hasattr(sm.model, name):
            return getattr(sm.model, name)(tag=tag)
        return sm.send(name, tag=tag)
    raise ValueError(style)


def make_host_wrap():
    """every operation of the scenario's machine is performed from inside a running `on` callback of an
    unrelated machine (whose own processing loop is therefore active around it)"""
    from statemachine import State, StateMachine
    box = {}

    def wrap(ns, thunk):
        if "host" not in box:
            class Host(StateMachine):
                idle = State(initial=True)
                busy = State()
                work = idle.to(busy) | busy.to(idle)

                def on_work(self, thunk):
                    return thunk()

                def on_enter_busy(self):
                    return None
            box["host"] = Host()
        return box["host"].send("work", thunk=thunk)       # the on-callback's value is the event's result
    return wrap


class _Workers:
    """a few OS threads without event loops, taking operations in turn; on close each one closes the
    loop the library cached for it (statemachine.utils._cached_loop is thread-local)"""

    def __init__(self, n):
        import queue
        import threading
        self.qs = [queue.Queue() for _ in range(n)]
        self.ths = [threading.Thread(target=self._loop, args=(q,), daemon=True) for q in self.qs]
        for t in self.ths:
            t.start()

    @staticmethod
    def _loop(q):
        while True:
            job, box, done = q.get()
            if job is None:
                try:
                    from statemachine import utils
                    lp = getattr(utils._cached_loop, "loop", None)
                    if lp is not None:
                        lp.close()
                except Exception:  # noqa: BLE001
                    pass
                done.set()
                return
            try:
                box["r"] = job()
            except (Exception, UserBase) as e:  # noqa: BLE001
                box["e"] = e
            done.set()

    def call(self, i, job):
        import threading
        box, done = {}, threading.Event()
        self.qs[i].put((job, box, done))
        done.wait()
        if "e" in box:
            raise box["e"]
        return box["r"]

    def close(self):
        import threading
        for q in self.qs:
            done = threading.Event()
            q.put((None, None, done))
            done.wait(5)


def _finish_sync(coro):
    """run a coroutine that never really suspends (plain driver: the library resolves everything)"""
    try:
        coro.send(None)
    except StopIteration as stop:
        return stop.value
    raise RuntimeError("plain driver suspended")


def run_impl(sc):
    """Execute the scenario on the real library; returns the list of observations (one per op).

    sc["driver"]: "plain" (default) synchronous calls with no event loop; "loop" the whole history is
    awaited inside asyncio.run; "threads" each operation runs in its own OS thread (no loops)."""
    global RUN
    import gc
    import threading
    RUN = R = Run(sc)
    ns = {"__name__": "scn_main"}          # the scenario's classes live in a module of their own
    _clear_signature_cache()
    driver = sc.get("driver", "plain")
    wrap_ = WRAP
    if wrap_ is None and sc.get("hosted") and driver == "plain" and not sc.get("async"):
        wrap_ = make_host_wrap()
    with warnings.catch_warnings(record=True) as wlist:
        warnings.simplefilter("always")

        async def history():
            # (late_allow: the machine is constructed with the opposite of allow_event_without_transition and the
            # public attribute is set to the scenario's value right afterwards)
            src_ = render_source(dict(sc, allow=not sc.get("allow")) if sc.get("late_allow") else sc)
            if (sc.get("base_first") and sc.get("extend_event") is not None and not sc.get("sig_attr")
                    and not sc.get("twin_decoy") and "class M(Base):" in src_
                    and "\nclass Mdl" in src_):
                # the base class is USED (an instance is sent the name of the event the subclass will add, and is
                # refused) before the subclass that adds that event over the inherited transitions is defined
                head, rest = src_.split("class M(Base):", 1)
                mbody, tail = rest.split("\nclass Mdl", 1)
                exec(compile(head, "<scenario>", "exec"), ns)  # noqa: S102
                exec(compile("class Mdl" + tail, "<scenario>", "exec"), ns)  # noqa: S102
                with warnings.catch_warnings():
                    warnings.simplefilter("ignore")
                    try:
                        mdl0 = ns["Mdl"]()
                        R.tags[id(mdl0)] = 99
                        b0 = ns["Base"](mdl0, listeners=[type(x)() for x in ns["LISTENERS"]])
                        try:
                            r0 = b0.send(evname(sc["extend_event"]))
                            if asyncio.iscoroutine(r0):
                                r0.close()
                        except Exception:  # noqa: BLE001 - refused: the base class does not know the event
                            pass
                    except Exception:  # noqa: BLE001 - the base instance's own failures are not the scenario's business
                        pass
                R.log = []
                exec(compile("class M(Base):" + mbody, "<scenario>", "exec"), ns)  # noqa: S102
            else:
                exec(compile(src_, "<scenario>", "exec"), ns)  # noqa: S102
            R.cls = ns["M"]
            box = {"sm": None, "model": ns["Mdl"](), "listeners": ns["LISTENERS"]}
            if sc.get("field0") is not None:
                box["model"].state = state_value(sc, sc["field0"])
            obs = []

            def assign_attrs():
                """plain-attribute providers: give every attribute its value (after attachment)"""
                late_ = sorted(sc.get("late", []))
                cons = [p for p in range(2, len(sc["provs"])) if p not in late_]
                objs = {0: box["sm"], 1: box["model"]}
                objs.update({p: o for p, o in zip(cons, box["listeners"])})
                objs.update(ns["LATE"])
                for p, kind, k, _scripts, dflt in sc["tbl"]:
                    if sc.get("prop_guards"):
                        break
                    if kind == 0 and k >= 500 and objs.get(p) is not None:
                        setattr(objs[p], cbname([kind, k]), from_json(dflt["r"]))

            def step(op):
                sm = box["sm"]
                if op[0] == "construct":
                    box["sm"] = None
                    box["sm"] = ns["construct"](box["model"], box["listeners"])
                    if sc.get("late_allow"):
                        box["sm"].allow_event_without_transition = bool(sc.get("allow"))
                    assign_attrs()
                    return None
                if op[0] == "send":
                    return sm.send(evname(op[1]), tag=op[2])
                if op[0] == "call":
                    return call_style(sm, op[1], evname(op[2]), op[3], ns)
                if op[0] == "activate":
                    return sm.activate_initial_state()
                if op[0] == "write":
                    sm.current_state_value = state_value(sc, op[1])
                    return None
                if op[0] == "add":
                    sm.add_listener(*[ns["LATE"][p] for p in op[1]])
                    assign_attrs()
                    return None
                if op[0] == "clone":
                    # the history goes on with a deep copy of the machine (and of its model and listeners)
                    import copy
                    c = copy.deepcopy(sm)
                    box["sm"], box["model"] = c, c.model
                    return None
                raise ValueError(op)

            decoys = []

            def make_decoys(k):
                """other instances of the same class, over their own models, with their own start_value:
                constructed (and left alone) before operation k; nothing of theirs is logged"""
                for when, start in sc.get("decoys", []):
                    if when != k:
                        continue
                    mdl = ns["Mdl"]()
                    R.tags[id(mdl)] = 99
                    try:
                        with warnings.catch_warnings():
                            warnings.simplefilter("ignore")
                            kw = {} if start is None else {"start_value": state_value(sc, start)}
                            if sc.get("inst_hooks"):
                                kw["hooks"] = False        # this instance has none of the optional callbacks
                            if sc.get("twin_decoy"):
                                # ... and its model and listeners are of the twin classes (other kind of functions)
                                mdl = ns["MdlTwin"]()
                                R.tags[id(mdl)] = 99
                                kw["listeners"] = [c() for c in ns["TWINS"]]
                            d = ns["M"](mdl, **kw)
                            decoys.append((mdl, d))
                            if not sc.get("async") and driver != "loop":
                                d.activate_initial_state()
                    except Exception:  # noqa: BLE001 - the decoy's own failures are not the scenario's business
                        decoys.append((mdl, None))

            if BETWEEN is not None:
                BETWEEN(ns, 0)                    # unrelated activity before the first operation (C16)
            for k_op, op in enumerate(sc["ops"]):
                R.log = []
                make_decoys(k_op)
                R.log = []
                w0 = getattr(box["model"], "state_writes", 0)
                had_state = getattr(box["model"], "state", None) is not None
                R.in_send = op[0] in ("send", "call")       # (property guards answer only while an event is processed)
                try:
                    if driver == "threads":
                        r = workers.call(len(obs) % 3, lambda op=op: step(op))
                    else:
                        r = step(op) if wrap_ is None else wrap_(ns, lambda op=op: step(op))
                        if driver == "loop" and (asyncio.iscoroutine(r) or isinstance(r, asyncio.Future)):
                            r = await r
                    out = ["v", to_json(r)]
                except (Exception, UserBase) as e:  # noqa: BLE001
                    out = ["x", exn_json(e)]
                R.in_send = False
                sm = box["sm"]
                fv = getattr(box["model"], "state", None)
                fst = R.cls.states_map.get(fv) if fv is not None else None
                field = None if fv is None else (sidx(fst) if fst is not None else 900)
                if (op[0] == "construct" and had_state and field is not None
                        and getattr(box["model"], "state_writes", 0) > w0):
                    field = 903          # a state that was already stored has been written again
                allowed = None
                if sm is not None:
                    try:
                        allowed = [evidx(e) for e in sm.allowed_events]
                    except Exception:  # noqa: BLE001
                        allowed = None
                elif field is not None and field != 900:
                    # construction failed: there is no machine to ask; fall back to the class
                    seen = []
                    for t in fst.transitions:
                        for e in t.events:
                            if evidx(e) not in seen:
                                seen.append(evidx(e))
                    allowed = seen
                _rank_depths(R.log)
                obs.append({"out": out, "field": field, "allowed": allowed, "log": R.log})
                if op[0] == "construct" and out[0] == "x":
                    break
                if BETWEEN is not None:
                    R.log = []
                    BETWEEN(ns, len(obs))         # unrelated activity between two operations (C16)
            return obs

        workers = _Workers(3) if driver == "threads" else None
        try:
            if driver == "loop":
                obs = asyncio.run(history())
            else:
                obs = _finish_sync(history())
        finally:
            if workers:
                workers.close()
        # (un-awaited coroutines are reported when their last reference goes away: no gc pass needed)
    never = [str(w.message) for w in wlist if "never awaited" in str(w.message)]
    if obs:
        obs[0]["never_awaited"] = len(never)
        obs[0]["overlap"] = R.overlap
    RUN = None
    return obs


# ------------------------------------------------------------------ Coq literals
def b(x):
    return "true" if x else "false"


def cq_val(v):
    if v is None:
        return "VNone"
    if isinstance(v, bool):
        return f"(VBool {b(v)})"
    if isinstance(v, int):
        return f"(VInt ({v})%Z)"
    if "x" in v:
        return f"(VOpaque {700 + v['x']} true)"
    if "s" in v:
        return f"(VStr {v['s']})"
    if "l" in v:
        return "(VList [" + "; ".join(cq_val(x) for x in v["l"]) + "])"
    if "t" in v:
        return "(VTuple [" + "; ".join(cq_val(x) for x in v["t"]) + "])"
    return f"(VOpaque {v['o']} {b(v['b'])})"


def cq_nm(nm):
    return f"nm {nm[0]} {nm[1]}"


def cq_names(l):
    return "[" + "; ".join(cq_nm(x) for x in l) + "]"


def cq_opt(x):
    return "None" if x is None else f"(Some {x})"


def cq_script(s):
    acts = []
    for a in s["a"]:
        if a[0] == "send":
            acts.append(f"ASend {a[1]} {a[2]}")
        elif a[0] == "raise":
            acts.append(f"ARaise {a[1]}")
        elif a[0] == "write":
            acts.append(f"AWrite {a[1]}")
    return f"sc [{'; '.join(acts)}] {cq_val(s['r'])}"


def cq_exn(x):
    k = x[0]
    if k == "u":
        return f"(XUser {x[1]})"
    if k == "na":
        return f"(XNotAllowed {x[1] if x[1] is not None else 901} {x[2] if x[2] is not None else 901})"
    if k == "ns":
        return "XNoState"
    if k == "ix":
        return "XIndex"
    if k == "idef":
        return "XInvalidDef"
    return "(XUser 999)"


def total_sends(sc):
    n = 0
    for _p, _kind, _k, scripts, dflt in sc["tbl"]:
        assert not dflt["a"], "default scripts must be pure"
        for s in scripts:
            n += sum(1 for a in s["a"] if a[0] == "send")
    return n


def cq_scenario(sc):
    ss = "; ".join(f"mkS {cq_names(st['enter'])} {cq_names(st['exit'])}" for st in sc["states"])
    ts = []
    for t in sc["trans"]:
        conds = "[" + "; ".join(f"({cq_nm(nm)}, {b(v)})" for nm, v in t["cond"]) + "]"
        ts.append(f"mkT {t['s']} {t['t']} [{'; '.join(map(str, t['ev']))}] {b(t['int'])} "
                  f"{cq_names(t['val'])} {conds} {cq_names(t['before'])} {cq_names(t['on'])} "
                  f"{cq_names(t['after'])}")
    ps = "; ".join(cq_names(p) for p in sc["provs"])
    start = sc["start"] if sc.get("start") is not None else sc["initial"]
    late_ = set(sc.get("late", []))
    rounds = "[[" + "; ".join(str(i) for i in range(len(sc["provs"])) if i not in late_) + "]]"
    coro = "[" + "; ".join(f"cb {p} {kind} {k}" for p, kind, k in sc.get("async", [])) + "]"
    md = (f"(mkM [{ss}] [{'; '.join(ts)}] {start} {b(sc.get('rtc', True))} {b(sc.get('allow'))} "
          f"[{ps}] {coro} {rounds})")
    tbl = []
    for p, kind, k, scripts, dflt in sc["tbl"]:
        tbl.append(f"(cb {p} {kind} {k}, ([{'; '.join(cq_script(s) for s in scripts)}], {cq_script(dflt)}))")
    ops = []
    for op in sc["ops"]:
        ops.append({"send": lambda o: f"OSend {o[1]} {o[2]}", "activate": lambda o: "OActivate",
                    "call": lambda o: f"OSend {o[2]} {o[3]}",
                    "add": lambda o: "OAdd [" + "; ".join(map(str, o[1])) + "]",
                    "clone": lambda o: "OClone",
                    "construct": lambda o: "OConstruct", "write": lambda o: f"OWrite {o[1]}"}[op[0]](op))
    fuel = 6 + total_sends(sc) + len(sc["ops"])
    return (f"(mkSc {md} [{'; '.join(tbl)}] {cq_opt(sc.get('field0'))} [{'; '.join(ops)}] {fuel})")


def cq_obs(o):
    out = f"(IVal {cq_val(o['out'][1])})" if o["out"][0] == "v" else f"(IExn {cq_exn(o['out'][1])})"
    al = "None" if o["allowed"] is None else "(Some [" + "; ".join(str(x if x is not None else 901) for x in o["allowed"]) + "])"
    es = []
    for e in o["log"]:
        if e[0] == "c":
            _, p, kind, k, isg, ev, src, tgt, st, csv, tag, dep = e
            es.append(f"IC {p} {kind} {k} {b(isg)} {cq_opt(ev)} {cq_opt(src)} {cq_opt(tgt)} {cq_opt(st)} "
                      f"{cq_opt(csv)} {tag} {dep}")
        elif e[1] == "v":
            es.append(f"IN (INReturned {cq_val(e[2])})")
        else:
            es.append(f"IN (INRaised {cq_exn(e[2])})")
    return f"mkO {out} {cq_opt(o['field'])} {al} [{'; '.join(es)}]"


DRIVER_ERR = [{"out": ["x", ["other", "driver error"]], "field": None, "allowed": None, "log": []}]


def coq_case(sc, obs):
    return f"({cq_scenario(sc)}, [{'; '.join(cq_obs(o) for o in obs)}])"
