"""C13 - send(), event methods and bound events are one and the same entry point.

(1) engine-family scenarios whose sends are made through a random mix of calling styles (send by
name, event attribute, item of sm.events, item of sm.allowed_events, trigger bound onto another
object): results, exceptions, stored state, allowed_events and callbacks must equal the model, in
which every style is the same operation.  (2) for generated machines, every attribute name of the
machine that is not a declared event (methods, properties, dunders, state ids, ...) and random
strings are passed to send(): it must behave as an unknown event and touch nothing else.
"""
import warnings

from . import eng, enggen, engfam

PROP = "C13"
RUN_MODULE = "Run.EngineRun"
VERDICT_FN = "verdict_C13_any"
CHUNK = 100
def render_source(sc):
    if sc.get("probe") == "kept_alive":
        return "# probe: " + " ".join(kept_alive_probe.__doc__.split()) + "\n"
    if sc.get("probe") == "copy_attach":
        return f"# probe: a machine and its copy.{sc['first']}; a listener attached to the {sc['side']} only; events fired via {sc.get('via')}\n"
    return eng.render_source(sc)


DRIVER_ERR = eng.DRIVER_ERR
K = dict(cbs=0.3, conv=0.15, sends=0.05, guards=0.3, multi_event=0.5, multi_cand=0.5, allow=0.4, unknown_ev=0.2,
         p_async=0.2, ops=(3, 14), rtc_false=0.15)
STYLES = ["attr", "events", "allowed", "bound", "bound2", "bound3", "foreign", "strenum"]


def attr_probe(sc):
    """send(<every non-event attribute name>) on a fresh instance each: unknown event, no side effect"""
    from statemachine.exceptions import TransitionNotAllowed
    eng.RUN = R = eng.Run(sc)
    ns = {}
    bad = []
    with warnings.catch_warnings():
        warnings.simplefilter("ignore")
        eng._clear_signature_cache()
        exec(compile(eng.render_source(sc), "<c13>", "exec"), ns)  # noqa: S102
        R.cls = ns["M"]
        declared = {str(e) for e in ns["M"]._events}
        # attributes that are neither methods nor events: properties (one counts its evaluations, one
        # raises) and, below, the triggers of another machine bound onto this one with bind_events_to
        reads = []

        def zz_usage(self):
            reads.append(1)
            return len(reads)

        def zz_broken(self):
            reads.append(1)
            raise RuntimeError("evaluated by send()")
        ns["M"] = type(ns["M"])("M", (ns["M"],), {"zz_usage": property(zz_usage), "zz_broken": property(zz_broken)})
        from statemachine import State, StateMachine

        class Bell(StateMachine):
            silent = State(initial=True)
            ringing = State()
            zz_ring = silent.to(ringing)
            zz_mute = ringing.to(silent) | silent.to(silent)
        try:
            probe = ns["construct"](ns["Mdl"](), ns["LISTENERS"])
        except Exception:  # noqa: BLE001 - e.g. rtc=False with coroutine callbacks: nothing to probe
            eng.RUN = None
            return {"probe": True, "names": 0, "bad": []}
        names = [n for n in dir(probe) if n not in declared] + ["zz_ring", "zz_mute", "zz_unknown", "", "add listener", "Go", "go ", "__nope__"]
        for name in names:
            model = ns["Mdl"]()
            sm = ns["construct"](model, ns["LISTENERS"])
            if sc.get("async"):
                try:
                    sm.activate_initial_state()
                except Exception:  # noqa: BLE001
                    continue
            bell = Bell()
            bell.bind_events_to(sm)
            del reads[:]
            before = (model.state, len(sm._listeners), sm.allow_event_without_transition, type(sm.model).__name__,
                      bell.current_state.id, 0)
            R.log = []
            try:
                r = sm.send(name)
                ok = sc.get("allow") and r is None
                what = f"returned {r!r}"
            except TransitionNotAllowed as e:
                ok = (not sc.get("allow")) and str(e.event) == name
                what = "TransitionNotAllowed"
            except Exception as e:  # noqa: BLE001
                ok, what = False, f"{type(e).__name__}: {e}"
            after = (model.state, len(sm._listeners), sm.allow_event_without_transition, type(sm.model).__name__,
                     bell.current_state.id, len(reads))
            if not ok or before != after or R.log:
                bad.append([name, what, before != after, len(R.log)])
    eng.RUN = None
    return {"probe": True, "names": len(names), "bad": bad[:10]}


def event_named_like_state(sc, rng):
    """one declared event is called like a state (`s3`) that is written later in the class body than the states
    its transitions leave: it is an event like any other"""
    if sc.get("evstyle") not in ("str", "list") or sc.get("any_group") or sc.get("extend_event") is not None:
        return sc
    evs = sorted({e for t in sc["trans"] for e in t["ev"]})
    rng.shuffle(evs)
    for e0 in evs:
        last_src = max(t["s"] for t in sc["trans"] if e0 in t["ev"])
        ks = [k for k in range(max(2, last_src + 1), min(sc["n"], 5))]
        if not ks:
            continue
        new = 810 + rng.choice(ks)

        def rn(e):
            return new if e == e0 else e
        for t in sc["trans"]:
            t["ev"] = [rn(e) for e in t["ev"]]
        sc["ops"] = [([op[0], rn(op[1])] + op[2:]) if op[0] == "send" else op for op in sc["ops"]]
        drop = {(4, e0), (5, e0), (6, e0)}
        sc["provs"] = [[nm for nm in prov if tuple(nm) not in drop] for prov in sc["provs"]]
        sc["tbl"] = [row for row in sc["tbl"] if (row[1], row[2]) not in drop]
        sc["async"] = [x for x in sc.get("async", []) if (x[1], x[2]) not in drop]
        sc["wrapped_coros"] = [x for x in sc.get("wrapped_coros", []) if (x[1], x[2]) not in drop]
        for row in sc["tbl"]:
            for scr in row[3]:
                scr["a"] = [([a_[0], rn(a_[1])] + a_[2:]) if a_[0] == "send" else a_ for a_ in scr["a"]]
        break
    return sc


def kept_alive_probe(sc):
    """the triggers bound onto an object are the machine's entry points: they work as long as the object lives,
    also when nothing else refers to the machine any more (garbage collection in between)"""
    import gc
    from statemachine import State, StateMachine
    seen = []

    class Flow(StateMachine):
        new = State(initial=True)
        paid = State()
        pay = new.to(paid)
        refund = paid.to(new)

        def on_pay(self, amount=0):
            seen.append(("pay", amount))
            return amount

    class Order:
        def __init__(self):
            self.state = None
    bad = []
    with warnings.catch_warnings():
        warnings.simplefilter("ignore")
        order = Order()
        Flow(order).bind_events_to(order)        # no other reference to the machine is kept
        for _ in range(3):
            gc.collect()
        try:
            r = order.pay(amount=7)
            if r != 7 or order.state != "paid" or seen != [("pay", 7)]:
                bad.append(f"order.pay(amount=7) -> {r!r}, state {order.state!r}, callbacks {seen}")
            order.refund()
            if order.state != "new":
                bad.append("second bound trigger: state " + repr(order.state))
        except Exception as e:  # noqa: BLE001
            bad.append(repr(e))
    return {"probe": "kept_alive", "bad": bad}


def run_impl(sc):
    if sc.get("probe") == "kept_alive":
        return kept_alive_probe(sc)
    if sc.get("probe") == "copy_attach":
        from . import c12
        return c12.copy_attach_probe(sc)
    if sc.get("probe"):
        return attr_probe(sc)
    return eng.run_impl(sc)


def coq_case(sc, obs):
    if sc.get("probe"):
        return f"(asserted {0 if obs['bad'] else 1})"
    return "(wfc " + eng.coq_case(sc, obs) + ")"


def generate(rng, tier):
    n = 1800 if tier == "quick" else 30000
    scs = []
    for _ in range(n):
        sc = enggen.gen_scenario(rng, K)
        if rng.random() < 0.2:
            event_named_like_state(sc, rng)
        ops = []
        declared = {e for t in sc["trans"] for e in t["ev"]}
        for op in sc["ops"]:
            if op[0] == "send" and rng.random() < 0.7 and op[1] in declared:
                ops.append(["call", rng.choice(STYLES), op[1], op[2]])
            else:
                ops.append(op)
        sc["ops"] = ops
        scs.append(sc)
    nmix = 250 if tier == "quick" else 4000
    for _ in range(nmix):
        # MachineMixin: the model creates its machine (default options, no listeners) and the events are
        # the model's own methods
        sc = enggen.gen_scenario(rng, dict(K, listeners=(0, 0), rtc_false=0.0, allow=0.0, start=0.0, p_construct=0.0,
                                           falsy_machine=0.0, p_async=0.0, styles=("str", "list", "assign")))
        sc["mixin"] = True
        sc["allow"], sc["rtc"], sc["start"] = False, True, None
        declared = {e for t in sc["trans"] for e in t["ev"]}
        sc["ops"] = [(["call", rng.choice(["mixin", "mixin", "attr", "bound"]), op[1], op[2]]
                      if (op[0] == "send" and op[1] in declared and rng.random() < 0.8) else op) for op in sc["ops"]]
        scs.append(sc)
    parts = [("seeded random machines x histories whose events go through a random mix of the calling styles "
              "send / event attribute / sm.events item / sm.allowed_events item / trigger bound onto another object", n),
             ("machines created by a MachineMixin model, events called as the model's own methods", nmix)]
    npr = 40 if tier == "quick" else 400
    pr = []
    for _ in range(npr):
        sc = enggen.gen_scenario(rng, dict(K, sends=0.0, p_async=0.1))
        sc["probe"] = True
        pr.append(sc)
    for k in range(16):
        pr.append({"probe": "copy_attach", "seed": rng.randrange(10 ** 6), "first": ["copy", "deepcopy"][k % 2],
                   "side": ["copy", "original"][(k // 2) % 2], "via": ["send", "attr", "events", "allowed"][(k // 4) % 4]})
    pr.append({"probe": "kept_alive"})
    scs += pr
    parts.append(("every entry point of a shallow / deep copy drives the copy (a listener attached to one of the two only)", 16))
    parts.append(("attribute probe: for each generated machine, every name in dir(sm) that is not a declared event "
                  "(~150 names: methods, properties, dunders, state ids) plus odd strings is passed to send() on a "
                  "fresh instance", npr))
    return scs, parts


def nontrivial(sc, obs):
    """Non-trivial: the history uses >= 2 different calling styles, or it is an attribute probe that
    tried >= 100 names."""
    if sc.get("probe") in ("copy_attach", "kept_alive"):
        return False
    if sc.get("probe"):
        return obs.get("names", 0) >= 100
    return len({op[1] for op in sc["ops"] if op[0] == "call"}) >= 2


def extra_coverage(scs, obs, verdicts):
    return {"attribute_names_probed": sum(o.get("names", 0) for o in obs if isinstance(o, dict) and o.get("probe")),
            "out_of_scope": sum(1 for v in verdicts if v == 9)}


def d4(sc, v):
    return sc.get("probe") is True


CLASSIFIERS = {"C13.send_resolves_any_attribute": d4}


def explain(sc, obs):
    if sc.get("probe"):
        return obs
    return engfam.explain_for("C13")(sc, obs)
