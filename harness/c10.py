"""C10 - the current state is exactly what the user's model stores.

Scenario: state values of every kind (str, "", int incl. 0 / negative, tuple, default = the id),
a model shape (none given, plain attribute, property-backed, class-level default, falsy object,
object with __len__ == 0), a state_field name, an optional start_value, an optional value already
stored, and a history mixing events, validated writes (valid / invalid) and external writes.
After every operation: the model's field, current_state, every is_active, `sm.model is model`.
"""
import warnings

PROP = "C10"
RUN_MODULE = "Run.C10Run"
CHUNK = 400

import enum


class C10E(enum.Enum):
    """enum members used as state values (plain Enum: a member equals only itself)"""
    E1 = 1
    E2 = 2
    E3 = 3
    E9 = 9


VALUE_POOL = [0, 1, 2, -1, 7, {"s": 0}, {"s": 1}, {"s": 2}, {"t": [1]}, {"t": []}, {"t": [0, {"s": 1}]}, None,
              {"e": 1}, {"e": 2}, {"e": 3}]
INVALID = [99, {"s": 9}, {"t": [9]}, -5, False, {"e": 9}, {"t": [9, 9]}, {"t": [9, 8, 7]}, {"t": [{"s": 9}, 1]}, {"t": [9, 9]}]
FIELDS = ["state", "status", "st_1", "workflow_state"]
SHAPES = ["none", "plain", "property", "classlevel", "falsy", "len0", "eqnone"]


def pyv(v):
    if v is None or isinstance(v, (bool, int)):
        return v
    if "e" in v:
        return C10E(v["e"])
    if "s" in v:
        return "" if v["s"] == 0 else f"v{v['s']}"
    if "t" in v:
        return tuple(pyv(x) for x in v["t"])
    return [pyv(x) for x in v["l"]]


def enc(v):
    if isinstance(v, C10E):
        return {"e": v.value}
    if v is None or isinstance(v, bool) or isinstance(v, int):
        return v
    if isinstance(v, str):
        if v == "":
            return {"s": 0}
        if v[0] == "v" and v[1:].isdigit():
            return {"s": int(v[1:])}
        if v[0] == "s" and v[1:].isdigit():
            return {"s": 100 + int(v[1:])}      # default value = the state id "s<k>"
        return {"s": 999}
    if isinstance(v, tuple):
        return {"t": [enc(x) for x in v]}
    if isinstance(v, list):
        return {"l": [enc(x) for x in v]}
    return {"s": 998}


def state_value(sc, i):
    v = sc["values"][i]
    return f"s{i}" if v is None else pyv(v)


def make_model(sc):
    f = sc["field"]
    shape = sc["shape"]
    if shape == "none":
        return None
    if shape == "plain":
        class P:
            pass
        m = P()
        setattr(m, f, None)
        return m
    if shape == "property":
        class Q:
            def __init__(self):
                self._v = None
        setattr(Q, f, property(lambda self: self._v, lambda self, v: setattr(self, "_v", v)))
        return Q()
    if shape == "classlevel":
        C = type("C", (), {f: None})
        return C()
    if shape == "eqnone":
        # a record that compares equal to None (an unsaved row comparing primary keys): still the user's model
        class E:
            def __eq__(self, other):
                return other is None or other is self

            def __hash__(self):
                return 1
        m = E()
        setattr(m, f, None)
        return m
    if shape == "falsy":
        class F:
            def __bool__(self):
                return False
        m = F()
        setattr(m, f, None)
        return m

    class L(list):
        pass
    m = L()
    setattr(m, f, None)
    return m


def run_impl(sc):
    from statemachine import State, StateMachine
    from statemachine.exceptions import InvalidStateValue, TransitionNotAllowed
    n = len(sc["values"])
    try:      # the library's process-wide signature cache is keyed by qualified name (D7): start empty
        from statemachine.signature import SignatureAdapter
        fc = SignatureAdapter.from_callable
        getattr(fc, "__func__", fc).clear_cache()
    except Exception:  # noqa: BLE001
        pass
    with warnings.catch_warnings():
        warnings.simplefilter("ignore")
        dup = sc.get("dup_names") or []          # states that share one display name
        states = [State(*(["Same name"] if i in dup else []),
                        value=(None if sc["values"][i] is None else pyv(sc["values"][i])),
                        initial=(i == sc["initial"])) for i in range(n)]
        body = {f"s{i}": st for i, st in enumerate(states)}
        mbox = {}
        for tr in sc["trans"]:
            a, e, t = tr[:3]
            internal = bool(tr[3]) if len(tr) > 3 else False
            wr = tr[4] if len(tr) > 4 else None
            kw = {}
            if internal and a == t:
                kw["internal"] = True
            if wr is not None:
                # while the transition runs, an `on` callback writes another valid value into the model's field
                def writer(wr=wr):
                    setattr(mbox["sm"].model, sc["field"], state_value(sc, wr))
                if sc.get("async_cb"):
                    async def write_async(wr=wr, writer=writer):
                        writer()
                    kw["on"] = write_async
                else:
                    def write_plain(wr=wr, writer=writer):
                        writer()
                    kw["on"] = write_plain
            states[a].to(states[t], event=f"e{e}", **kw)
        M = type(StateMachine)("M", (StateMachine,), body)
        model = make_model(sc)
        if sc["stored"] is not None and model is not None:
            setattr(model, sc["field"], state_value(sc, sc["stored"]) if isinstance(sc["stored"], int) else pyv(sc["stored"]["raw"]))
        kw = {"state_field": sc["field"]}
        if sc["start"] is not None:
            kw["start_value"] = state_value(sc, sc["start"]) if isinstance(sc["start"], int) else pyv(sc["start"]["raw"])
        sm = None

        def observe(res):
            mdl = sm.model if sm is not None else model
            raw = getattr(mdl, sc["field"], None) if mdl is not None else None
            store = None if raw is None else enc(raw)
            cur, act = None, None
            if sm is not None:
                try:
                    cur = int(sm.current_state.id[1:])
                    act = [bool(getattr(sm, f"s{i}").is_active) for i in range(n)]
                except InvalidStateValue:
                    cur, act = None, None
            kept = True if (model is None or sm is None) else (sm.model is model)
            return {"res": res, "store": store, "current": cur, "active": act, "kept": kept}

        obs = []
        # other instances of the same class, over models of their own, created (and left alone) first - each
        # with its own start_value
        for d_ in sc.get("decoys", []):
            try:
                dk = {"state_field": sc["field"]}
                if d_ is not None:
                    dk["start_value"] = state_value(sc, d_)
                dm = M(make_model(sc), **dk)
                if sc.get("async_cb"):
                    dm.activate_initial_state()
            except Exception:  # noqa: BLE001 - not this machine's business
                pass
        try:
            sm = M(model, **kw)
            if sc.get("copy_first"):
                # the machine is used through a deep copy taken right after construction (for a machine with
                # coroutine callbacks: before its initial state was activated)
                import copy
                sm = copy.deepcopy(sm)
                model = sm.model if model is not None else None
            mbox["sm"] = sm
            if sc.get("async_cb"):
                sm.activate_initial_state()
            obs.append(observe(0))
        except InvalidStateValue:
            obs.append(observe(1))
            return obs
        except Exception:  # noqa: BLE001
            obs.append(observe(9))
            return obs
        for op in sc["ops"]:
            try:
                if op[0] == "send":
                    sm.send(f"e{op[1]}")
                elif op[0] == "setst":
                    # assignment of a State object: one of the machine's own (class-level or per-instance
                    # wrapper), or a State of another class with the same id and name but another value
                    if isinstance(op[1], int):
                        sm.current_state = getattr(M if op[2] else sm, f"s{op[1]}")
                    else:
                        fs = State(value=pyv(op[1]["raw"]), initial=True)
                        fs.to.itself(event="x")
                        F = type(StateMachine)("F", (StateMachine,), {f"s{op[1]['like']}": fs})
                        sm.current_state = getattr(F if op[2] else F(), f"s{op[1]['like']}")
                elif op[0] == "set":
                    sm.current_state_value = state_value(sc, op[1]) if isinstance(op[1], int) else pyv(op[1]["raw"])
                else:
                    v = None if op[1] is None else (state_value(sc, op[1]) if isinstance(op[1], int) else pyv(op[1]["raw"]))
                    setattr(sm.model, sc["field"], v)
                res = 0
            except InvalidStateValue:
                res = 1
            except TransitionNotAllowed:
                res = 2
            except Exception:  # noqa: BLE001
                res = 9
            obs.append(observe(res))
        # afterwards: a subclass adds a state with a value of its own; that value means nothing to the base class:
        # written through the validating setter of a base-class instance it is refused (and nothing is stored)
        try:
            extra = State(value=424242)
            Sub = type(StateMachine)("Sub", (M,), {"zz_extra": extra, "zz_to_extra": states[sc["initial"]].to(extra),
                                                   "zz_back": extra.to(states[sc["initial"]])})
            assert Sub is not None
            other = M(make_model(sc), state_field=sc["field"])
            before = getattr(other.model, sc["field"], None)
            try:
                other.current_state_value = 424242
                obs[-1] = dict(obs[-1], res=8)          # accepted: not a value of this class
            except InvalidStateValue:
                if getattr(other.model, sc["field"], None) != before:
                    obs[-1] = dict(obs[-1], res=8)
        except Exception:  # noqa: BLE001 - (machines that cannot be instantiated again, async ones, ...: nothing to check)
            pass
        return obs


DRIVER_ERR = [{"res": 9, "store": None, "current": None, "active": None, "kept": False}]


# ------------------------------------------------------------------ Coq side
def b(x):
    return "true" if x else "false"


def cq_val(v):
    if v is None:
        return "VNone"
    if isinstance(v, bool):
        return f"(VBool {b(v)})"
    if isinstance(v, int):
        return f"(VInt ({v})%Z)"
    if "e" in v:
        return f"(VOpaque {v['e']} true)"
    if "s" in v:
        return f"(VStr {v['s']})"
    if "t" in v:
        return "(VTuple [" + "; ".join(cq_val(x) for x in v["t"]) + "])"
    return "(VList [" + "; ".join(cq_val(x) for x in v["l"]) + "])"


def model_value(sc, i):
    v = sc["values"][i]
    return {"s": 100 + i} if v is None else v


def ref_value(sc, x):
    """a value given by state index or raw"""
    return model_value(sc, x) if isinstance(x, int) else x["raw"]


def opt(x, f=str):
    return "None" if x is None else f"(Some {f(x)})"


def coq_case(sc, obs):
    vs = "[" + "; ".join(cq_val(model_value(sc, i)) for i in range(len(sc["values"]))) + "]"
    ts = "[" + "; ".join(f"({x[0]}, {x[1]}, {x[2]})" for x in sc["trans"]) + "]"
    sv = "(@None pyval)" if sc["start"] is None else f"(Some {cq_val(ref_value(sc, sc['start']))})"
    st0 = "(@None pyval)" if (sc["stored"] is None or sc["shape"] == "none") else f"(Some {cq_val(ref_value(sc, sc['stored']))})"
    ops = []
    for op in sc["ops"]:
        if op[0] == "send":
            ops.append(f"SSend {op[1]}")
        elif op[0] in ("set", "setst"):      # assigning a State stores (validated) its value
            ops.append(f"SSet {cq_val(ref_value(sc, op[1]))}")
        else:
            ops.append("SExt None" if op[1] is None else f"SExt (Some {cq_val(ref_value(sc, op[1]))})")
    ios = []
    for o in obs:
        act = "None" if o["active"] is None else "(Some [" + "; ".join(b(x) for x in o["active"]) + "])"
        ios.append(f"io {o['res']} {opt(o['store'], cq_val)} {opt(o['current'])} {act} {b(o['kept'])}")
    return f"(mk {vs} {sc['initial']} {ts}, {sv}, {st0}, [{'; '.join(ops)}], [{'; '.join(ios)}])"


# ------------------------------------------------------------------ generator
def gen_case(rng):
    n = rng.randint(1, 5)
    pool = list(VALUE_POOL)
    rng.shuffle(pool)
    values = []
    for i in range(n):
        v = pool.pop() if rng.random() < 0.8 else None
        values.append(v)
    # Python dict keys: True == 1, False == 0 - keep the values pairwise different as keys
    initial = rng.randrange(n)
    ne = rng.randint(1, 3)
    trans = []
    for s in range(n):
        if s != initial:
            trans.append([rng.choice([x for x in range(n) if x != s] or [s]), rng.randrange(ne), s])
    for _ in range(rng.randint(1, 5)):
        trans.append([rng.randrange(n), rng.randrange(ne), rng.randrange(n)])
    # reachability of every state from the initial one is required by the metaclass: add direct edges
    for s in range(n):
        if s != initial:
            trans.append([initial, ne, s])
    # some transitions have an `on` callback that writes another valid value into the field while the
    # transition runs (some of those are internal self-transitions); callbacks may be coroutines
    async_cb = rng.random() < 0.3
    if rng.random() < 0.4:
        for tr in trans:
            if rng.random() < 0.4:
                tr += [1 if (tr[0] == tr[2] and rng.random() < 0.6) else 0, rng.randrange(n)]
        if n >= 2 and rng.random() < 0.5:
            st = rng.randrange(n)       # an internal self-transition whose callback writes another state's value
            trans.append([st, rng.randrange(ne), st, 1, rng.choice([x for x in range(n) if x != st])])
    dup_names = sorted(rng.sample(range(n), 2)) if (n >= 2 and rng.random() < 0.2) else []
    shape = rng.choice(SHAPES)
    stored = None
    if shape != "none" and rng.random() < 0.3:
        stored = rng.randrange(n) if rng.random() < 0.85 else {"raw": rng.choice(INVALID)}
    start = None
    if rng.random() < 0.45:
        start = rng.randrange(n) if rng.random() < 0.85 else {"raw": rng.choice(INVALID)}
    ops = []
    for _ in range(rng.randint(1, 10)):
        r = rng.random()
        if r < 0.5:
            ops.append(["send", rng.randrange(ne + 2)])
        elif r < 0.58:
            ops.append(["set", rng.randrange(n)])
        elif r < 0.65:
            ops.append(["setst", rng.randrange(n), rng.random() < 0.5])
        elif r < 0.70:
            ops.append(["set", {"raw": rng.choice(INVALID + [None, None])}])      # (None is not a state value either)
        elif r < 0.75:
            like = rng.randrange(n)
            raw = rng.choice(INVALID) if rng.random() < 0.7 else rng.choice([v for v in values if v is not None] or INVALID)
            ops.append(["setst", {"raw": raw, "like": like}, rng.random() < 0.5])
        elif r < 0.9:
            ops.append(["ext", rng.randrange(n)])
        elif r < 0.95:
            ops.append(["ext", {"raw": rng.choice(INVALID)}])
        else:
            ops.append(["ext", None])
    decoys = [rng.choice([None] + list(range(n))) for _ in range(rng.randint(1, 2))] if rng.random() < 0.3 else []
    return {"decoys": decoys, "copy_first": rng.random() < 0.15,
            "async_cb": async_cb and any(len(tr) > 3 for tr in trans), "dup_names": dup_names,
            "values": values, "initial": initial, "trans": trans, "shape": shape, "field": rng.choice(FIELDS),
            "stored": stored, "start": start, "ops": ops}


def generate(rng, tier):
    n = 3000 if tier == "quick" else 80000
    scs = [gen_case(rng) for _ in range(n)]
    return scs, [("random machines with state values of every kind x model shapes " + "/".join(SHAPES) +
                  " x state_field names x start_value (valid / invalid / none) x stored value x histories of "
                  "events, validated writes and external writes", n)]


def nontrivial(sc, obs):
    """Non-trivial: a falsy state value (0, "", ()) is actually stored at some point, or the model
    object is falsy / property-backed / class-level, or an invalid value is written."""
    falsy = [0, {"s": 0}, {"t": []}]
    if any(o["store"] in falsy for o in obs):
        return True
    if sc["shape"] in ("falsy", "len0", "property", "classlevel", "eqnone"):
        return True
    return any(op[0] in ("set", "ext") and isinstance(op[1], dict) for op in sc["ops"])


def render_source(sc):
    return (f"# values={sc['values']} initial={sc['initial']} trans(src,event,tgt)={sc['trans']}\n"
            f"# model shape={sc['shape']} state_field={sc['field']!r} stored={sc['stored']} start_value={sc['start']}\n"
            f"# ops={sc['ops']}\n")


def d_falsy_model(sc, v):
    return sc["shape"] in ("falsy", "len0")


def d_falsy_start(sc, v):
    return isinstance(sc["start"], int) and model_value(sc, sc["start"]) in (0, {"s": 0}, {"t": []})


CLASSIFIERS = {"C10.falsy_model": d_falsy_model, "C10.falsy_start_value": d_falsy_start}
