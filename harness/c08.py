"""C08 - guards: cond/unless conjunction and Python-faithful boolean expressions.

Well-formed stream: a random expression tree of the documented grammar is spelled two ways - the
canonical Python spelling (given to CPython's own eval as reference) and a random alternative
spelling (`!`, `^`, `v`, optional whitespace, redundant parentheses) given to the library as the
cond/unless of a real transition; the names are properties / methods / plain attributes of the
machine, the model or a listener; several valuations are applied in turn.  Observed: whether the
transition fires, TypeError, and the order in which logging names are read.
Malformed stream: strings that do not parse, use something outside the grammar, or name something
nobody provides: StateMachine() must raise InvalidDefinition.
"""
import warnings

PROP = "C08"
RUN_MODULE = "Run.C08Run"
VERDICT_FN = "verdict_any"
CHUNK = 300

NAMES = ["x", "valve", "nothing", "android", "orbit", "v1", "a", "b_v", "notv", "vv",
         # names the MACHINE reserves for itself (a state id, reserved words): as guard names they can only be
         # provided by the model or a listener
         "s0", "states", "send",
         # a legal attribute name that is also the spelling of the `or` operator: usable as a whole entry only
         "v"]
RESERVED_FROM = 10
V_NAME = 13
OPS = {"==": "CEq", "!=": "CNe", "<": "CLt", "<=": "CLe", ">": "CGt", ">=": "CGe"}
VALUES = [True, False, 0, 1, 2, 5, None, {"s": 0}, {"s": 1}, {"s": 2}, {"l": []}, {"l": [0]}]
CMP_VALUES = [0, 1, 2, 5, True, False, {"s": 1}, {"s": 2}]
CONSTS = [True, False, None, 0, 1, 2, {"s": 1}]


def pyv(v):
    if v is None or isinstance(v, (bool, int)):
        return v
    if "s" in v:
        return "" if v["s"] == 0 else f"s{v['s']}"
    return [pyv(x) for x in v["l"]]


def lit(v):
    return repr(pyv(v))


# ------------------------------------------------------------------ rendering an AST
PREC = {"or": 1, "and": 2, "not": 3, "cmp": 4, "n": 5, "c": 5}


def render(e, alt, rng=None, parent=0):
    """alt=None: canonical Python spelling.  alt=dict(and_, or_, not_, sp): alternative spelling."""
    k = e[0]
    if k == "n":
        s = NAMES[e[1]]
    elif k == "c":
        s = lit(e[1])
    elif k == "not":
        inner = render(e[1], alt, rng, PREC["not"])
        if alt and alt["not_"] == "!":
            s = "!" + (" " if alt["sp"] == 2 else "") + inner
        else:
            s = "not " + inner
    elif k in ("and", "or"):
        if alt and alt[k + "_"] != k:
            sym = alt[k + "_"]
            if sym == "v":
                sep = " v " if alt["sp"] < 2 else "  v  "
            else:
                sep = {0: "^", 1: " ^ ", 2: "  ^ "}[alt["sp"]]
        else:
            sep = f" {k} " if not alt or alt["sp"] < 2 else f"  {k}  "
        s = sep.join(render(x, alt, rng, PREC[k] + 1 if i else PREC[k]) for i, x in enumerate(e[1]))
    else:
        sp = "" if alt and alt["sp"] == 0 else (" " if not alt or alt["sp"] == 1 else "  ")
        s = render(e[1], alt, rng, PREC["cmp"] + 1)
        for op, x in e[2]:
            s += f"{sp}{op}{sp}" + render(x, alt, rng, PREC["cmp"] + 1)
    need = PREC[k] < parent
    if not need and alt and rng is not None and rng.random() < alt.get("extra_parens", 0):
        need = True
    return f"({s})" if need else s


def gen_expr(rng, depth, names):
    r = rng.random()
    if depth <= 0 or r < 0.25:
        return ["n", rng.choice(names)] if rng.random() < 0.85 else ["c", rng.choice(CONSTS)]
    if r < 0.4:
        return ["not", gen_expr(rng, depth - 1, names)]
    if r < 0.6:
        return ["and", [gen_expr(rng, depth - 1, names) for _ in range(rng.randint(2, 3))]]
    if r < 0.8:
        return ["or", [gen_expr(rng, depth - 1, names) for _ in range(rng.randint(2, 3))]]
    n = 1 if rng.random() < 0.7 else 2

    def atom():
        return ["n", rng.choice(names)] if rng.random() < 0.7 else ["c", rng.choice([0, 1, 2, 5, {"s": 1}])]

    def operand():
        # mostly names and literals; sometimes a parenthesised and / or / not group, whose VALUE (the deciding
        # operand, not a bool) is what gets compared
        r2 = rng.random()
        if r2 < 0.8:
            return atom()
        if r2 < 0.9:
            return [rng.choice(["and", "or"]), [atom(), atom()]]
        if r2 < 0.95:
            return [rng.choice(["and", "or"]), [atom(), atom(), atom()]]
        return ["not", atom()]
    return ["cmp", operand(), [[rng.choice(list(OPS)), operand()] for _ in range(n)]]


def flatten(e):
    """what ast.parse does: nested same-operator BoolOps written without parentheses are one node"""
    k = e[0]
    if k == "not":
        return ["not", flatten(e[1])]
    if k in ("and", "or"):
        return [k, [flatten(x) for x in e[1]]]
    if k == "cmp":
        return ["cmp", flatten(e[1]), [[op, flatten(x)] for op, x in e[2]]]
    return e


def names_in(e, acc):
    k = e[0]
    if k == "n":
        if e[1] not in acc:
            acc.append(e[1])
    elif k == "not":
        names_in(e[1], acc)
    elif k in ("and", "or"):
        for x in e[1]:
            names_in(x, acc)
    elif k == "cmp":
        names_in(e[1], acc)
        for _, x in e[2]:
            names_in(x, acc)
    return acc


def has_cmp(e):
    k = e[0]
    if k == "cmp":
        return True
    if k == "not":
        return has_cmp(e[1])
    if k in ("and", "or"):
        return any(has_cmp(x) for x in e[1])
    return False


def from_ast(node):
    """the AST CPython produces for the canonical spelling, in our JSON form (this is what the
    model is evaluated on: CPython's parser is the trusted front end, as it is for the library)"""
    import ast
    if isinstance(node, ast.BoolOp):
        return ["and" if isinstance(node.op, ast.And) else "or", [from_ast(v) for v in node.values]]
    if isinstance(node, ast.UnaryOp) and isinstance(node.op, ast.Not):
        return ["not", from_ast(node.operand)]
    if isinstance(node, ast.Compare):
        opn = {ast.Eq: "==", ast.NotEq: "!=", ast.Lt: "<", ast.LtE: "<=", ast.Gt: ">", ast.GtE: ">="}
        return ["cmp", from_ast(node.left), [[opn[type(o)], from_ast(c)] for o, c in zip(node.ops, node.comparators)]]
    if isinstance(node, ast.Name):
        return ["n", NAMES.index(node.id)]
    if isinstance(node, ast.Constant):
        v = node.value
        if isinstance(v, str):
            return ["c", {"s": 0 if v == "" else int(v[1:])}]
        return ["c", v]
    raise ValueError(node)


# ------------------------------------------------------------------ running the library
LOG = []
ENV = {}


class _Aw:
    def __init__(self, v):
        self.v = v

    def __await__(self):
        if False:
            yield
        return self.v


def _fut(v):
    import asyncio
    f = asyncio.get_running_loop().create_future()
    f.set_result(v)
    return f


def make_classes(sc):
    from statemachine import State, StateMachine
    kinds = sc["provide"]          # name index -> (provider, how)

    def mk(p):
        d = {}
        for n, (prov, how) in kinds.items():
            n = int(n)
            if prov != p:
                continue
            name = NAMES[n]
            if how == "property":
                def getter(self, n=n):
                    return (LOG.append(n), pyv(ENV[n]))[1]
                getter.__name__ = name            # (as a `def name(self)` under @property has)
                d[name] = property(getter)
            elif how == "method":
                d[name] = (lambda n: lambda self: (LOG.append(n), pyv(ENV[n]))[1])(n)
            elif how == "aw_object":     # a plain method handing back an awaitable that is no coroutine
                d[name] = (lambda n: lambda self: (LOG.append(n), _Aw(pyv(ENV[n])))[1])(n)
            elif how == "aw_future":     # ... or an already resolved Future of the running loop
                d[name] = (lambda n: lambda self: (LOG.append(n), _fut(pyv(ENV[n])))[1])(n)
            # "attr": set on the instance before each send
        return d
    body = {"s0": State(initial=True)}
    kw = {"cond" if sc["expected"] else "unless": sc["text"]}
    if sc.get("second"):
        k2 = "cond" if sc["second"]["expected"] else "unless"
        kw[k2] = [kw[k2], sc["second"]["text"]] if k2 in kw else sc["second"]["text"]
    if sc.get("async_engine"):
        async def on_go(self):
            return None
        body["on_go"] = on_go        # a coroutine action: the machine runs on the async engine
    if sc.get("extra") == "same_list":        # a second, resolvable entry in the same list
        kw = {k: [NAMES[6], v] for k, v in kw.items()}
    elif sc.get("extra") == "same_list_after":
        kw = {k: [v, NAMES[6]] for k, v in kw.items()}
    elif sc.get("extra") == "other_list":     # a resolvable entry in the other list
        kw["unless" if sc["expected"] else "cond"] = NAMES[6]
    # the same self-transition written as s0.to.itself(...) or as s0.from_.any(...) (expanded by the
    # metaclass onto every non-final state, i.e. onto s0)
    body["go"] = body["s0"].from_.any(**kw) if sc.get("via_any") else body["s0"].to.itself(**kw)
    body.update(mk(0))
    mbases, mdl_bases = (StateMachine,), ()
    if sc.get("propobj"):
        # the guard is given as the PROPERTY OBJECT of a base class; the provider is an instance of a subclass
        name = NAMES[sc["ast"][1]]
        prov = kinds[str(sc["ast"][1])][0]
        if prov == 0:
            prop = body.pop(name)
            MBase = type(StateMachine)("MBase", (StateMachine,), {name: prop})
            mbases = (MBase,)
        else:
            prop = mk(1)[name]
            mdl_bases = (type("MdlBase", (), {name: prop}),)
        body["go"] = body["s0"].to.itself(**{("cond" if sc["expected"] else "unless"): prop})
    if sc.get("decor_list"):
        # the guard is a method of the machine attached with the decorator syntax to a LIST of transitions
        # (one per state; the event alternates between them): `@go.unless` / `@go.cond`
        body["s1"] = State()
        tl = body["s0"].to(body["s1"]) | body["s1"].to(body["s0"])
        name = NAMES[sc["ast"][1]]
        body[name] = (tl.cond if sc["expected"] else tl.unless)(body[name])
        body["go"] = tl
    M = type(StateMachine)("M", mbases, body)
    mdl_body = dict(mk(1), state=None)
    if mdl_bases:
        mdl_body.pop(NAMES[sc["ast"][1]], None)
    Mdl = type("Mdl", mdl_bases, mdl_body)
    Lst = type("Lst", (), mk(2))
    return M, Mdl, Lst


def set_attrs(sc, objs):
    for n, (prov, how) in sc["provide"].items():
        if how == "attr":
            setattr(objs[prov], NAMES[int(n)], pyv(ENV[int(n)]))


def run_impl(sc):
    from statemachine.exceptions import InvalidDefinition, TransitionNotAllowed
    global ENV
    if sc.get("textual"):
        from statemachine.spec_parser import replace_operators
        return {"out": replace_operators(sc["text"])}
    try:
        from statemachine.signature import SignatureAdapter
        fc = SignatureAdapter.from_callable
        getattr(fc, "__func__", fc).clear_cache()
    except Exception:  # noqa: BLE001
        pass
    with warnings.catch_warnings():
        warnings.simplefilter("ignore")
        try:
            M, Mdl, Lst = make_classes(sc)
        except InvalidDefinition:
            return {"construct": "idef_class"}
        except Exception as e:  # noqa: BLE001
            return {"construct": "other_class:" + type(e).__name__}
        model, lst = Mdl(), Lst()
        ENV = {int(k): v for k, v in (sc["envs"][0] if sc["envs"] else {}).items()}
        for n in range(len(NAMES)):
            ENV.setdefault(n, None)
        # attributes must exist before construction (they are looked up with dir())
        for n, (prov, how) in sc["provide"].items():
            if how == "attr" and prov in (1, 2):
                setattr((None, model, lst)[prov], NAMES[int(n)], pyv(ENV[int(n)]))
        try:
            class MM(M):
                def __init__(self, *a, **k):
                    for n, (prov, how) in sc["provide"].items():
                        if how == "attr" and prov == 0:
                            setattr(self, NAMES[int(n)], pyv(ENV[int(n)]))
                    super().__init__(*a, **k)
            sm = MM(model, listeners=[lst])
        except InvalidDefinition:
            return {"construct": "idef"}
        except Exception as e:  # noqa: BLE001
            return {"construct": "other:" + type(e).__name__}
        steps = []
        late = None
        if sc.get("late_twin"):
            # a listener attached later that has (as plain attributes) every name the guard entries use: each
            # entry is then one more conjunct, evaluated on the late listener's own values
            late = type("Late", (), {})()
            for n in sc["provide"]:
                setattr(late, NAMES[int(n)], None)
            try:
                sm.add_listener(late)
            except Exception as e:  # noqa: BLE001
                return {"construct": "other_late:" + type(e).__name__}
        for env in sc["envs"]:
            ENV = {int(k): v for k, v in env.items() if int(k) < 100}
            for n in range(len(NAMES)):
                ENV.setdefault(n, None)
            set_attrs(sc, (sm, model, lst))
            if late is not None:
                for n in sc["provide"]:
                    setattr(late, NAMES[int(n)], pyv(env[str(int(n) + 100)]))
            del LOG[:]
            try:
                sm.send("go")
                out = 1
            except TransitionNotAllowed:
                out = 0
            except TypeError:
                out = 2
            except Exception as e:  # noqa: BLE001
                out = 9
            refc = 1
            for canon, expected in sorted([(sc["canon"], sc["expected"])] + ([(sc["second"]["canon"], sc["second"]["expected"])] if sc.get("second") else []),
                                          key=lambda ce: not ce[1]):
                if refc != 1:
                    break
                try:
                    ref = eval(canon, {"__builtins__": {}}, {NAMES[n]: pyv(v) for n, v in ENV.items()})  # noqa: S307
                    refc = 1 if bool(ref) == expected else 0
                except TypeError:
                    refc = 2
            if late is not None:
                for canon, expected in sorted([(sc["canon"], sc["expected"])] + ([(sc["second"]["canon"], sc["second"]["expected"])] if sc.get("second") else []),
                                              key=lambda ce: not ce[1]):
                    if refc != 1:
                        break
                    try:
                        ref = eval(canon, {"__builtins__": {}},  # noqa: S307
                                   {NAMES[int(n)]: pyv(env[str(int(n) + 100)]) for n in sc["provide"]})
                        refc = 1 if bool(ref) == expected else 0
                    except TypeError:
                        refc = 2
            steps.append({"impl": out, "reads": list(LOG), "ref": refc})
        # a further instance of the same class whose model and listener provide none of the names: every
        # instantiation is checked, so when a guard name lives on the model / listener only this one is refused
        second = None
        if any(prov in (1, 2) for prov, _how in sc["provide"].values()):
            try:
                MM(type("Bare", (), {"state": None})(), listeners=[type("BareL", (), {})()])
                second = "accepted"
            except InvalidDefinition:
                second = "idef"
            except Exception as e:  # noqa: BLE001
                second = "other:" + type(e).__name__
        return {"construct": "ok", "steps": steps, "second_instance": second}


DRIVER_ERR = {"construct": "driver"}


# ------------------------------------------------------------------ Coq literals
def b(x):
    return "true" if x else "false"


def cq_val(v):
    if v is None:
        return "VNone"
    if isinstance(v, bool):
        return f"(VBool {b(v)})"
    if isinstance(v, int):
        return f"(VInt ({v})%Z)"
    if "s" in v:
        return f"(VStr {v['s']})"
    return "(VList [" + "; ".join(cq_val(x) for x in v["l"]) + "])"


def cq_expr(e):
    k = e[0]
    if k == "n":
        return f"(EName {e[1]})"
    if k == "c":
        return f"(EConst {cq_val(e[1])})"
    if k == "not":
        return f"(ENot {cq_expr(e[1])})"
    if k in ("and", "or"):
        c = "EAnd" if k == "and" else "EOr"
        return f"({c} {cq_expr(e[1][0])} [{'; '.join(cq_expr(x) for x in e[1][1:])}])"
    return f"(ECmp {cq_expr(e[1])} [{'; '.join(f'({OPS[op]}, {cq_expr(x)})' for op, x in e[2])}])"


def coq_case(sc, obs):
    if sc.get("textual"):
        def codes(t):
            return "[" + "; ".join(str(ord(c)) for c in t) + "]"
        return f"(text_case {codes(sc['text'])} {codes(obs['out'])})"
    if sc.get("malformed"):
        # expected: InvalidDefinition when the machine is instantiated
        return f"(mal {1 if obs.get('construct') == 'idef' else 0})"
    if obs.get("construct") != "ok":
        return "(mal 0)"
    if obs.get("second_instance") not in (None, "idef"):
        return "(mal 0)"
    logged = [int(n) for n, (p, how) in sc["provide"].items() if how in ("property", "method", "aw_object", "aw_future")]
    steps = []
    for env, s in zip(sc["envs"], obs["steps"]):
        ev = "[" + "; ".join(f"({n}, {cq_val(v)})" for n, v in env.items()) + "]"
        steps.append(f"st {ev} {s['impl']} [{'; '.join(map(str, s['reads']))}] {s['ref']}")
    entries = [(sc["ast"], sc["expected"])] + ([(sc["second"]["ast"], sc["second"]["expected"])] if sc.get("second") else [])
    entries.sort(key=lambda e: not e[1])          # cond entries are registered before unless entries
    if sc.get("late_twin"):
        def ren(e):
            if e[0] == "n":
                return ["n", e[1] + 100]
            if e[0] == "c":
                return e
            if e[0] == "not":
                return ["not", ren(e[1])]
            if e[0] in ("and", "or"):
                return [e[0], [ren(x) for x in e[1]]]
            return ["cmp", ren(e[1]), [[op, ren(x)] for op, x in e[2]]]
        entries = entries + [(ren(a_), x_) for a_, x_ in entries]      # the late listener's copies come last
    es = "[" + "; ".join(f"({cq_expr(a)}, {b(x)})" for a, x in entries) + "]"
    isasync = bool(sc.get("async_engine"))
    return (f"(wf ({es}, [{'; '.join(map(str, logged))}], {b(isasync)}, {b(not isasync)}, "
            f"[{'; '.join(steps)}]))")


# ------------------------------------------------------------------ generators
MALFORMED = ["a and", "a b", "(a", "a ==", "", "   ", "a +", "== a", "a and and b", "a ^^ b", "not", "!",
             "a + b", "a is b", "a if b else x", "a.b", "f(a)", "[a]", "a in b", "-a", "a and (b",
             "zzz", "a and zzz", "zzz or a", "not zzz", "a == zzz", "qq", "x>=qq", "a ^ zzz", "a v zzz"]


def gen_case(rng, depth):
    import ast
    nm = rng.sample(range(V_NAME), rng.randint(1, 4))
    tree = gen_expr(rng, depth, nm)
    only_v = rng.random() < 0.03
    if only_v:
        tree = ["n", V_NAME]              # the whole entry is the name `v`
    canon = render(tree, None)
    alt = {"and_": rng.choice(["and", "^"]), "or_": rng.choice(["or", "v"]), "not_": rng.choice(["not", "!"]),
           "sp": rng.choice([0, 1, 1, 2]), "extra_parens": rng.choice([0, 0, 0.3])}
    if rng.random() < 0.25:
        alt = None
    text = render(tree, alt, rng) if (alt and not only_v) else canon
    a = from_ast(ast.parse(canon, mode="eval").body)
    used = names_in(a, [])
    cmpy = has_cmp(a)
    provide = {}
    for n in used:
        provide[str(n)] = (rng.choice([0, 0, 1, 2] if (n < RESERVED_FROM or n == V_NAME) else [1, 2]), rng.choice(["property", "method", "attr"]))
    envs = []
    for _ in range(rng.randint(1, 4)):
        # ordering comparisons are modelled for numbers, booleans and strings (None and mixed kinds raise
        # TypeError in the model as in Python); lists are kept out of expressions that compare
        envs.append({str(n): rng.choice(CMP_VALUES + [None] if cmpy else VALUES) for n in used})
    sc = {"ast": a, "canon": canon, "text": text, "expected": rng.random() < 0.7, "provide": provide,
          "envs": envs}
    if rng.random() < 0.3 and not only_v:
        # a second entry on the same transition over the same names: the same tree with and/or swapped
        # at the top, or another random expression
        def swap(e):
            if e[0] == "and":
                return ["or", e[1]]
            if e[0] == "or":
                return ["and", e[1]]
            return ["not", e]
        t2 = swap(tree) if rng.random() < 0.6 else gen_expr(rng, 2, nm)
        c2 = render(t2, None)
        a2 = from_ast(ast.parse(c2, mode="eval").body)
        if not has_cmp(a2) or cmpy:
            for n in names_in(a2, []):
                if str(n) not in provide:
                    provide[str(n)] = (rng.choice([0, 0, 1, 2] if n < RESERVED_FROM else [1, 2]), rng.choice(["property", "method", "attr"]))
                    for env in envs:
                        env[str(n)] = rng.choice(CMP_VALUES + [None] if cmpy else VALUES)
            sc["second"] = {"ast": a2, "canon": c2, "text": render(t2, alt, rng) if alt else c2,
                            "expected": rng.random() < 0.5}
            # two entries with the same expression tree (after the left-nesting the library applies to
            # n-ary and / or and to comparison chains) have one executor key and are one conjunct: keep
            # them apart.  Entries that differ only in grouping are kept (that was D20, repaired).
            def flat(e):
                if e[0] == "n":
                    return NAMES[e[1]]
                if e[0] == "c":
                    return repr(e[1])
                if e[0] == "not":
                    return "not(" + flat(e[1]) + ")"
                if e[0] in ("and", "or"):
                    out = flat(e[1][0])
                    for x in e[1][1:]:
                        out = "(" + out + " " + e[0] + " " + flat(x) + ")"
                    return out
                parts, left = [], flat(e[1])
                for op, x in e[2]:
                    parts.append("(" + left + " " + op + " " + flat(x) + ")")
                    left = flat(x)
                out = parts[0]
                for q in parts[1:]:
                    out = "(" + out + " and " + q + ")"
                return out
            if flat(a2) == flat(a):
                del sc["second"]
    sc["via_any"] = rng.random() < 0.25
    if rng.random() < 0.2:
        sc["late_twin"] = True
        for env in envs:
            for n in list(provide):
                env[str(int(n) + 100)] = rng.choice(CMP_VALUES + [None] if (cmpy or (sc.get("second") and has_cmp(sc["second"]["ast"]))) else VALUES)
    if (rng.random() < 0.3 and not cmpy and not (sc.get("second") and has_cmp(sc["second"]["ast"]))
            and not sc.get("late_twin")):
        sc["async_engine"] = True      # (comparisons may raise TypeError, whose fate among several
                                       #  concurrently evaluated guards is left open)
        # a guard that is one bare name may hand back an awaitable which is not a coroutine object (inside
        # a larger expression only the last operand's value is awaited: D10, kept out here)
        if a[0] == "n" and not sc.get("second") and rng.random() < 0.7:
            prov, _how = provide[str(a[1])]
            provide[str(a[1])] = (prov, rng.choice(["aw_object", "aw_future"]))
    if (a[0] == "n" and not sc.get("second") and not sc.get("late_twin") and not sc.get("async_engine")
            and a[1] < RESERVED_FROM and rng.random() < 0.3):
        provide[str(a[1])] = (rng.choice([0, 1]), "property")
        sc["propobj"], sc["via_any"] = True, False
    elif (a[0] == "n" and not sc.get("second") and not sc.get("late_twin")
            and not str(provide[str(a[1])][1]).startswith("aw_") and a[1] < RESERVED_FROM and rng.random() < 0.5):
        provide[str(a[1])] = (0, "method")
        sc["decor_list"], sc["via_any"] = True, False
    return sc


def exhaustive_small():
    """every expression of depth <= 2 over two names with and/or/not (both spellings, 0/1 spaces) x
    every boolean valuation"""
    import ast
    import itertools
    leaves = [["n", 0], ["n", 6]]
    d1 = list(leaves) + [["not", x] for x in leaves]
    d2 = list(d1)
    for op in ("and", "or"):
        for x, y in itertools.product(d1, repeat=2):
            d2.append([op, [x, y]])
    d3 = list(d2)
    for op in ("and", "or"):
        for x in d2[len(d1):len(d1) + 12]:
            for y in leaves:
                d3.append([op, [x, y]])
                d3.append([op, [y, x]])
    d3 += [["not", x] for x in d2[len(d1):]]
    out = []
    k = 0
    for tree in d3:
        canon = render(tree, None)
        a = from_ast(ast.parse(canon, mode="eval").body)
        for alt in (None, {"and_": "^", "or_": "v", "not_": "!", "sp": 1, "extra_parens": 0},
                    {"and_": "^", "or_": "or", "not_": "!", "sp": 0, "extra_parens": 0}):
            text = render(tree, alt) if alt else canon
            used = names_in(a, [])
            envs = [{str(n): v for n, v in zip(used, vals)} for vals in itertools.product([True, False], repeat=len(used))]
            out.append({"ast": a, "canon": canon, "text": text, "expected": k % 3 != 0,
                        "provide": {str(n): (0, "property") for n in used}, "envs": envs})
            k += 1
    return out


def generate(rng, tier):
    scs, parts = [], []
    ex = exhaustive_small()
    scs += ex
    parts.append(("n=2: every and/or/not expression up to depth 2 (+ a depth-3 slice) over two names x three spellings "
                  "x every boolean valuation", len(ex)))
    n = 2500 if tier == "quick" else 60000
    for _ in range(n):
        scs.append(gen_case(rng, rng.randint(1, 4 if tier == "quick" else 6)))
    parts.append(("random expressions (depth 1..4 quick / 6 thorough: names containing v/not/and/or, constants, "
                  "chained comparisons, either spelling, 0-2 spaces, redundant parentheses), names provided as "
                  "property / method / attribute on machine / model / listener, 1-4 valuations each", n))
    # two valid entries that differ only in grouping (D20, repaired: must behave as two conjuncts)
    import ast as _ast
    t1, t2 = ["and", [["n", 6], ["or", [["n", 0], ["n", 1]]]]], ["or", [["and", [["n", 6], ["n", 0]]], ["n", 1]]]
    scs.append({"ast": from_ast(_ast.parse(render(t1, None), mode="eval").body), "canon": render(t1, None),
                "text": render(t1, None), "expected": True, "collide": True,
                "second": {"ast": from_ast(_ast.parse(render(t2, None), mode="eval").body), "canon": render(t2, None),
                           "text": render(t2, None), "expected": True},
                "provide": {"6": (0, "property"), "0": (0, "property"), "1": (0, "property")},
                "envs": [{"6": True, "0": False, "1": True}, {"6": False, "0": False, "1": True}]})
    parts.append(("probe: two valid guard expressions on one transition that differ only in grouping", 1))
    mal = []
    for t in MALFORMED:
        for expected in (True, False):
            for extra in (None, "same_list", "same_list_after", "other_list"):
                mal.append({"malformed": True, "text": t, "expected": expected, "canon": t, "extra": extra,
                            "provide": {"6": (0, "property"), "0": (1, "attr")}, "envs": []})
    scs += mal
    parts.append(("malformed stream: strings that do not parse, use constructs outside the grammar, or name "
                  "something no provider has, alone or next to a resolvable entry in the same / the other guard "
                  "list (must raise InvalidDefinition at StateMachine())", len(mal)))
    # the textual layer on its own: random ASCII texts over the characters that matter
    alphabet = "vvv!!^^== ()ax_1n\u00ed\u00e9"      # (two non-ASCII letters: \\w and \\b are Unicode-aware)
    nt = 1500 if tier == "quick" else 40000
    texts = []
    for _ in range(nt):
        texts.append({"textual": True, "text": "".join(rng.choice(alphabet) for _ in range(rng.randint(0, 12))),
                      "provide": {}, "envs": []})
    for t in ["v", "!v", "v!", "!=", "!!=", "a!=v", "v v", "vv", "_v", "v_", "v1", "1v", "(v)", "^v^", "a^!b v c", "not_v v v2",
              "v\u00eddeo", "\u00e9v\u00e9", "v \u00ed", "\u00edv", "v\u00ed v \u00e9v", "!\u00e9 ^ v\u00e3o_livre == 0"]:
        texts.append({"textual": True, "text": t, "provide": {}, "envs": []})
    scs += texts
    parts.append(("textual layer: replace_operators on random texts over v ! ^ = space ( ) letters digits "
                  "underscore and two non-ASCII letters (length 0-12) and hand-picked corner cases, compared character by character with the "
                  "model Impl/Replace.v", len(texts)))
    return scs, parts


def nontrivial(sc, obs):
    """Non-trivial: the expression uses >= 2 different operators (and / or / not / comparison) and was
    evaluated under >= 1 valuation; malformed inputs count when they are rejected at instantiation."""
    if sc.get("malformed") or sc.get("textual"):
        return False
    ops = set()

    def walk(e):
        if e[0] in ("and", "or", "not", "cmp"):
            ops.add(e[0])
        if e[0] == "not":
            walk(e[1])
        elif e[0] in ("and", "or"):
            for x in e[1]:
                walk(x)
        elif e[0] == "cmp":
            walk(e[1])
            for _, x in e[2]:
                walk(x)
    walk(sc["ast"])
    return len(ops) >= 2


def render_source(sc):
    if sc.get("textual"):
        return f"from statemachine.spec_parser import replace_operators\nprint(repr(replace_operators({sc['text']!r})))\n"
    kw = "cond" if sc["expected"] else "unless"
    return (f"# guard text given to the library: {sc['text']!r}\n# canonical Python spelling: {sc.get('canon')!r}\n"
            f"class M(StateMachine):\n    s0 = State(initial=True)\n    go = s0.{'from_.any' if sc.get('via_any') else 'to.itself'}({kw}={sc['text']!r})"
            f"   # extra entry: {sc.get('extra')}\n"
            f"# names provided as: { {NAMES[int(n)]: v for n, v in sc['provide'].items()} }\n")


def d20(sc, v):
    return bool(sc.get("collide")) and v == 2


CLASSIFIERS = {"C08.entries_differing_only_in_grouping": d20}
