"""module-level classes (picklable) for the D25 probe of C17"""
from statemachine import State, StateMachine


class Door(StateMachine):
    closed = State(initial=True)
    opened = State()
    open = closed.to(opened, unless="blocked") | opened.to(closed)


class Mdl:
    def __init__(self):
        self.state = None
        self.blocked = False


class Sensor:
    blocked = True
