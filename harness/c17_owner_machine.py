"""Module-level classes (picklable) for C17's probe: a model object that holds its own machine."""
from statemachine import State, StateMachine

LOG = []


class Lamp(StateMachine):
    off = State(initial=True)
    on = State()
    toggle = off.to(on) | on.to(off)

    def on_enter_off(self):
        LOG.append("enter_off")

    def on_enter_on(self):
        LOG.append("enter_on")


class Owner:
    def __init__(self):
        self.state = None
        self.sm = Lamp(self)
