"""C15 - every declaration style of the same machine yields the same machine.

Each abstract machine (engine-family scenario) is rendered in every applicable combination of
  how events are attached : event="a b" / event=[...] / Event() objects / `name = t1 | t2` / Event(t1 | t2, name=...)
  how transitions are made: a.to(b) / b.from_(a) / a.to(b, c) / c.from_(a, b) / a.to.itself()
  how states are declared : State attributes / States({...}) / States.from_enum(...)
  where the class body is : the class itself / a base class it inherits from
  from_.any()             : versus one explicit transition from every non-final state
  decorator events        : `@tl def ev(self)` versus event attribute + `on=` callback
All renderings must have the same states, the same set of events, the same ordered transitions per
state (target, internal, events, guards, callbacks), and produce the same observations on the
common history; the baseline rendering is compared with the model in Coq.
"""
import copy
import itertools
import warnings

from . import eng, enggen, engfam

PROP = "C15"
RUN_MODULE = "Run.EngineRun"
VERDICT_FN = "(fun cs => fold_left (fun acc c => if Nat.eqb acc 0 then verdict_C17_any c else acc) cs 0)"
CHUNK = 80
DRIVER_ERR = {"base": eng.DRIVER_ERR, "bad": ["driver"], "styles": 0}
K = dict(callable_refs=0.3, bound_refs=0.6, cbs=0.45, conv=0.25, guards=0.5, validators=0.25, sends=0.08, raises=0.02, multi_event=0.45, multi_cand=0.6,
         self_loop=0.3, internal=0.4, final=0.25, p_async=0.0, rtc_false=0.1, ops=(3, 10), falsy_machine=0.0,
         p_values=0.0, styles=("str",), start=0.0, resume=0.0, p_construct=0.0, p_write=0.0)


def structure(cls, ignore_on=(), rename=None):
    """what the property compares: states, events, ordered transitions per state"""
    st = [(s.id, bool(s.initial), bool(s.final)) for s in cls.states]
    evs = sorted(str(e) for e in cls._events)
    per = {}
    for s in cls.states:
        rows = []
        for t in s.transitions:
            specs = {"cond": [], "val": [], "before": [], "on": [], "after": []}
            for sp in t._specs:
                if sp.is_convention:
                    continue
                g = sp.group.name
                name = sp.attr_name
                name = (rename or {}).get(name, name)
                if g == "COND":
                    specs["cond"].append((name, sp.expected_value))
                elif g == "VALIDATOR":
                    specs["val"].append(name)
                elif g in ("BEFORE", "ON", "AFTER"):
                    if name in ignore_on:
                        continue
                    specs[g.lower()].append(name)
            rows.append((t.target.id, bool(t.internal), tuple(sorted(str(e) for e in t.events)),
                         # (the order inside one group is not part of any property: compared as multisets)
                         tuple(sorted(specs["cond"])), tuple(sorted(specs["val"])), tuple(sorted(specs["before"])),
                         tuple(sorted(specs["on"])), tuple(sorted(specs["after"]))))
        per[s.id] = rows
    enter_exit = {s.id: (tuple(sp.attr_name for sp in s.enter if not sp.is_convention),
                         tuple(sp.attr_name for sp in s.exit if not sp.is_convention)) for s in cls.states}
    return {"states": st, "events": evs, "trans": per, "state_cbs": enter_exit}


def per_event(st):
    """the same structure with every transition bound to several events listed once per event (a from_.any()
    declaration under two event names is expanded once per name)"""
    out = dict(st)
    out["trans"] = {sid: [row[:2] + ((e,),) + row[3:] for row in rows for e in row[2]] for sid, rows in st["trans"].items()}
    return out


def variants(sc, rng, limit):
    vs = []
    simple_states = all(not st["enter"] and not st["exit"] for st in sc["states"]) and not sc.get("values")
    sstyles = ["attr", "dict"] + (["enum"] if simple_states else [])
    combos = list(itertools.product(["str", "list", "list_spaced", "obj", "obj", "assign", "event_ctor", "mixed", "mixed"],
                                    ["to", "from", "multi", "multi_from"], [False, True], sstyles, [False, True]))
    rng.shuffle(combos)
    for ev, ts, itself, ss, inh in combos[:limit]:
        v = dict(sc, evstyle=ev, tstyle=ts, itself=itself, sstyle=ss, inherit=inh)
        if ss == "enum" and rng.random() < 0.6:
            v["enum_kind"] = "int0"
        if ev == "obj" and rng.random() < 0.5:
            v["events_first"] = True
        if ev == "mixed":      # some transitions name their event with event=, others by class attribute
            v["mixed"] = [1 if (len(t["ev"]) == 1 and rng.random() < 0.5) else 0 for t in sc["trans"]]
        if ev == "obj" and any(len(t["ev"]) > 1 for t in sc["trans"]):
            continue       # placeholder events reorder multi-event lists (event order is not compared, but
                           # allowed_events order is an observation): keep this style to single-event machines
        if ev in ("assign", "event_ctor") and any(t["ev"] != sorted(t["ev"]) for t in sc["trans"]):
            continue
        if ev == "assign" and rng.random() < 0.5:
            v["ior"] = True
        if ev == "assign" and rng.random() < 0.7:      # callbacks / an event declared with decorators
            v["decor"] = make_decor(sc, rng)
        if ev == "event_ctor" and sc.get("decor_evobj") and rng.random() < 0.8:
            v["decor"] = {"cbs": [], "event": None, "evobj": sc["decor_evobj"]}
        vs.append(v)
    # a machine with final states always gets one rendering whose states come from an IntEnum (the final one, or
    # the first of them, being the member with value 0)
    if simple_states and sc["finals"] and not any(v_.get("enum_kind") == "int0" for v_ in vs):
        vs.append(dict(sc, evstyle=rng.choice(["str", "list"]), tstyle=rng.choice(["to", "from"]), itself=False,
                       sstyle="enum", enum_kind="int0", inherit=False, mixed=None, decor=None))
    # the class body written state by state (all transitions leaving one state, then those leaving the next,
    # in a random order of the states) instead of in the abstract machine's order: another global creation
    # order, the same ordered list per source state (Proofs/DeclBehaviour.v: statement_order_across_states_
    # irrelevant)
    if not sc.get("any") and not sc.get("any_group") and len(sc["trans"]) > 1:
        order = list(range(sc["n"]))
        rng.shuffle(order)
        tr = [t for s in order for t in sc["trans"] if t["s"] == s]
        if tr != sc["trans"]:
            vs.append(dict(sc, evstyle=rng.choice(["str", "list"]), tstyle=rng.choice(["to", "from"]), itself=False,
                           sstyle="attr", inherit=rng.random() < 0.3, trans=tr, regrouped=True, mixed=None, decor=None))
    return vs


def make_decor(sc, rng):
    """which callbacks are given by `@tr.before / .on / .after / .validators / .cond / .unless def f` instead
    of by name (the last name of a group, provided by the machine alone: a decorated function is a
    method of the class), and whether the event prepared by inject_decor_event is declared by
    `@(tr1 | tr2) def event(self)`"""
    others = [tuple(nm) for prov in sc["provs"][1:] for nm in prov]
    given_as_objects = {tuple(nm) for nm in sc.get("callable_names", [])}
    sole = {tuple(nm) for nm in sc["provs"][0] if nm[0] == 0 and nm[1] < 500 and tuple(nm) not in others} - given_as_objects
    dev = sc.get("decor_event") if rng.random() < 0.8 else None
    cbs = []
    for j, t in enumerate(sc["trans"]):
        for g in ("before", "on", "after", "val"):
            if t[g] and tuple(t[g][-1]) in sole and rng.random() < 0.5:
                if dev and g == "on" and t["ev"] == [dev[0]]:
                    continue
                cbs.append([j, g, list(t[g][-1])])
        # (a decorated guard is evaluated after the keyword ones: keep the evaluation order of the baseline,
        # cond entries before unless entries, by decorating a cond only when there is no unless entry)
        if (t["cond"] and tuple(t["cond"][-1][0]) in sole and rng.random() < 0.5
                and (not t["cond"][-1][1] or all(b_ for _n, b_ in t["cond"]))):
            cbs.append([j, "cond" if t["cond"][-1][1] else "unless", list(t["cond"][-1][0])])
    return {"cbs": cbs, "event": dev, "event_alias": bool(dev) and rng.random() < 0.5}


def inject_decor_event(sc, rng):
    """give every transition of one single-event event a common last `on` action of the machine, so
    that the event can also be declared by decorating that action"""
    evs = sorted({e for t in sc["trans"] for e in t["ev"]})
    cands = [e for e in evs if all(t["ev"] == [e] for t in sc["trans"] if e in t["ev"])]
    if not cands:
        return sc
    e = rng.choice(cands)
    k = 1 + max([nm[1] for prov in sc["provs"] for nm in prov if nm[0] == 0 and nm[1] < 500] + [0])
    sc["provs"][0].append([0, k])
    sc["tbl"].append([0, 0, k, [], {"a": [], "r": rng.choice([None, 42, {"s": 1}])}])
    for t in sc["trans"]:
        if t["ev"] == [e]:
            t["on"].append([0, k])
    sc["decor_event"] = [e, [0, k]]
    return sc


def inject_decor_evobj(sc, rng):
    """give every transition of one single-event event a common, last callback / unless guard of the machine,
    so that it can also be attached through the Event object: `@go.unless def f`"""
    evs = sorted({e for t in sc["trans"] for e in t["ev"]})
    taken = (sc.get("decor_event") or [None])[0]
    cands = [e for e in evs if e != taken and all(t["ev"] == [e] for t in sc["trans"] if e in t["ev"])]
    if not cands:
        return sc
    e = rng.choice(cands)
    k = 1 + max([nm[1] for prov in sc["provs"] for nm in prov if nm[0] == 0 and nm[1] < 300] + [0])
    g = rng.choice(["unless", "unless", "before", "on", "after", "val"])
    sc["provs"][0].append([0, k])
    ret = rng.choice([False, None, 0, True]) if g == "unless" else rng.choice([None, 42, {"s": 1}])
    sc["tbl"].append([0, 0, k, [], {"a": [], "r": ret}])
    for t in sc["trans"]:
        if t["ev"] == [e]:
            if g == "unless":
                t["cond"].append([[0, k], False])
            else:
                t[g].append([0, k])
    sc["decor_evobj"] = [e, g, [0, k]]
    return sc


def add_any(sc, rng):
    """one transition from every non-final state to X under a fresh event, last in every state's list;
    its guards (cond and unless), validators and actions are those of an existing transition"""
    x = rng.randrange(sc["n"])
    e = sc["ne"]
    sc["ne"] += 1
    kw = {"int": False, "val": [], "cond": [], "before": [], "on": [], "after": []}
    donors = [t for t in sc["trans"] if not t["int"]]
    if donors and rng.random() < 0.7:
        d = rng.choice(donors)
        kw = {"int": False, "val": list(d["val"]), "cond": sorted([[nm, (not b) if rng.random() < 0.5 else b] for nm, b in d["cond"]], key=lambda nb: not nb[1]),
              "before": list(d["before"]), "on": list(d["on"]), "after": list(d["after"])}
    sc["any"] = {"tgt": x, "ev": e}
    evs = [e]
    alias = rng.random() < 0.35
    if alias:
        # the same from_.any() declaration under a second event name (`abort = cancel`): written explicitly, the
        # transitions are bound to both events
        evs.append(sc["ne"])
        sc["ne"] += 1
        sc["any"]["ev2"] = evs[1]
    for s in range(sc["n"]):
        if s not in sc["finals"]:
            sc["trans"].append(dict(copy.deepcopy(kw), s=s, t=x, ev=list(evs)))
    # and the history uses the event(s)
    for op in sc["ops"]:
        if op[0] == "send" and rng.random() < 0.3:
            op[1] = rng.choice(evs)
    if alias:
        return sc
    if rng.random() < 0.4:
        # a second from_.any() part under the same event (another target, its own arguments)
        y = rng.randrange(sc["n"])
        kw2 = {"int": False, "val": [], "cond": [], "before": [], "on": [], "after": []}
        if donors and rng.random() < 0.6:
            d2 = rng.choice(donors)
            kw2 = {"int": False, "val": list(d2["val"]), "cond": sorted([[nm, b] for nm, b in d2["cond"]], key=lambda nb: not nb[1]),
                   "before": list(d2["before"]), "on": list(d2["on"]), "after": list(d2["after"])}
        sc["any"]["tgt2"] = y
        for s in range(sc["n"]):
            if s not in sc["finals"]:
                sc["trans"].append(dict(copy.deepcopy(kw2), s=s, t=y, ev=[e]))
    return sc


def render_any(sc, inherit=False):
    """the same machine with the last group of transitions written as X.from_.any(...); optionally
    with the whole body in a base class the machine class inherits from"""
    n_any = sum(1 for s in range(sc["n"]) if s not in sc["finals"])
    v = copy.deepcopy(sc)
    if sc["any"].get("tgt2") is not None:
        v["trans"] = sc["trans"][:-2 * n_any]
        v["any_render"] = copy.deepcopy(sc["trans"][-n_any - 1])
        v["any_render2"] = copy.deepcopy(sc["trans"][-1])
    else:
        v["trans"] = sc["trans"][:-n_any]
        v["any_render"] = copy.deepcopy(sc["trans"][-1])
    v["inherit"] = inherit
    return eng.render_source(v)


def split_point(sc):
    """smallest k such that the first k transitions already reach every state from the initial one (the
    base class must be a valid machine on its own); None when no proper prefix does"""
    for k in range(1, len(sc["trans"])):
        reach, frontier = {sc["initial"]}, [sc["initial"]]
        while frontier:
            x = frontier.pop()
            for t in sc["trans"][:k]:
                if t["s"] == x and t["t"] not in reach:
                    reach.add(t["t"])
                    frontier.append(t["t"])
        if len(reach) == sc["n"]:
            return k
    return None


def render_split(sc, k):
    """class Base declares the states and the first k transitions; class M(Base) adds the others,
    written from the inherited states (`Base.s1.to(Base.s2, event=...)`), extending inherited events"""
    v = copy.deepcopy(sc)
    v["trans"] = sc["trans"][:k]
    v["also_guards"] = sc["trans"][k:]
    v.update(evstyle="str", tstyle="to", itself=False, sstyle="attr", inherit=False, mixed=None, decor=None)
    src = eng.render_source(v)
    head, rest = src.split("class M(StateMachine):", 1)
    body, tail = rest.split("\nclass Mdl", 1)
    lines = body.split("\n")
    # the class body: states / transitions first, then the methods; the methods move to the subclass
    first_def = next((i for i, ln in enumerate(lines) if ln.lstrip().startswith(("def ", "async def "))), len(lines))
    decl, meths = lines[:first_def], lines[first_def:]

    objs = {tuple(nm) for nm in sc.get("callable_names", [])}
    pre_ = "EXT." if sc.get("bound_refs") else ""

    def nl(l):
        return "[" + ", ".join((pre_ + "fn_" + eng.cbname(nm)) if tuple(nm) in objs else repr(eng.cbname(nm)) for nm in l) + "]"
    extra = []
    for t in sc["trans"][k:]:
        kw = ["event=" + repr(" ".join(eng.evname(e) for e in t["ev"]))]
        if t["int"]:
            kw.append("internal=True")
        if t["val"]:
            kw.append(f"validators={nl(t['val'])}")
        conds = [nm for nm, b_ in t["cond"] if b_]
        unl = [nm for nm, b_ in t["cond"] if not b_]
        if conds:
            kw.append(f"cond={nl(conds)}")
        if unl:
            kw.append(f"unless={nl(unl)}")
        for key in ("before", "on", "after"):
            if t[key]:
                kw.append(f"{key}={nl(t[key])}")
        extra.append(f"    Base.s{t['s']}.to(Base.s{t['t']}, {', '.join(kw)})")
    return (head + "class Base(StateMachine):" + "\n".join(decl) + "\n\nclass M(Base):\n" + "\n".join(extra) + "\n"
            + "\n".join(meths) + "\nclass Mdl" + tail)


def run_source(sc, src):
    """eng.run_impl with a given source text"""
    orig = eng.render_source
    eng.render_source = lambda _sc: src
    try:
        return eng.run_impl(sc)
    finally:
        eng.render_source = orig


def strip(obs):
    return [{k: v for k, v in o.items() if k in ("out", "field", "allowed", "log")} for o in obs]


def canon_obs(obs):
    """observations with the in-group order of callbacks and allowed_events as sets"""
    out = []
    for o in obs:
        log = [tuple(e[:11]) if e[0] == "c" else ("n", str(e[1:])) for e in o["log"]]
        out.append((str(o["out"]), o["field"], None if o["allowed"] is None else tuple(sorted(o["allowed"])), tuple(sorted(map(str, log)))))
    return out


def run_impl(sc):
    bad = []
    with warnings.catch_warnings():
        warnings.simplefilter("ignore")
        base = eng.run_impl(sc)
        ns = {}
        exec(compile(eng.render_source(sc), "<c15>", "exec"), ns)  # noqa: S102
        sbase = structure(ns["M"])
        nstyles = 0
        for v in sc["variants"]:
            vv = dict(sc, **v)
            try:
                ns2 = {}
                exec(compile(eng.render_source(vv), "<c15v>", "exec"), ns2)  # noqa: S102
                dev = (v.get("decor") or {}).get("event")
                sv = structure(ns2["M"], rename=({f"_{eng.evname(dev[0])}_": eng.cbname(dev[1]),
                                                  f"_impl_{eng.evname(dev[0])}_": eng.cbname(dev[1])} if dev else None))
                ov = eng.run_impl(vv)
            except Exception as e:  # noqa: BLE001
                bad.append([v, f"{type(e).__name__}: {e}"])
                continue
            nstyles += 1
            if sv != sbase:
                diff = [k for k in sbase if sbase[k] != sv[k]]
                bad.append([v, "structure differs: " + ", ".join(diff)])
            elif canon_obs(ov) != canon_obs(base):
                bad.append([v, "behaviour differs"])
        for inh in ((False, True) if sc.get("any") else ()):
            label = "from_.any()" + (" in an inherited base class" if inh else "")
            try:
                src = render_any(sc, inherit=inh)
                ns3 = {}
                exec(compile(src, "<c15a>", "exec"), ns3)  # noqa: S102
                sa = structure(ns3["M"])
                oa = run_source(sc, src)
                nstyles += 1
                sb_ = sbase
                if sc["any"].get("ev2") is not None:
                    sa, sb_ = per_event(sa), per_event(sbase)
                if sa != sb_:
                    bad.append([label, "structure differs: " + ", ".join(k for k in sb_ if sb_[k] != sa[k])])
                elif canon_obs(oa) != canon_obs(base):
                    bad.append([label, "behaviour differs"])
            except Exception as e:  # noqa: BLE001
                bad.append([label, f"{type(e).__name__}: {e}"])
        k = split_point(sc) if sc.get("split") else None
        if k is not None:
            label = f"base class with the first {k} transitions, subclass adding the others"
            try:
                src = render_split(sc, k)
                ns4 = {}
                exec(compile(src, "<c15s>", "exec"), ns4)  # noqa: S102
                ss = structure(ns4["M"])
                os_ = run_source(sc, src)
                nstyles += 1
                if ss != sbase:
                    bad.append([label, "structure differs: " + ", ".join(k_ for k_ in sbase if sbase[k_] != ss[k_])])
                elif canon_obs(os_) != canon_obs(base):
                    bad.append([label, "behaviour differs"])
            except Exception as e:  # noqa: BLE001
                bad.append([label, f"{type(e).__name__}: {e}"])
    return {"base": base, "bad": bad[:6], "styles": nstyles}


def coq_case(sc, obs):
    return "[(wfc " + eng.coq_case(sc, obs["base"]) + "); " + f"(asserted {0 if obs['bad'] else 1})]"


def render_source(sc):
    return eng.render_source(sc) + "\n# other renderings compared: " + str(sc.get("variants"))[:1500] + ("\n# + from_.any() rendering" if sc.get("any") else "") + "\n"


def generate(rng, tier):
    n = 260 if tier == "quick" else 5000
    scs = []
    for _ in range(n):
        sc = enggen.gen_scenario(rng, K)
        sc["async"] = []
        for t in sc["trans"]:
            t["ev"] = sorted(t["ev"])
        if rng.random() < 0.4:
            add_any(sc, rng)
        if rng.random() < 0.5:
            inject_decor_event(sc, rng)       # after add_any: the fresh action belongs to that event alone
        if rng.random() < 0.5:
            inject_decor_evobj(sc, rng)
        sc["split"] = not sc.get("any") and not sc.get("values") and rng.random() < 0.5
        sc["variants"] = [{k: v[k] for k in ("evstyle", "tstyle", "itself", "sstyle", "inherit", "mixed", "decor", "enum_kind", "events_first", "ior") + (("trans", "regrouped") if v.get("regrouped") else ()) if k in v}
                          for v in variants(sc, rng, 10 if tier == "quick" else 24)]
        scs.append(sc)
    return scs, [("abstract machines, each rendered as baseline (event=\"a b\", a.to(b), State attributes) and in up to "
                  "%d random combinations of event style x transition style x itself() x state declaration style x "
                  "inheritance, 40%% of them also with a from_.any() rendering" % (10 if tier == "quick" else 24), n)]


def nontrivial(sc, obs):
    """Non-trivial: >= 5 other renderings were built and compared, and the machine has a state with
    >= 2 outgoing transitions (so that their order matters)."""
    outs = {}
    for t in sc["trans"]:
        outs[t["s"]] = outs.get(t["s"], 0) + 1
    return obs.get("styles", 0) >= 5 and any(v >= 2 for v in outs.values())


def extra_coverage(scs, obs, verdicts):
    import collections
    h = collections.Counter()
    for s in scs:
        for v in s.get("variants", []):
            h["ev=" + v["evstyle"]] += 1
            h["tr=" + v["tstyle"]] += 1
            h["states=" + v["sstyle"]] += 1
            h["inherit" if v["inherit"] else "direct"] += 1
            if v.get("decor"):
                h["decorator callbacks"] += 1 if v["decor"]["cbs"] else 0
                h["decorator-declared event"] += 1 if v["decor"]["event"] else 0
        if s.get("any"):
            h["from_.any()"] += 1
    return {"renderings_compared": sum(o.get("styles", 0) for o in obs if isinstance(o, dict)),
            "style_histogram": dict(sorted(h.items())), "out_of_scope": sum(1 for v in verdicts if v == 9)}


CLASSIFIERS = {}


def explain(sc, obs):
    return {"style_disagreements": obs["bad"], "baseline_vs_model": engfam.explain_for("C17")(sc, obs["base"])}
