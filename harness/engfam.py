"""Engine-family property modules (C01 C02 C03 C04 C11 C14): the shared driver of eng.py with a
per-property generator emphasis, verdict projection (computed in Coq, Run/EngineRun.v) and
non-triviality rule."""
import copy

from . import eng, enggen

RUN_MODULE = "Run.EngineRun"
CHUNK = 100
run_impl = eng.run_impl
coq_case = eng.coq_case
render_source = eng.render_source
DRIVER_ERR = eng.DRIVER_ERR


def cands(sc, state, e):
    return [t for t in sc["trans"] if t["s"] == state and e in t["ev"]]


def walk_sends(sc, obs):
    """yield (op, state_before, observation) for the send operations of a run"""
    prev = sc.get("field0")
    for op, o in zip(sc["ops"], obs):
        if op[0] == "send":
            yield op, prev, o
        prev = o["field"]


# ------------------------------------------------------------------ C01
K_C01 = dict(cb_writes=0.04, extend_inherit=0.25, late_allow=0.2, bound_refs=0.5, attr_unknown=0.5, user_tna=0.3, any_shared_event=0.5, exc_classes=0.2, wrapped_coros=0.5, falsy_model=0.08, stop_iter=0.25, any_group=0.2, callable_refs=0.15, state_decor=0.2, decor=0.5, multi_cand=0.75, guards=0.7, guard_max=3, validators=0.3, raises=0.08, sends=0.04,
             unknown_ev=0.15, allow=0.4, rtc_false=0.2, p_async=0.3, cbs=0.15, extra_trans=(1, 8),
             ops=(3, 16), p_write=0.05)


def post_C01(sc, rng):
    """sometimes one event is declared with an explicit Event(...) object and a guard / callback is attached to
    all its transitions through that object (`@go.unless def f`)"""
    if sc.get("any_group") or sc.get("async") or rng.random() >= 0.2:
        return sc
    from . import c15
    c15.inject_decor_evobj(sc, rng)
    if sc.get("decor_evobj"):
        for t in sc["trans"]:
            t["ev"] = sorted(t["ev"])        # (the order of the Event attributes)
        sc["evstyle"], sc["mixed"] = "event_ctor", None
        sc["decor"] = {"cbs": [], "event": None, "evobj": sc["decor_evobj"]}
    return sc


def nontrivial_C01(sc, obs):
    """Non-trivial: some event had >= 2 candidate transitions in the current state and either fired
    none of them, or did not fire the first one (an earlier candidate was rejected by its guards)."""
    for op, st, o in walk_sends(sc, obs):
        if st is None or st == 900:
            continue
        cs = cands(sc, st, op[1])
        if len(cs) >= 2 and (o["out"][0] == "x" or o["field"] != cs[0]["t"] or o["field"] == st):
            return True
    return False


# ------------------------------------------------------------------ C02
K_C02 = dict(cb_writes=0.06, extend_inherit=0.2, bound_refs=0.5, eqgroups=0.3, alias_inherit=0.4, inst_hooks=0.15, wrapped_coros=0.4, falsy_model=0.08, any_group=0.15, callable_refs=0.2, state_decor=0.3, decor=0.6, yields=0.3, cbs=0.6, cb_max=3, conv=0.35, listeners=(0, 3), multi_prov=0.3, self_loop=0.3, internal=0.5,
             multi_event=0.5, p_async=0.3, sends=0.03, guards=0.4, validators=0.3, share_groups=0.3,
             ops=(2, 10))


def extra_C02(rng, tier):
    """a transition reachable by two events fires once through one of them; then a listener with
    event-named callbacks for both events is attached with add_listener; then the transition fires
    through the other event, and through the first again (event-named callbacks run for their own
    event only, whenever they were attached)"""
    n = 160 if tier == "quick" else 2500
    out = []
    while len(out) < n:
        sc = enggen.gen_scenario(rng, dict(K_C02, p_async=0.0, multi_event=0.3, styles=("str", "list"), evmax=4, extend_inherit=0.0))
        if sc["ne"] < 2:
            continue
        ea, eb = sorted(rng.sample(range(sc["ne"]), 2))
        s0 = sc["initial"]
        donor = rng.choice(sc["trans"])
        first = {"s": s0, "t": s0, "ev": [ea, eb], "int": rng.random() < 0.4, "val": [], "cond": [],
                 "before": list(donor["before"]) if rng.random() < 0.5 else [], "on": list(donor["on"]) if rng.random() < 0.5 else [],
                 "after": list(donor["after"]) if rng.random() < 0.5 else []}
        sc["trans"].insert(0, first)
        if sc.get("mixed") is not None:
            sc["mixed"].insert(0, 0)
        p = len(sc["provs"])
        names = [[kind, e] for e in (ea, eb) for kind in (4, 5, 6) if rng.random() < 0.8] or [[4, ea]]
        sc["provs"].append(names)
        for kind, e in names:
            sc["tbl"].append([p, kind, e, [], {"a": [], "r": rng.choice([None, 1, {"s": 1}])}])
        sc["late"] = [p]
        sc["field0"], sc["start"] = None, None
        tag = 40
        ops = [["construct"], ["send", ea, tag], ["add", [p]], ["send", eb, tag + 1], ["send", ea, tag + 2]]
        if rng.random() < 0.5:
            ops[1], ops[3] = ["send", eb, tag], ["send", ea, tag + 1]
        ops += [op for op in sc["ops"][1:] if op[0] == "send"][:3]
        sc["ops"] = ops
        out.append(sc)
    # small machines, mostly self / internal transitions with one callback per group, whose callbacks often
    # assign the state themselves through the low-level API (both engines): the engine's own assignment
    # after `on` wins, so enter / after see the target and the machine ends in it
    m = 320 if tier == "quick" else 4000
    for _ in range(m):
        out.append(enggen.gen_scenario(rng, dict(K_C02, nmax=3, evmax=2, extra_trans=(0, 3), self_loop=0.8, internal=0.85, cbs=0.8,
                                                 cb_max=1, conv=0.08, listeners=(0, 1), multi_prov=0.0, guards=0.1, validators=0.1,
                                                 cb_writes=0.3, p_async=0.6, sends=0.0, ops=(4, 10), scripts=(1, 3), yields=0.0,
                                                 unknown_ev=0.0, extend_inherit=0.0, alias_inherit=0.0)))
    return out, ("two-event transitions fired once, then a listener with event-named callbacks attached with "
                 "add_listener, then fired through the other event and the first again (%d); small machines with "
                 "self / internal transitions whose callbacks assign the state through the low-level API (%d)" % (n, m))


def post_C02(sc, rng):
    """sometimes one event is called `transition`: the generic hooks before_transition / on_transition /
    after_transition then have the names of that event's own hooks; they stay generic (they run for every event)"""
    if sc["ne"] > 7 or rng.random() >= 0.15 or sc.get("any_group") or sc.get("alias_inherit"):
        return sc
    evs = sorted({e for t in sc["trans"] for e in t["ev"]})
    shared = sorted({e for t in sc["trans"] if len(t["ev"]) > 1 for e in t["ev"]})
    e0 = rng.choice(shared or evs)

    def rn(e):
        return 7 if e == e0 else e
    for t in sc["trans"]:
        t["ev"] = [rn(e) for e in t["ev"]]
        if sc.get("evstyle") in ("assign", "obj"):
            t["ev"] = sorted(t["ev"])
    if sc.get("evstyle") == "obj":
        sc["evstyle"] = "str"
    sc["ops"] = [([op[0], rn(op[1])] + op[2:]) if op[0] == "send" else op for op in sc["ops"]]
    # (after_transition is left out: for this event the library registers the event-named reading of that name
    # first, for before_ / on_ the generic one - a clash the user created, either reading fits the property)
    drop = {(4, e0), (5, e0), (6, e0), (3, 0)}
    sc["provs"] = [[nm for nm in prov if tuple(nm) not in drop] for prov in sc["provs"]]
    sc["tbl"] = [row for row in sc["tbl"] if (row[1], row[2]) not in drop]
    sc["async"] = [x for x in sc.get("async", []) if (x[1], x[2]) not in drop]
    sc["wrapped_coros"] = [x for x in sc.get("wrapped_coros", []) if (x[1], x[2]) not in drop]
    sc["inst_hooks"] = [x for x in sc.get("inst_hooks", []) if tuple(x) not in drop]
    for row in sc["tbl"]:
        for scr in row[3]:
            scr["a"] = [([a_[0], rn(a_[1])] + a_[2:]) if a_[0] == "send" else a_ for a_ in scr["a"]]
    if sc.get("decor") and sc["decor"].get("event") and sc["decor"]["event"][0] == e0:
        sc["decor"]["event"] = None
    return sc


def nontrivial_C02(sc, obs):
    """Non-trivial: some operation ran >= 4 callbacks coming from >= 2 providers (machine / model /
    listeners) - i.e. several groups and providers are populated at once."""
    for o in obs:
        cs = [e for e in o["log"] if e[0] == "c"]
        if len(cs) >= 4 and len({e[1] for e in cs}) >= 2:
            return True
    return False


# ------------------------------------------------------------------ C03
K_C03 = dict(cb_writes=0.04, explicit_activate=0.5, positional_ctor=0.3, exc_classes=0.2, odd_values=0.15, p_clone=0.1, hosted=0.15, sends=0.4, send_budget=12, rtc_false=0.3, cbs=0.6, conv=0.2, p_async=0.25, guards=0.2,
             ops=(1, 6), multi_prov=0.1, scripts=(1, 4))


def chain_scenario(length, rtc, fan=1, group="after"):
    """A self-triggering chain: every processed `go` sends `go` again, `length` times."""
    nm = [0, 1]
    t = {"s": 0, "t": 0, "ev": [0], "int": False, "val": [], "cond": [], "before": [], "on": [], "after": []}
    t[group] = [nm]
    scripts = [{"a": [["send", 0, 100 + (i % 50)]] * fan, "r": i % 5} for i in range(length)]
    return {"evstyle": "str", "values": None, "async": [], "n": 1, "initial": 0, "finals": [], "ne": 1,
            "trans": [t], "states": [{"enter": [], "exit": []}], "provs": [[nm], []], "start": None,
            "rtc": rtc, "allow": False, "field0": None,
            "tbl": [[0, 0, 1, scripts, {"a": [], "r": None}]], "ops": [["construct"], ["send", 0, 1], ["send", 0, 2]]}


def extra_C03(rng, tier):
    out = [chain_scenario(60, True), chain_scenario(25, False), chain_scenario(8, True, fan=2),
           chain_scenario(40, True, group="before"), chain_scenario(20, False, group="on")]
    out.append(chain_scenario(300 if tier == "quick" else 1500, True))
    # one callback sending far more than a thousand events: all of them wait their turn, none is dropped
    wide = chain_scenario(1, True, fan=1100 if tier == "quick" else 2600)
    wide["ops"] = [["construct"], ["send", 0, 1]]
    out.append(wide)
    return out, ("self-triggering chains (length 8..%d, rtc on/off, fan-out 1..2) and one callback sending %d events"
                 % (300 if tier == "quick" else 1500, 1100 if tier == "quick" else 2600))


def nontrivial_C03(sc, obs):
    """Non-trivial: >= 2 nested sends were made, from >= 2 different callback invocations."""
    n, senders = 0, set()
    for o in obs:
        last = None
        for e in o["log"]:
            if e[0] == "c":
                last = (e[1], e[2], e[3], id(e))
            else:
                n += 1
                senders.add(last)
    return n >= 2 and len(senders) >= 2


# ------------------------------------------------------------------ C04
K_C04 = dict(self_loop=0.4, internal=0.7, cb_writes=0.04, late_allow=0.3, exc_classes=0.45, attr_guards=0.2, prop_guards=0.8, user_tna=0.35, base_exc=0.3, stop_iter=0.35, hosted=0.1, sends=0.3, send_budget=8, cbs=0.5, conv=0.2, validators=0.3, guards=0.4, rtc_false=0.25,
             p_async=0.3, ops=(2, 5), raises=0.0, guard_raise=0.0, multi_prov=0.15)


def fault_variants(sc, obs, rng, limit):
    """One variant per callback invocation position of the fault-free run: that invocation raises.
    Then 1-3 further sends are appended so that the next events are observed."""
    pos = []
    count = {}
    for k, o in enumerate(obs):
        for e in o["log"]:
            if e[0] == "c":
                key = (e[1], e[2], e[3])
                n = count.get(key, 0)
                count[key] = n + 1
                pos.append((key, n, k))
    if len(pos) > limit:
        pos = rng.sample(pos, limit)
    out = []
    for key, n, k in pos:
        v = copy.deepcopy(sc)
        row = None
        for r in v["tbl"]:
            if (r[0], r[1], r[2]) == key:
                row = r
        if row is None:
            row = [key[0], key[1], key[2], [], {"a": [], "r": None}]
            v["tbl"].append(row)
        while len(row[3]) <= n:
            row[3].append(copy.deepcopy(row[4]))
        row[3][n] = {"a": [["raise", 1 + (n % 9)]], "r": row[3][n]["r"]}
        v["ops"] = v["ops"] + [["send", rng.randrange(v["ne"]), 50 + i] for i in range(rng.randint(1, 3))]
        v["fault"] = [list(key), n, k]
        out.append(v)
    return out


def nontrivial_C04(sc, obs):
    """Non-trivial: a callback raised while at least one further event was still waiting in the queue
    (a nested send had been made before the failure in the same operation)."""
    for o in obs:
        if o["out"][0] == "x" and o["out"][1][0] == "u" and any(e[0] == "n" for e in o["log"]):
            return True
    return False


# ------------------------------------------------------------------ C11
K_C11 = dict(explicit_activate=0.3, positional_ctor=0.2, id_values=0.4, recording_model=0.3, falsy_model=0.12, hosted=0.1, p_clone=0.12, resume=0.45, start=0.3, p_activate=0.2, p_construct=0.2, p_async=0.35, sends=0.15, cbs=0.5,
             conv=0.3, p_values=0.3, ops=(1, 8), rtc_false=0.2, decoys=0.35)


def nontrivial_C11(sc, obs):
    """Non-trivial: the history constructs a machine over a model that already stores a state
    (resume), or re-activates / re-constructs after at least one event."""
    if sc.get("field0") is not None:
        return True
    return any(op[0] in ("activate", "construct") for op in sc["ops"][2:])


# ------------------------------------------------------------------ C14
K_C14 = dict(sig_attr=0.2, extend_inherit=0.3, bound_refs=0.5, eqgroups=0.5, inst_hooks=0.1, odd_values=0.15, p_clone=0.06, wrapped_coros=0.4, any_group=0.2, callable_refs=0.2, state_decor=0.2, decor=0.6, cbs=0.8, cb_max=3, conv=0.35, ret_none=0.25, self_loop=0.3, internal=0.5, multi_event=0.5,
             p_async=0.3, sends=0.05, guards=0.3, listeners=(0, 2), multi_prov=0.3, allow=0.4, share_groups=0.3)


def nontrivial_C14(sc, obs):
    """Non-trivial: some call returned a list (>= 2 before/on results) or a single falsy non-None
    value - the cases where the unwrap rule and the value kind interact."""
    for o in obs:
        if o["out"][0] == "v":
            v = o["out"][1]
            if isinstance(v, dict) and "l" in v and len(v["l"]) >= 2:
                return True
            if v is False or v == 0 or v in ({"s": 0}, {"l": []}, {"t": []}, {"o": 2, "b": False}):
                return True
    return False


SPECS = {
    "C01": dict(knobs=K_C01, nontrivial=nontrivial_C01, n=(2200, 40000), post=post_C01,
                probes=[{"probe": "expr_candidates", "seed": 1000 + k_, "rtc": k_ % 2 == 0} for k_ in range(12)]),
    "C02": dict(knobs=K_C02, nontrivial=nontrivial_C02, n=(1800, 30000), late=0.3, overlap=True, extra=extra_C02, post=post_C02,
                probes=[{"probe": "same_class_listener", "with_listener": True},
                        {"probe": "same_class_listener", "with_listener": False}]),
    "C03": dict(knobs=K_C03, nontrivial=nontrivial_C03, n=(1800, 20000), extra=extra_C03,
                probes=[{"probe": "add_listener_in_callback", "attach": True},
                        {"probe": "add_listener_in_callback", "attach": False}]),
    "C04": dict(knobs=K_C04, nontrivial=nontrivial_C04, n=(260, 5000), faults=True,
                probes=[{"probe": "expr_guard_raises", "exc": e_, "kind": k_, "text": t_, "rtc": r_}
                        for e_ in ("type", "value", "runtime", "attr", "key")
                        for k_, t_, r_ in (("cond", "remaining > 0", True), ("unless", "remaining == 0", True),
                                           ("cond", "limit >= remaining", False), ("cond", "not remaining", True),
                                           ("cond", "limit and remaining", True), ("unless", "remaining != limit", False))]),
    "C11": dict(knobs=K_C11, nontrivial=nontrivial_C11, n=(2000, 30000), probes=[{"probe": "threads_overlap"}, {"probe": "mixin_cooperative_init", "bind": True},
                        {"probe": "mixin_cooperative_init", "bind": False}]
                + [{"probe": "default_model_custom_field", "field": f_, "start": s_, "coro": c_}
                   for f_ in ("phase", "state") for s_ in (False, True) for c_ in (False, True)]),
    "C14": dict(knobs=K_C14, nontrivial=nontrivial_C14, n=(2000, 30000), post=post_C02,
                probes=[{"probe": "event_name_callback", "rtc": True}, {"probe": "event_name_callback", "rtc": False},
                        {"probe": "state_named_like_callback", "values": True},
                        {"probe": "state_named_like_callback", "values": False}]),
}


# ------------------------------------------------------------------ probes (fixed-shape machines, direct assertions)
def probe_same_class_listener(sc):
    """C02: callbacks given by decorators / function objects run exactly once per transition, also when
    another instance of the same machine class is attached as a listener (it provides the same functions);
    callbacks given by name run once per provider"""
    import warnings
    from statemachine import State, StateMachine
    calls = []

    def plain_on(machine):
        calls.append(("fn_on", id(machine)))

    class W(StateMachine):
        a = State(initial=True)
        b = State()
        go = a.to(b, on=plain_on, after="named_after") | b.to(a, on=plain_on, after="named_after")

        @go.before
        def dec_before(self):
            calls.append(("dec_before", id(self)))

        @b.enter
        def dec_enter(self):
            calls.append(("dec_enter", id(self)))

        @a.exit
        def dec_exit(self):
            calls.append(("dec_exit", id(self)))

        def named_after(self):
            calls.append(("named_after", id(self)))
    bad = []
    with warnings.catch_warnings():
        warnings.simplefilter("ignore")
        other = W()
        sm = W(listeners=[other] if sc["with_listener"] else [])
        del calls[:]
        sm.send("go")
    names = [c[0] for c in calls]
    for nm in ("dec_before", "dec_enter", "dec_exit", "fn_on"):
        if names.count(nm) != 1:
            bad.append(f"{nm} ran {names.count(nm)} time(s) in one transition")
    want_named = 2 if sc["with_listener"] else 1
    if names.count("named_after") != want_named:
        bad.append(f"named_after ran {names.count('named_after')} time(s), expected once per provider ({want_named})")
    if other.current_state.id != "a":
        bad.append("the listener instance moved")
    return {"probe": sc["probe"], "bad": bad}


def probe_event_name_callback(sc):
    """C14: a before / on callback given as the NAME OF AN EVENT fires that event; under rtc=False the
    nested event runs at once and its result is this callback's contribution, under run-to-completion the
    nested event is queued and the contribution is None"""
    import warnings
    from statemachine import State, StateMachine

    class Chain(StateMachine):
        idle = State(initial=True)
        busy = State()
        start = idle.to(busy, before="prepare", on="audit")
        audit = busy.to.itself(internal=True) | idle.to.itself(internal=True)
        stop = busy.to(idle)

        def prepare(self):
            return "prepared"

        def before_audit(self):
            return "auditing"

        def on_audit(self):
            return 1
    bad = []
    with warnings.catch_warnings():
        warnings.simplefilter("ignore")
        sm = Chain(rtc=sc["rtc"])
        r = sm.send("start")
    want = ["prepared", None] if sc["rtc"] else ["prepared", ["auditing", 1]]
    if r != want:
        bad.append(f"start returned {r!r}, expected {want!r}")
    if sm.current_state.id != "busy":
        bad.append("state " + sm.current_state.id)
    return {"probe": sc["probe"], "bad": bad}


def probe_threads_overlap(sc):
    """C11 / C16: two machines with coroutine callbacks, each created and activated from synchronous code in
    a thread of its own, overlapping in time: both enter their initial state"""
    import asyncio
    import threading
    import warnings
    from statemachine import State, StateMachine
    in_a, go_a = threading.Event(), threading.Event()
    errors, entered = [], []

    class A(StateMachine):
        s = State(initial=True)
        t = State()
        go = s.to(t) | t.to(s)

        async def on_enter_s(self):
            in_a.set()
            for _ in range(200):
                if go_a.is_set():
                    break
                await asyncio.sleep(0.005)
            entered.append("A")

    class B(StateMachine):
        s = State(initial=True)
        t = State()
        go = s.to(t) | t.to(s)

        async def on_enter_s(self):
            entered.append("B")

    def run_a():
        try:
            with warnings.catch_warnings():
                warnings.simplefilter("ignore")
                a = A()
                a.activate_initial_state()
                entered.append(("A-state", a.current_state.id))
        except Exception as e:  # noqa: BLE001
            errors.append("A: " + repr(e))

    def run_b():
        try:
            with warnings.catch_warnings():
                warnings.simplefilter("ignore")
                b_ = B()
                b_.activate_initial_state()
                b_.send("go")
                entered.append(("B-state", b_.current_state.id))
        except Exception as e:  # noqa: BLE001
            errors.append("B: " + repr(e))
    ta = threading.Thread(target=run_a, daemon=True)
    ta.start()
    in_a.wait(5)
    tb = threading.Thread(target=run_b, daemon=True)
    tb.start()
    tb.join(5)
    go_a.set()
    ta.join(5)
    for th in (ta, tb):       # close the loops the library cached for these threads
        pass
    bad = list(errors)
    if ("B-state", "t") not in entered:
        bad.append(f"machine B did not run normally while A was inside its activation: {entered}")
    if ("A-state", "s") not in entered:
        bad.append(f"machine A did not finish its activation: {entered}")
    return {"probe": sc["probe"], "bad": bad}


def probe_add_listener_in_callback(sc):
    """C03: a callback attaches a listener to its own machine (add_listener may be called at any time) and then
    sends an event: that send is queued like any other nested send - it returns None, the running transition
    finishes first, then the queued event is processed"""
    import warnings
    from statemachine import State, StateMachine
    order, seen = [], []

    class Obs:
        def after_transition(self, event):
            seen.append(str(event))

    class M(StateMachine):
        a = State(initial=True)
        b = State()
        c = State(final=True)
        go = a.to(b)
        nxt = b.to(c)

        def on_go(self):
            if sc["attach"]:
                self.add_listener(Obs())
            r = self.send("nxt")
            order.append(("nested", r, self.current_state.id))
            return "go-result"

        def on_enter_c(self):
            order.append("enter_c")

        def after_go(self):
            order.append("after_go")
    bad = []
    with warnings.catch_warnings():
        warnings.simplefilter("ignore")
        sm = M()
        try:
            r = sm.send("go")
        except Exception as e:  # noqa: BLE001
            r = repr(e)
    if r != "go-result":
        bad.append(f"send('go') gave {r!r}")
    if order != [("nested", None, "a"), "after_go", "enter_c"]:
        bad.append(f"order {order!r}")
    if sm.current_state.id != "c":
        bad.append("state " + sm.current_state.id)
    if sc["attach"] and "nxt" not in seen:
        bad.append(f"the new listener saw {seen!r}")
    return {"probe": sc["probe"], "bad": bad}


def probe_expr_guard_raises(sc):
    """C04: a guard written as an expression whose operand raises: the exception reaches the caller whatever its
    class, the state is the source, the fallback transition of the same event is not tried, and the next event
    is processed normally"""
    import warnings
    from statemachine import State, StateMachine
    excs = {"type": TypeError, "value": ValueError, "runtime": RuntimeError, "attr": AttributeError, "key": KeyError}
    exc = excs[sc["exc"]]
    calls = []

    class M(StateMachine):
        a = State(initial=True)
        b = State()
        c = State()
        go = a.to(b, **{sc["kind"]: sc["text"]}) | a.to(c)
        back = b.to(a) | c.to(a) | a.to.itself()

        def remaining(self):
            calls.append("remaining")
            raise exc("boom")

        def limit(self):
            return 3

        def on_enter_c(self):
            calls.append("fallback taken")
    bad = []
    with warnings.catch_warnings():
        warnings.simplefilter("ignore")
        sm = M(rtc=sc["rtc"])
        try:
            sm.send("go")
            bad.append("send('go') returned although the guard raised " + exc.__name__)
        except exc:
            pass
        except Exception as e:  # noqa: BLE001
            bad.append("send('go') raised " + repr(e))
        if sm.current_state.id != "a":
            bad.append("state " + sm.current_state.id)
        if "fallback taken" in calls:
            bad.append("the next candidate was tried after the failure")
        try:
            sm.send("back")
        except Exception as e:  # noqa: BLE001
            bad.append("next event: " + repr(e))
    return {"probe": sc["probe"], "bad": bad}


def probe_mixin_cooperative_init(sc):
    """C11: a MachineMixin model whose persisted state is stored by ANOTHER base class (listed after the mixin,
    reached through the cooperative super().__init__ chain): the machine is created over a model that already
    holds its state - no callback runs, the state is kept; without a stored state the initial state is entered
    exactly once"""
    import warnings
    import statemachine.registry as _reg
    from statemachine import State, StateMachine
    from statemachine.mixins import MachineMixin
    _reg._initialized = True        # no Django project in this process: skip its module autodiscovery
    calls = []
    with warnings.catch_warnings():
        warnings.simplefilter("ignore")

        class OrderFlow(StateMachine):
            new = State(initial=True)
            paid = State()
            shipped = State(final=True)
            pay = new.to(paid)
            ship = paid.to(shipped)

            def on_enter_new(self):
                calls.append("machine:enter_new")

            def on_enter_paid(self):
                calls.append("machine:enter_paid")
        OrderFlow.__module__ = "scn_probe_c11"
        _reg.register(OrderFlow)

        class Record:
            def __init__(self, state=None, **kw):
                super().__init__(**kw)
                self.state = state

        class Order(MachineMixin, Record):
            state_machine_name = "scn_probe_c11.OrderFlow"
            bind_events_as_methods = sc["bind"]

            def on_enter_new(self):
                calls.append("model:enter_new")
        bad = []
        o = Order(state="paid")
        if calls:
            bad.append(f"callbacks ran although the model already holds a state: {calls}")
        if o.state != "paid" or o.statemachine.current_state.id != "paid":
            bad.append(f"stored state not kept: {o.state!r}")
        del calls[:]
        o.statemachine.send("ship")
        if o.state != "shipped":
            bad.append("the resumed machine did not go on from the stored state")
        del calls[:]
        fresh = Order()
        if sorted(calls) != ["machine:enter_new", "model:enter_new"] or fresh.state != "new":
            bad.append(f"fresh model: {calls}, state {fresh.state!r}")
    return {"probe": sc["probe"], "bad": bad}


def probe_state_named_like_callback(sc):
    """C14: a state whose id is spelled like a callback name of an event (state `on_hold`, event `hold`; state
    `before_ship`, event `ship`) is a state, not a callback: the events return None (nothing else contributes),
    with default and with explicit state values"""
    import warnings
    from statemachine import State, StateMachine
    kw = (lambda v: {"value": v}) if sc["values"] else (lambda v: {})

    class M(StateMachine):
        idle = State(initial=True, **kw(1))
        on_hold = State(**kw(2))
        before_ship = State(**kw(3))
        hold = idle.to(on_hold)
        ship = on_hold.to(before_ship)
        back = before_ship.to(idle)
    bad = []
    with warnings.catch_warnings():
        warnings.simplefilter("ignore")
        sm = M()
        for ev, want in (("hold", "on_hold"), ("ship", "before_ship"), ("back", "idle")):
            try:
                r = sm.send(ev)
            except Exception as e:  # noqa: BLE001
                bad.append(f"{ev}: {e!r}")
                break
            if r is not None:
                bad.append(f"{ev} returned {r!r}")
            if sm.current_state.id != want:
                bad.append(f"{ev}: state {sm.current_state.id}")
    return {"probe": sc["probe"], "bad": bad}


def probe_default_model_custom_field(sc):
    """C11: a machine created without a model of the user's (the library supplies one) and with a state_field of
    the user's choosing is activated like any other: the initial state (or start_value's) is entered once and
    stored under that field name"""
    import warnings
    from statemachine import State, StateMachine
    calls = []
    body = {"a": State(initial=True), "b": State()}
    body["go"] = body["a"].to(body["b"]) | body["b"].to(body["a"])
    if sc["coro"]:
        async def on_enter_a(self):
            calls.append("enter_a")
    else:
        def on_enter_a(self):
            calls.append("enter_a")
    body["on_enter_a"] = on_enter_a
    bad = []
    with warnings.catch_warnings():
        warnings.simplefilter("ignore")
        M = type(StateMachine)("ProbeDefaultModel" + ("Coro" if sc["coro"] else ""), (StateMachine,), body)
        try:
            kw = {"state_field": sc["field"]}
            if sc["start"]:
                kw["start_value"] = "b"
            sm = M(**kw)
            if sc["coro"]:
                sm.activate_initial_state()
            want = "b" if sc["start"] else "a"
            if sm.current_state.id != want or getattr(sm.model, sc["field"], None) != want:
                bad.append(f"state {sm.current_state.id}, model.{sc['field']} = {getattr(sm.model, sc['field'], None)!r}")
            if calls != ([] if sc["start"] else ["enter_a"]):
                bad.append(f"enter callbacks: {calls}")
            sm.send("go")
            if getattr(sm.model, sc["field"], None) != ("a" if sc["start"] else "b"):
                bad.append("the next event did not store its target")
        except Exception as e:  # noqa: BLE001
            bad.append(repr(e))
    return {"probe": sc["probe"], "bad": bad}


def probe_expr_candidates(sc):
    """C01: two candidates for one event, the first guarded by a boolean / comparison expression over attributes of
    the model (chains of three and more operands, `or` / `and` used for their VALUE inside a comparison): the first
    candidate fires exactly when Python evaluates the expression truthy, else the second one; rtc on/off"""
    import random
    import warnings
    from statemachine import State, StateMachine
    rng = random.Random(sc["seed"])
    names = ["qa", "qb", "qc", "qd"]
    shapes = ["{0} and {1} and {2}", "{0} or {1} or {2}", "{0} or {1} and {2} or {3}", "{0} and {1} or {2} and {3}",
              "({0} or {1}) > {2}", "({0} and {1}) == {2}", "({0} or {1}) >= ({2} or {3})", "not {0} or {1} and {2}",
              "{0} and {1} and {2} and {3}", "{0} or {1} or {2} or {3}", "({0} or {1} or {2}) < {3}"]
    bad = []
    for _ in range(6):
        text = rng.choice(shapes).format(*rng.sample(names, 4))
        lib_text = text
        if rng.random() < 0.3:
            lib_text = text.replace(" and ", " ^ ")          # the library's own spelling of `and`

        class M(StateMachine):
            s0 = State(initial=True)
            s1 = State()
            s2 = State()
            go = s0.to(s1, cond=lib_text) | s0.to(s2)
            back = s1.to(s0) | s2.to(s0)

        class Mdl:
            state = None
        with warnings.catch_warnings():
            warnings.simplefilter("ignore")
            mdl = Mdl()
            for n_ in names:
                setattr(mdl, n_, 0)
            try:
                sm = M(mdl, rtc=sc["rtc"])
            except Exception as e:  # noqa: BLE001
                bad.append(f"{lib_text!r}: {e!r}")
                continue
            for _v in range(8):
                vals = {n_: rng.choice([0, 1, 2, 3, True, False]) for n_ in names}
                for n_, v_ in vals.items():
                    setattr(mdl, n_, v_)
                want = "s1" if eval(text, {"__builtins__": {}}, dict(vals)) else "s2"  # noqa: S307
                try:
                    sm.send("go")
                    got = sm.current_state.id
                    sm.send("back")
                except Exception as e:  # noqa: BLE001
                    got = repr(e)
                if got != want:
                    bad.append(f"cond={lib_text!r} with {vals}: reached {got}, expected {want}")
                    break
    return {"probe": sc["probe"], "bad": bad[:3]}


PROBES = {"expr_candidates": probe_expr_candidates, "default_model_custom_field": probe_default_model_custom_field, "state_named_like_callback": probe_state_named_like_callback, "mixin_cooperative_init": probe_mixin_cooperative_init, "expr_guard_raises": probe_expr_guard_raises, "add_listener_in_callback": probe_add_listener_in_callback, "same_class_listener": probe_same_class_listener, "event_name_callback": probe_event_name_callback,
          "threads_overlap": probe_threads_overlap}


def install(prop, g):
    """Populate module namespace `g` (harness/cXX.py) with what harness.main.generic expects."""
    spec = SPECS[prop]

    def generate(rng, tier):
        n = spec["n"][0 if tier == "quick" else 1]
        parts = []
        scs = []
        if "extra" in spec:
            ex, what = spec["extra"](rng, tier)
            scs += ex
            parts.append((what, len(ex)))
        if spec.get("probes"):
            scs += [dict(p_) for p_ in spec["probes"]]
            parts.append(("probes (fixed machines, direct assertions): " + ", ".join(sorted({p_["probe"] for p_ in spec["probes"]})),
                          len(spec["probes"])))
        base = [enggen.gen_scenario(rng, spec["knobs"]) for _ in range(n)]
        if spec.get("post"):
            base = [spec["post"](b_, rng) for b_ in base]
        if spec.get("late"):
            # some listeners are attached later with add_listener, at random points of the history
            from . import c12
            base = [c12.add_late(b_, rng) if (rng.random() < spec["late"] and not b_.get("async")) else b_ for b_ in base]
        if spec.get("faults"):
            parts.append(("fault-free base scenarios (seeded random machines with nested sends)", len(base)))
            nvar = 0
            for b_ in base:
                obs = eng.run_impl(b_)
                vs = fault_variants(b_, obs, rng, 14 if tier == "quick" else 40)
                nvar += len(vs)
                scs += vs
            scs += base
            parts.append(("fault variants: one per callback invocation position of each base run "
                          "(that invocation raises), followed by 1-3 further sends", nvar))
        else:
            scs += base
            parts.append(("seeded random machines x histories, knobs " +
                          ", ".join(f"{k}={v}" for k, v in sorted(spec["knobs"].items())), len(base)))
        return scs, parts

    def extra_coverage(scs, obs, verdicts):
        import collections
        h = collections.Counter()
        for s in scs:
            if s.get("probe"):
                h["probe: " + s["probe"]] += 1
                continue
            h["async" if s.get("async") else "sync"] += 1
            h["rtc" if s.get("rtc", True) else "non-rtc"] += 1
            h["style=" + s.get("evstyle", "str")] += 1
            h["states=%d" % s["n"]] += 1
            h["ops=%d" % min(len(s["ops"]), 12)] += 1
            for feat, on in (("hosted in another machine's callback", s.get("hosted")),
                             ("callbacks given as function objects", s.get("callable_names")),
                             ("callbacks given by @transition decorators", (s.get("decor") or {}).get("cbs")),
                             ("callbacks given by @state decorators", s.get("state_decor")),
                             ("from_.any() group", s.get("any_group")),
                             ("history continues on a deep copy", any(op[0] == "clone" for op in s["ops"])),
                             ("late listeners", s.get("late")), ("falsy model", s.get("falsy_model")),
                             ("StopIteration-class exceptions", s.get("stop_iter")),
                             ("decoy instances", s.get("decoys")),
                             ("a callback assigns the state itself (low-level API)",
                              any(a_[0] == "write" for row in s["tbl"] for s_ in row[3] for a_ in s_["a"]))):
                if on:
                    h["feature: " + feat] += 1
        oh = collections.Counter()
        for ob in obs:
            if isinstance(ob, dict):
                continue
            for o in ob:
                oh["ok" if o["out"][0] == "v" else "exn:" + o["out"][1][0]] += 1
        return {"scenario_histogram": dict(sorted(h.items())),
                "operation_outcome_histogram": dict(oh),
                "out_of_scope": sum(1 for v in verdicts if v == 9)}

    def run_impl_(sc):
        if sc.get("probe"):
            return PROBES[sc["probe"]](sc)
        return run_impl(sc)

    def render_source_(sc):
        if sc.get("probe"):
            return "# probe " + sc["probe"] + ": " + " ".join((PROBES[sc["probe"]].__doc__ or "").split()) + f"\n# parameters: {sc}\n"
        return render_source(sc)

    def nontrivial_(sc, obs):
        return False if sc.get("probe") else spec["nontrivial"](sc, obs)

    def coq_case_checked(sc, obs):
        if sc.get("probe"):
            return f"(asserted {0 if obs['bad'] else 1})"
        return "(wfc " + coq_case_inner(sc, obs) + ")"

    def coq_case_inner(sc, obs):
        # a callback that began while a callback of another group was still running (a coroutine that
        # really suspends): the groups are not sequential - reported through an impossible observation
        if spec.get("overlap") and obs and obs[0].get("overlap"):
            return eng.coq_case(sc, [])
        return eng.coq_case(sc, obs)

    g.update(PROP=prop, RUN_MODULE=RUN_MODULE, VERDICT_FN=f"(any_of verdict_{prop})", CHUNK=CHUNK,
             run_impl=run_impl_, coq_case=coq_case_checked, render_source=render_source_, DRIVER_ERR=DRIVER_ERR,
             generate=generate, nontrivial=nontrivial_, extra_coverage=extra_coverage,
             CLASSIFIERS={}, explain=explain_for(prop))


def explain_for(prop):
    def explain(sc, obs):
        if sc.get("probe"):
            return obs
        from . import core
        out = core.coq_eval(RUN_MODULE, f"diag fl_{prop} " + eng.coq_case(sc, obs))
        return out[-6000:]
    return explain
