"""C17 - deepcopy / pickle clones are equivalent and independent.

A history is run on a machine; at a random point (also right after construction, i.e. before the
initial activation of an async machine) it is cloned with copy.deepcopy or a pickle round trip;
then original and clone are driven alternately with two different suffixes.  The original's whole
trace must equal the model of prefix ++ suffixA (the clone's activity must not show), the clone's
trace the model of prefix ++ [clone] ++ suffixB, where the model's clone operation rebuilds the
registry as __setstate__ does and keeps state, options, call history.  Also checked directly:
clone.model / listeners are new objects, options and custom attributes survive.
"""
import copy
import pickle
import sys
import types
import warnings

from . import eng, enggen, engfam

PROP = "C17"
RUN_MODULE = "Run.EngineRun"
VERDICT_FN = "(fun cs => fold_left (fun acc c => if Nat.eqb acc 0 then verdict_C17_any c else acc) cs 0)"
CHUNK = 60
DRIVER_ERR = {"A": eng.DRIVER_ERR, "B": eng.DRIVER_ERR, "bad": ["driver"]}
K = dict(attr_guards=0.3, cbs=0.5, conv=0.3, guards=0.4, validators=0.2, sends=0.12, raises=0.03, multi_event=0.3, listeners=(0, 2),
         multi_prov=0.25, p_async=0.3, rtc_false=0.2, allow=0.5, start=0.2, resume=0.15, p_values=0.2, ops=(0, 6),
         p_construct=0.0, p_activate=0.05, share_groups=0.0, falsy_machine=0.0)

MODNAME = "c17_scenario_module"


def d25_probe(sc):
    """`unless="blocked"` provided by the model (False) and by a listener attached later (True): the original
    refuses the event; its deep copy / pickle copy must refuse it too"""
    import copy
    import pickle
    from statemachine.exceptions import TransitionNotAllowed
    import harness.c17_d25_machine as mod

    def fires(sm):
        try:
            sm.send("open")
            return True
        except TransitionNotAllowed:
            return False
    bad = []
    with warnings.catch_warnings():
        warnings.simplefilter("ignore")
        sm = mod.Door(mod.Mdl())
        sm.add_listener(mod.Sensor())
        clone = copy.deepcopy(sm) if sc["how"] == "deepcopy" else pickle.loads(pickle.dumps(sm))
        r_orig, r_clone = fires(sm), fires(clone)
    if r_orig:
        bad.append("the original fired although the late listener is blocked")
    if r_clone != r_orig:
        bad.append(f"original fired={r_orig}, its {sc['how']} clone fired={r_clone}")
    return {"probe": "d25", "bad": bad}


def owner_probe(sc):
    """a model object that holds its own machine (`self.sm = Lamp(self)`), one event processed, is copied STARTING
    FROM THE MODEL (deepcopy / pickle): no callback runs while copying (the machine inside is rebuilt while the
    copied model is still empty - that is not a machine without a state), the copy holds the same state and its
    machine drives the copy; and a machine whose stored state was reset to None is copied: original and copy
    answer the next event alike"""
    import copy
    import pickle
    import harness.c17_owner_machine as mod

    def dup(x):
        return copy.deepcopy(x) if sc["how"] == "deepcopy" else pickle.loads(pickle.dumps(x))

    def outcome(sm):
        try:
            sm.send("toggle")
            return ("state", sm.model.state)
        except Exception as e:  # noqa: BLE001
            return ("raised", type(e).__name__)
    bad = []
    with warnings.catch_warnings():
        warnings.simplefilter("ignore")
        o = mod.Owner()
        o.sm.toggle()
        if sc["reset"]:
            o.state = None
            c = dup(o.sm)
            ra, rb = outcome(o.sm), outcome(c)
            if ra != rb:
                bad.append(f"stored state reset to None: the original answers {ra}, its copy {rb}")
        else:
            del mod.LOG[:]
            o2 = dup(o) if sc["start"] == "model" else dup(o.sm).model
            if mod.LOG:
                bad.append(f"callbacks ran while copying: {mod.LOG}")
            if o2.state != "on" or o2.sm.model is not o2 or o2.sm.current_state.id != "on":
                bad.append(f"copy: state {o2.state!r}, machine state {o2.sm.current_state.id}, model is copy: {o2.sm.model is o2}")
            del mod.LOG[:]
            ra, rb = outcome(o.sm), outcome(o2.sm)
            if ra != ("state", "off") or rb != ra or mod.LOG != ["enter_off", "enter_off"]:
                bad.append(f"next event: original {ra}, copy {rb}, callbacks {mod.LOG}")
    return {"probe": "owner", "bad": bad}


def run_impl(sc):
    if sc.get("probe") == "owner":
        return owner_probe(sc)
    if sc.get("probe") == "d25":
        return d25_probe(sc)
    if sc.get("probe") == "copy_attach":
        from . import c12
        return c12.copy_attach_probe(sc)
    return run_impl_(sc)


def run_impl_(sc):
    """returns {"A": observations of the original (prefix + suffixA), "B": prefix + clone + suffixB,
    "bad": direct assertion failures}"""
    R = eng.RUN = eng.Run(sc)
    R.tags = {}
    bad = []
    with warnings.catch_warnings():
        warnings.simplefilter("ignore")
        eng._clear_signature_cache()
        # pickle needs importable classes: the scenario source lives in a real module object
        mod = types.ModuleType(MODNAME)
        sys.modules[MODNAME] = mod
        # (late_allow: the machine is constructed with the opposite of allow_event_without_transition and the
        # public attribute is set to the scenario's value right afterwards)
        src = eng.render_source(dict(sc, allow=not sc.get("allow")) if sc.get("late_allow") else sc).replace("class M(StateMachine):", "class M(StateMachine):\n    custom_note = 'class-level'")
        exec(compile(src, "<c17>", "exec"), mod.__dict__)  # noqa: S102
        for name in ("M", "Mdl"):
            getattr(mod, name).__module__ = MODNAME
        for v in list(mod.__dict__.values()):
            if isinstance(v, type) and v.__name__.startswith("L"):
                v.__module__ = MODNAME
        R.cls = mod.M
        model = mod.Mdl()
        if sc.get("field0") is not None:
            model.state = eng.state_value(sc, sc["field0"])
        listeners = mod.LISTENERS

        def observe(sm, mdl, out):
            fv = getattr(mdl, "state", None)
            fst = R.cls.states_map.get(fv) if fv is not None else None
            field = None if fv is None else (eng.sidx(fst) if fst is not None else 900)
            allowed = None
            if sm is not None:
                try:
                    allowed = [eng.evidx(e) for e in sm.allowed_events]
                except Exception:  # noqa: BLE001
                    allowed = None
            elif field is not None and field != 900:
                allowed = []
                for t in fst.transitions:
                    for e in t.events:
                        if eng.evidx(e) not in allowed:
                            allowed.append(eng.evidx(e))
            eng._rank_depths(R.log)
            return {"out": out, "field": field, "allowed": allowed, "log": R.log}

        def do(sm, op):
            R.log = []
            try:
                if op[0] == "send" and sc.get("bound_model") and hasattr(sm.model, eng.evname(op[1])):
                    r = getattr(sm.model, eng.evname(op[1]))(tag=op[2])     # the trigger bound onto the (copied) model
                elif op[0] == "send":
                    r = sm.send(eng.evname(op[1]), tag=op[2])
                elif op[0] == "activate":
                    r = sm.activate_initial_state()
                elif op[0] == "write":
                    sm.current_state_value = eng.state_value(sc, op[1])
                    r = None
                elif op[0] == "add":
                    # (add_observer is the older name of add_listener)
                    (sm.add_observer if sc.get("observer_alias") else sm.add_listener)(*[mod.LATE[p] for p in op[1]])
                    for p in op[1]:
                        for p_, kind, k, _scripts, dflt in sc["tbl"]:
                            if p_ == p and kind == 0 and k >= 500:
                                setattr(mod.LATE[p], eng.cbname([kind, k]), eng.from_json(dflt["r"]))
                    r = None
                else:
                    raise ValueError(op)
                return ["v", eng.to_json(r)]
            except Exception as e:  # noqa: BLE001
                return ["x", eng.exn_json(e)]

        R.log = []
        try:
            sm = mod.construct(model, listeners)
            out = ["v", None]
        except Exception as e:  # noqa: BLE001
            sm, out = None, ["x", eng.exn_json(e)]
        def assign_attrs(machine, mdl, lsts):
            objs = {0: machine, 1: mdl}
            late_ = set(sc.get("late", []))
            objs.update({p: o for p, o in zip([q for q in range(2, len(sc["provs"])) if q not in late_], lsts)})
            for p, kind, k, _scripts, dflt in sc["tbl"]:
                if kind == 0 and k >= 500 and objs.get(p) is not None:
                    setattr(objs[p], eng.cbname([kind, k]), eng.from_json(dflt["r"]))
        if sm is not None:
            assign_attrs(sm, model, listeners)
            if sc.get("late_allow"):
                sm.allow_event_without_transition = bool(sc.get("allow"))
        pre = [observe(sm, model, out)]
        if sm is None:
            eng.RUN = None
            return {"A": pre, "B": pre, "bad": []}
        if sc.get("bound_model"):
            sm.bind_events_to(model)         # the model gets the triggers as attributes: copied with the machine
        sm.custom_attr = {"k": [1, 2]}
        sm._private_note = ["kept", 3]           # the user's own underscore attribute
        for op in sc["prefix"]:
            out = do(sm, op)
            pre.append(observe(sm, model, out))
        # ---- the copy
        R.log = []
        try:
            clone = sm
            gens = []
            for how in sc["how"].split("+"):           # a copy, a copy of the copy, ...
                clone = copy.deepcopy(clone) if how == "deepcopy" else pickle.loads(pickle.dumps(clone))
                gens.append(clone)
            out = ["v", None]
        except Exception as e:  # noqa: BLE001
            clone, out = None, ["x", eng.exn_json(e)]
        if clone is None:
            eng.RUN = None
            return {"A": pre, "B": pre + [{"out": out, "field": None, "allowed": None, "log": []}], "bad": ["copy failed"]}
        # counters of the driver are per machine: the clone starts from the original's call history
        R.tags[id(clone.model)] = 1
        for (tag, p, kind, k), n in list(R.count.items()):
            if tag == 0:
                R.count[(1, p, kind, k)] = n
        obs_b = pre + [observe(g, g.model, out) for g in gens]
        obs_a = list(pre)
        # ---- direct assertions on what the property names
        if clone.model is sm.model:
            bad.append("clone.model is original.model")
        if any(a is b_ for a in clone._listeners for b_ in sm._listeners):
            bad.append("listener object shared")
        if len(clone._listeners) != len(sm._listeners):
            bad.append("listeners lost")
        if clone.allow_event_without_transition != sm.allow_event_without_transition:
            bad.append("allow_event_without_transition not preserved")
        if clone._engine._rtc != sm._engine._rtc:
            bad.append("rtc not preserved")
        if clone.state_field != sm.state_field or clone.start_value != sm.start_value:
            bad.append("state_field / start_value not preserved")
        if getattr(clone, "custom_attr", None) != {"k": [1, 2]} or clone.custom_attr is sm.custom_attr:
            bad.append("custom attribute not copied")
        if getattr(clone, "_private_note", None) != ["kept", 3] or clone._private_note is sm._private_note:
            bad.append("private custom attribute not copied")
        for who, m in (("original", sm), ("clone", clone)):
            try:
                cur = m.current_state.id
            except Exception:  # noqa: BLE001 - no current state (async machine not activated yet)
                continue
            act = [st.id for st in m.states if getattr(m, st.id).is_active]
            if act != [cur]:
                bad.append(f"{who}: current state {cur}, states reporting is_active: {act}")
        if type(clone._engine) is not type(sm._engine):
            bad.append(f"engine kind differs: {type(sm._engine).__name__} -> {type(clone._engine).__name__}")
        # ---- diverging suffixes, alternately
        a_ops, b_ops = list(sc["suffixA"]), list(sc["suffixB"])
        while a_ops or b_ops:
            if a_ops:
                op = a_ops.pop(0)
                out = do(sm, op)
                obs_a.append(observe(sm, sm.model, out))
            if b_ops:
                op = b_ops.pop(0)
                out = do(clone, op)
                obs_b.append(observe(clone, clone.model, out))
    eng.RUN = None
    sys.modules.pop(MODNAME, None)
    return {"A": obs_a, "B": obs_b, "bad": bad}


def coq_case(sc, obs):
    if sc.get("probe"):
        return f"[(asserted {0 if obs['bad'] else 1})]"
    a = dict(sc, ops=[["construct"]] + sc["prefix"] + sc["suffixA"])
    b_ = dict(sc, ops=[["construct"]] + sc["prefix"] + [["clone"]] * len(sc["how"].split("+")) + sc["suffixB"])
    items = ["(wfc " + eng.coq_case(a, obs["A"]) + ")", "(wfc " + eng.coq_case(b_, obs["B"]) + ")",
             f"(asserted {0 if obs['bad'] else 1})"]
    return "[" + "; ".join(items) + "]"


def render_source(sc):
    if sc.get("probe") == "owner":
        return "# probe: " + " ".join(owner_probe.__doc__.split()) + f"\n# parameters: {sc}\n"
    if sc.get("probe") == "d25":
        return "# probe: " + " ".join(d25_probe.__doc__.split()) + f" ({sc['how']})\n"
    if sc.get("probe"):
        return "# probe: a listener attached to only one of a machine and its shallow / deep copy (see harness/c12.py)\n"
    return (eng.render_source(dict(sc, ops=[])) +
            f"\n# prefix={sc['prefix']}\n# copy with {sc['how']}\n# then alternately: original {sc['suffixA']} / clone {sc['suffixB']}\n")


def split_ops(rng, sc):
    ops = [op for op in sc["ops"][1:] if op[0] in ("send", "activate", "write", "add")]
    k = rng.randint(0, len(ops)) if rng.random() < 0.8 else 0
    sc["prefix"] = ops[:k] + [op for op in ops[k:] if op[0] == "add"]      # listeners are attached before the copy
    ne = sc["ne"]

    def suffix():
        return [["send", rng.randrange(ne + 1), 60 + i] if rng.random() < 0.9 else ["activate"]
                for i in range(rng.randint(1, 5))]
    sc["suffixA"], sc["suffixB"] = suffix(), suffix()
    sc["how"] = "+".join(rng.choice(["deepcopy", "pickle"]) for _ in range(rng.choice([1, 1, 1, 2, 2, 3])))
    sc["ops"] = [["construct"]] + sc["prefix"] + sc["suffixA"]
    return sc


def add_late(sc, rng, p_late=0.5):
    """some listeners are attached after construction, several with one add_listener call"""
    np_ = len(sc["provs"])
    coro = {p for p, _k, _n in (tuple(x) for x in sc.get("async", []))}
    late = []
    if rng.random() < p_late:
        for p in range(2, np_):
            only = any(nm[0] == 0 and not any(nm in sc["provs"][q] for q in range(np_) if q != p and q not in late)
                       for nm in sc["provs"][p])
            if not only and p not in coro and rng.random() < 0.8:      # (coroutine late listeners: see D11, C12)
                late.append(p)
    sc["late"] = sorted(late)
    if late:
        ops = sc["ops"]
        if rng.random() < 0.6:
            ops.insert(rng.randint(1, len(ops)), ["add", list(late)])
        else:
            for p in late:
                ops.insert(rng.randint(1, len(ops)), ["add", [p]])
    return sc


def generate(rng, tier):
    n = 1500 if tier == "quick" else 25000
    scs = []
    for _ in range(n):
        many = rng.random() < 0.3      # a share of machines with several listeners whose names others provide too
        sc = enggen.gen_scenario(rng, dict(K, listeners=(2, 4), multi_prov=0.6, conv=0.5) if many else K)
        sc["inst_attrs"] = rng.random() < 0.6
        add_late(sc, rng, 0.9 if many else 0.5)
        sc["observer_alias"] = rng.random() < 0.3
        sc["late_allow"] = rng.random() < 0.4 and eng.total_sends(sc) == 0     # (no event is processed by the constructor)
        sc["bound_model"] = rng.random() < 0.3
        sc["eq_machine"] = rng.random() < 0.25       # original and clone compare equal (and hash alike)
        # guards provided both by machine/model and by a listener regroup on the clone (D19): keep each
        # guard name within one of the two sides
        scs.append(split_ops(rng, sc))
    for k in range(12):
        scs.append({"probe": "copy_attach", "seed": rng.randrange(10 ** 6), "first": ["copy", "deepcopy"][k % 2],
                    "side": ["copy", "original"][(k // 2) % 2]})
    for k in range(4):
        scs.append({"probe": "copy_attach", "seed": rng.randrange(10 ** 6), "first": "copy", "side": "copy", "shared_list": True})
    scs.append({"probe": "d25", "how": "deepcopy"})
    scs.append({"probe": "d25", "how": "pickle"})
    for how in ("deepcopy", "pickle"):
        scs.append({"probe": "owner", "how": how, "start": "model", "reset": False})
        scs.append({"probe": "owner", "how": how, "start": "machine", "reset": False})
        scs.append({"probe": "owner", "how": how, "start": "machine", "reset": True})
    return scs, [("seeded random machines (sync / async, rtc on/off, allow flag, start_value, stored state, state "
                  "values, listeners) cloned with deepcopy or pickle after a random prefix (also before any event, "
                  "i.e. before the activation of an async machine), then original and clone driven alternately with "
                  "different suffixes", n)]


def nontrivial(sc, obs):
    """Non-trivial: the clone was taken after >= 1 event (or before activation of an async machine) and
    the two suffixes differ, with >= 1 callback running on the clone afterwards."""
    if sc.get("probe") or sc["suffixA"] == sc["suffixB"]:
        return False
    nb = sum(1 for o in obs["B"][len(sc["prefix"]) + 1 + len(sc["how"].split("+")):] for e in o["log"] if e[0] == "c")
    return nb >= 1 and (len(sc["prefix"]) >= 1 or bool(sc.get("async")))


def extra_coverage(scs, obs, verdicts):
    import collections
    h = collections.Counter()
    for s in scs:
        if s.get("probe"):
            h["probe: " + s["probe"]] += 1
            continue
        h["events driven through triggers bound onto the model"] += 1 if s.get("bound_model") else 0
        h[s["how"]] += 1
        h["late listeners"] += 1 if s.get("late") else 0
        h["async" if s.get("async") else "sync"] += 1
        h["rtc" if s.get("rtc", True) else "non-rtc"] += 1
        h["cloned before any event" if not s["prefix"] else "cloned after events"] += 1
    return {"scenario_histogram": dict(h), "out_of_scope": sum(1 for v in verdicts if v == 9)}


def d25(sc, v):
    return sc.get("probe") == "d25"


CLASSIFIERS = {"C17.clone_regroups_unless_providers": d25}


def explain(sc, obs):
    if sc.get("probe"):
        return obs
    a = dict(sc, ops=[["construct"]] + sc["prefix"] + sc["suffixA"])
    b_ = dict(sc, ops=[["construct"]] + sc["prefix"] + [["clone"]] * len(sc["how"].split("+")) + sc["suffixB"])
    from . import core
    return {"direct_assertions": obs["bad"],
            "original": core.coq_eval(RUN_MODULE, "diag fl_C17 " + eng.coq_case(a, obs["A"]))[-3000:],
            "clone": core.coq_eval(RUN_MODULE, "diag fl_C17 " + eng.coq_case(b_, obs["B"]))[-3000:]}
