"""C18 - the generated diagram is a faithful picture of the machine.

Engine-family machines (random states, finals, multi-event / self / internal transitions, guards)
are built; the real pydot graph is taken for the class and for an instance in every state the
history visits (and every state written directly), and its nodes / edges / attributes are compared
with the model (Impl/Diagram.v).
"""
import re
import warnings

from . import eng, enggen

PROP = "C18"
RUN_MODULE = "Run.C18Run"
CHUNK = 300
K = dict(extend_inherit=0.3, callable_refs=0.25, decor=0.5, state_decor=0.2, cbs=0.3, conv=0.1, guards=0.5, internal=0.7, self_loop=0.35, multi_event=0.5, final=0.3, sends=0.0,
         raises=0.0, p_async=0.0, rtc_false=0.0, allow=1.0, ops=(0, 4), falsy_machine=0.0, p_values=0.35,
         start=0.35, resume=0.0, p_write=0.0, p_construct=0.0, p_activate=0.0, styles=("str", "list", "obj", "assign"))


def node_name(n):
    return n.get_name().strip('"')


def parse_graph(graph, sc):
    nodes, edges = [], []
    for n in graph.get_nodes():
        name = node_name(n)
        if name in ("node", "edge", "graph"):
            continue
        label = (n.get("label") or "").strip('"')
        per = int(str(n.get("peripheries") or 1))
        hl = (n.get("fillcolor") == "turquoise") or (str(n.get("penwidth")) == "2")
        lines = []
        for ln in label.split("\n")[1:]:
            if ln.startswith("entry /") or ln.startswith("exit /"):
                continue
            for part in ln.split(", "):          # internal transitions are joined with ", "
                m = re.match(r"^([\w ]+?) / ", part + " ")
                if m:
                    lines.append([eng.evidx(x) for x in m.group(1).split(" ") if x])
        nodes.append([None if name == "i" else int(name[1:]), per, bool(hl), lines])
    for e in graph.get_edges():
        src, dst = e.get_source().strip('"'), e.get_destination().strip('"')
        label = (e.get("label") or "").strip('"')
        parts = label.split("\n")
        evs = [eng.evidx(x) for x in parts[0].split(" ") if x]
        gs = []
        if len(parts) > 1:
            for g in parts[1].strip("[]").split(", "):
                neg = g.startswith("!")
                name = g[1:] if neg else g
                name = name[3:] if name.startswith("fn_") else name      # a guard given as a function object
                name = name.lstrip("_")                                   # (some user names start with an underscore)
                gs.append([int(name[1:]), not neg])
        edges.append([None if src == "i" else int(src[1:]), None if dst == "i" else int(dst[1:]), evs, gs])
    # what gets drawn is the DOT text: every edge object must also be in it (an arrow per edge)
    if graph.to_string().count(" -> ") != len(graph.get_edges()):
        edges.append([None, None, [], []])         # (an edge no model graph has: reported as a difference)
    return nodes, edges


def id_probe(sc):
    """state ids that contain one another (paid / unpaid, s1 / s10, active / inactive): exactly the current state
    is highlighted, whichever it is"""
    from statemachine import State, StateMachine
    from statemachine.contrib.diagram import DotGraphMachine
    bad = []
    with warnings.catch_warnings():
        warnings.simplefilter("ignore")

        class M(StateMachine):
            paid = State(initial=True)
            unpaid = State()
            s1 = State()
            s10 = State()
            inactive = State()
            active = State()
            nxt = paid.to(unpaid) | unpaid.to(s1) | s1.to(s10) | s10.to(inactive) | inactive.to(active) | active.to(paid)
        sm = M()
        for _ in range(7):
            g = DotGraphMachine(sm)()
            hl = sorted(node_name(n) for n in g.get_nodes()
                        if n.get("fillcolor") == "turquoise" or str(n.get("penwidth")) == "2")
            if hl != [sm.current_state.id]:
                bad.append(f"current state {sm.current_state.id}, highlighted {hl}")
            sm.send("nxt")
    return {"probe": "ids", "bad": bad}


def run_impl(sc):
    if sc.get("probe") == "ids":
        return id_probe(sc)
    from statemachine.contrib.diagram import DotGraphMachine
    eng.RUN = R = eng.Run(sc)
    ns = {}
    out = []
    with warnings.catch_warnings():
        warnings.simplefilter("ignore")
        eng._clear_signature_cache()
        src = eng.render_source(sc)
        if sc.get("extend_event") is not None and "class M(Base):" in src:
            # the base class is drawn (e.g. for the documentation) BEFORE the subclass that gives every inherited
            # transition one more event is defined
            head, tail = src.split("class M(Base):", 1)
            exec(compile(head, "<c18>", "exec"), ns)  # noqa: S102
            DotGraphMachine(ns["Base"])()
            exec(compile("class M(Base):" + tail, "<c18>", "exec"), ns)  # noqa: S102
        else:
            exec(compile(src, "<c18>", "exec"), ns)  # noqa: S102
        R.cls = ns["M"]
        nodes, edges = parse_graph(DotGraphMachine(ns["M"])(), sc)
        out.append({"cur": None, "nodes": nodes, "edges": edges})
        sm = ns["construct"](ns["Mdl"](), ns["LISTENERS"])
        visited = set()
        helper = DotGraphMachine(sm)          # one helper object reused while the machine moves on
        # right after construction (possibly with a start_value naming another state than the initial one)
        first = sc["start"] if sc.get("start") is not None else sc["initial"]
        nodes, edges = parse_graph(helper(), sc)
        out.append({"cur": first, "nodes": nodes, "edges": edges})
        if sc.get("late_guard_listener"):
            # a listener attached later that has an attribute for every guard name: the picture of the declared
            # machine does not change
            obj = type("LateGuards", (), {eng.cbname(list(nm)): True for nm in eng.guard_names(sc)})()
            sm.add_listener(obj)
        for k, s in enumerate(sc["visit"]):
            if k % 4 in (2, 3):
                sm.model.state = eng.state_value(sc, s)      # the state changes behind the machine's back (e.g. reloaded)
            else:
                sm.current_state_value = eng.state_value(sc, s)
            nodes, edges = parse_graph(helper() if k % 2 == 0 else sm._graph(), sc)
            out.append({"cur": s, "nodes": nodes, "edges": edges})
            visited.add(s)
    eng.RUN = None
    return out


DRIVER_ERR = []


def b(x):
    return "true" if x else "false"


def opt(x):
    return "None" if x is None else f"(Some {x})"


def lst(l):
    return "[" + "; ".join(map(str, l)) + "]"


def cq_machine(sc):
    ts = []
    for t in sc["trans"]:
        gs = "[" + "; ".join(f"({nm[1]}, {b(v)})" for nm, v in t["cond"]) + "]"
        ts.append(f"mkt {t['s']} {t['t']} {lst(t['ev'])} {b(t['int'])} {gs}")
    fin = "[" + "; ".join(b(i in sc["finals"]) for i in range(sc["n"])) + "]"
    return f"(mkm {fin} {sc['initial']} [{'; '.join(ts)}])"


def coq_cases(sc, obs):
    m = cq_machine(sc)
    out = []
    for o in obs:
        ns = "[" + "; ".join(f"({opt(n[0])}, {n[1]}, {b(n[2])}, [{'; '.join(lst(x) for x in n[3])}])" for n in o["nodes"]) + "]"
        es = "[" + "; ".join(f"({opt(e[0])}, {opt(e[1])}, {lst(e[2])}, [{'; '.join(f'({g[0]}, {b(g[1])})' for g in e[3])}])"
                              for e in o["edges"]) + "]"
        out.append(f"({m}, {opt(o['cur'])}, {ns}, {es})")
    return out


def coq_case(sc, obs):
    if sc.get("probe"):
        # a direct assertion: nothing to compare when it held, an impossible picture otherwise
        return "[]" if not obs["bad"] else "[((mkm [false] 0 []), None, [((Some 5), 1, false, [])], [])]"
    # one scenario = class graph + one graph per visited state: folded into one verdict in Coq
    cs = coq_cases(sc, obs)
    if not cs:
        return "[]"
    return "[" + "; ".join(cs) + "]"


CASE_TYPE = "list case"
VERDICT_FN = "(fun cs => fold_left (fun acc c => if Nat.eqb acc 0 then verdict c else acc) cs 0)"


def _dups(sc, rng):
    if sc["n"] >= 2 and sc.get("sstyle", "attr") == "attr" and rng.random() < 0.3:
        sc["dup_names"] = sorted(rng.sample(range(sc["n"]), 2))
    return sc


def generate(rng, tier):
    n = 1200 if tier == "quick" else 20000
    scs = []
    for _ in range(n):
        sc = enggen.gen_scenario(rng, K)
        sc["async"] = []
        states = list(range(sc["n"]))
        rng.shuffle(states)
        sc["visit"] = states[:rng.randint(1, sc["n"])]
        if rng.random() < 0.5:
            sc["visit"] = sc["visit"] + [rng.choice(states) for _ in range(rng.randint(1, 3))]      # revisits
        _dups(sc, rng)
        sc["late_guard_listener"] = rng.random() < 0.4
        scs.append(sc)
    scs.insert(0, {"probe": "ids"})
    return scs, [("seeded random machine classes (finals, multi-event, self, internal transitions, cond / unless "
                  "guards, four declaration styles): the class graph and the instance graph in 1..all of its "
                  "states", n)]


def nontrivial(sc, obs):
    """Non-trivial: the machine has >= 2 states, an internal transition or a final state, and the
    instance graph was taken in a state other than the initial one."""
    if sc.get("probe"):
        return False
    return (sc["n"] >= 2 and (any(t["int"] for t in sc["trans"]) or bool(sc["finals"]))
            and any(s != sc["initial"] for s in sc["visit"]))


def render_source(sc):
    if sc.get("probe"):
        return "# probe: " + " ".join(id_probe.__doc__.split()) + "\n"
    return eng.render_source(sc) + f"\n# instance graphs taken in states {sc['visit']}\n"


CLASSIFIERS = {}
