"""Shared machinery of the checks: proof build, Coq case evaluation, evidence, findings, verdict.

Run through /verif/check, which sets PYTHONPATH=/repo:/verif PYTHONHASHSEED=0 and uses /venv/bin/python.
"""
import fcntl
import hashlib
import json
import os
import re
import subprocess
import sys
import time
from concurrent.futures import ThreadPoolExecutor

VERIF = os.path.dirname(os.path.dirname(os.path.abspath(__file__)))
COQ = os.path.join(VERIF, "coq")
OUT = os.path.join(VERIF, "out")
EVID = os.path.join(VERIF, "evidence")
REPO = os.environ.get("PYSM_REPO", "/repo")

FORBIDDEN = re.compile(
    r"\b(Admitted|admit|Axiom|Axioms|Parameter|Parameters|Conjecture|Conjectures|Hypothesis|Variable)\b"
    r"|Unset\s+Guard|bypass_check|type-in-type|impredicative-set|Admit\s+Obligations|native_compute"
)

TRUSTED_BASE = [
    "Coq 8.16.1 kernel (coqc) and its vm_compute virtual machine; no native_compute",
    "axioms: none declared; every theorem in Properties/ prints 'Closed under the global context'",
    "no translator, no extraction: the hand-written Gallina model is tied to /repo by the "
    "differential correspondence run of this check (generators, Python drivers, canonicalisation, "
    "parser of the verdict digits printed by coqc)",
    "modelled, not verified: all of /repo; Python runtime semantics the library relies on",
]


def log(*a):
    print(*a, file=sys.stderr, flush=True)


def ensure_dirs():
    os.makedirs(OUT, exist_ok=True)
    os.makedirs(EVID, exist_ok=True)


class BuildLock:
    def __enter__(self):
        ensure_dirs()
        self.f = open(os.path.join(OUT, ".build.lock"), "w")
        fcntl.flock(self.f, fcntl.LOCK_EX)
        return self

    def __exit__(self, *a):
        fcntl.flock(self.f, fcntl.LOCK_UN)
        self.f.close()


def sh(cmd, timeout=900, cwd=None):
    p = subprocess.run(cmd, shell=True, cwd=cwd, stdout=subprocess.PIPE, stderr=subprocess.STDOUT,
                       timeout=timeout, text=True)
    return p.returncode, p.stdout


def hygiene():
    """grep the development for anything that would weaken the kernel's guarantee."""
    bad = []
    for root, _, files in os.walk(os.path.join(COQ, "theories")):
        for fn in files:
            if not fn.endswith(".v"):
                continue
            path = os.path.join(root, fn)
            txt = open(path).read()
            # strip comments (non-nested is enough for our sources; nested handled by loop)
            prev = None
            while prev != txt:
                prev = txt
                txt = re.sub(r"\(\*[^*(]*(?:\*(?!\))[^*(]*|\((?!\*)[^*(]*)*\*\)", " ", txt)
            # Variables/Hypotheses are allowed inside Sections only
            depth = 0
            for ln, line in enumerate(txt.split("\n"), 1):
                if re.match(r"\s*Section\b", line):
                    depth += 1
                if re.match(r"\s*End\b", line) and depth > 0:
                    depth -= 1
                for m in FORBIDDEN.finditer(line):
                    w = m.group(0)
                    if w in ("Variable", "Hypothesis") and depth > 0:
                        continue
                    bad.append(f"{os.path.relpath(path, VERIF)}:{ln}: {w}")
    return bad


def build_proofs(prop):
    """Full .vo build (incremental), then re-check Properties/<prop>.v alone to read Print Assumptions.

    Returns dict(ok, obligations, discharged, theorems, assumptions, log)."""
    with BuildLock():
        t0 = time.time()
        rc, out = sh("coq_makefile -f _CoqProject -o Makefile >/dev/null 2>&1; "
                     "timeout 1500 make -j16 2>&1 | tail -40", cwd=COQ, timeout=1600)
        build_ok = rc == 0 and "Error" not in out
        pfile = os.path.join(COQ, "theories", "Properties", f"{prop}.v")
        res = dict(ok=False, obligations=0, discharged=0, theorems=[], assumptions=[], log=out[-3000:],
                   build_s=round(time.time() - t0, 1))
        if not os.path.exists(pfile):
            res["log"] += f"\nmissing {pfile}"
            return res
        src = open(pfile).read()
        theorems = re.findall(r"^\s*(?:Theorem|Lemma|Corollary)\s+(\w+)", src, re.M)
        res["theorems"] = theorems
        res["obligations"] = len(theorems)
        # statements-only discipline: every proof in Properties/ is `exact <lemma>.`
        proofs = re.findall(r"Proof\.(.*?)Qed\.", src, re.S)
        # (Examples may use vm_compute; Theorems must be `exact`)
        bad = hygiene()
        if bad:
            res["log"] += "\nhygiene: " + "; ".join(bad[:10])
            return res
        if not build_ok:
            return res
        # re-run coqc on a scratch copy to capture Print Assumptions
        scratch = os.path.join(OUT, f"Assumptions_{prop}.v")
        open(scratch, "w").write(src)
        rc, out2 = sh(f"timeout 600 coqc -Q {COQ}/theories PySM {scratch}", cwd=OUT, timeout=700)
        closed = out2.count("Closed under the global context")
        axioms = re.findall(r"Axioms:\s*(.*?)(?=\n\S|\Z)", out2, re.S)
        res["assumptions"] = [a.strip() for a in axioms]
        if rc != 0:
            res["log"] += "\n" + out2[-2000:]
            return res
        n_print = len(re.findall(r"Print Assumptions", src))
        if n_print < len(theorems):
            res["log"] += f"\nonly {n_print} Print Assumptions for {len(theorems)} theorems"
            return res
        if axioms:
            res["log"] += "\naxioms used: " + " | ".join(res["assumptions"])
            return res
        res["discharged"] = min(closed, len(theorems))
        res["ok"] = res["discharged"] == res["obligations"] and res["obligations"] > 0
        return res


def coq_literal_list(items):
    return "[" + "; ".join(items) + "]"


def run_coq_cases(prop, run_module, case_terms, chunk=400, verdict_fn="verdict", tag="cases", extra="", case_type=None):
    """Evaluate `map verdict [cases]` inside coqc with vm_compute; returns list of ints (one per case).

    Coq itself computes the verdict digit for each case; only digits are parsed."""
    ensure_dirs()
    files = []
    for k in range(0, len(case_terms), chunk):
        part = case_terms[k:k + chunk]
        name = f"{tag}_{prop}_{os.getpid()}_{k // chunk}"
        path = os.path.join(OUT, name + ".v")
        with open(path, "w") as f:
            f.write("From Coq Require Import List ZArith String.\nImport ListNotations.\n")
            f.write(f"From PySM Require Import {run_module}.\n{extra}\n")
            f.write("Local Open Scope nat_scope.\n")
            # (with the type of a case given, empty lists inside a chunk never depend on their neighbours to be typed)
            f.write(f"Definition cases{(' : list (' + case_type + ')') if case_type else ''} := [\n" + ";\n".join(part) + "\n].\n")
            f.write(f"Eval vm_compute in (List.map {verdict_fn} cases).\n")
        files.append((path, len(part)))

    def one(item):
        path, n = item
        rc, out = sh(f"ulimit -s unlimited 2>/dev/null; timeout 600 coqc -Q {COQ}/theories PySM {path}",
                     cwd=OUT, timeout=700)
        if rc != 0:
            raise RuntimeError(f"coqc failed on {path}:\n{out[-3000:]}")
        m = re.search(r"=\s*\[(.*?)\]\s*:\s*list", out, re.S)
        if not m:
            raise RuntimeError(f"cannot parse coqc output for {path}:\n{out[-2000:]}")
        body = m.group(1).strip()
        digs = [int(x) for x in re.findall(r"\d+", body)] if body else []
        if len(digs) != n:
            raise RuntimeError(f"{path}: expected {n} verdicts, got {len(digs)}")
        for ext in (".v", ".vo", ".glob", ".vok", ".vos"):
            try:
                os.remove(path[:-2] + ext)
            except OSError:
                pass
        try:
            os.remove(os.path.join(os.path.dirname(path), "." + os.path.basename(path)[:-2] + ".aux"))
        except OSError:
            pass
        return digs

    verdicts = []
    with ThreadPoolExecutor(max_workers=16) as ex:
        for digs in ex.map(one, files):
            verdicts.extend(digs)
    return verdicts


def coq_eval(run_module, term, extra=""):
    """Evaluate one term (for replay/diagnostics) and return Coq's printed text."""
    ensure_dirs()
    name = f"eval_{os.getpid()}_{abs(hash(term)) % 10**8}"
    path = os.path.join(OUT, name + ".v")
    with open(path, "w") as f:
        f.write("From Coq Require Import List ZArith String.\nImport ListNotations.\n")
        f.write(f"From PySM Require Import {run_module}.\n{extra}\nLocal Open Scope nat_scope.\n")
        f.write(f"Eval vm_compute in ({term}).\n")
    rc, out = sh(f"timeout 300 coqc -Q {COQ}/theories PySM {path}", cwd=OUT, timeout=400)
    for ext in (".v", ".vo", ".glob", ".vok", ".vos"):
        try:
            os.remove(path[:-2] + ext)
        except OSError:
            pass
    return out


def load_findings():
    p = os.path.join(VERIF, "known_findings.json")
    if not os.path.exists(p):
        return []
    return json.load(open(p))["findings"]


def scen_hash(s):
    return hashlib.sha1(json.dumps(s, sort_keys=True, default=str).encode()).hexdigest()[:12]


def write_replay(prop, payload):
    ensure_dirs()
    h = scen_hash(payload)
    path = os.path.join(OUT, f"replay_{prop}_{h}.json")
    with open(path, "w") as f:
        json.dump(payload, f, indent=1, default=str)
    return path


def write_evidence(prop, tier, seed, coverage, wall_s, violations, assumptions=None):
    ensure_dirs()
    ev = {
        "property_id": prop,
        "tier": tier,
        "seed": seed,
        "level": "proof",
        "coverage": coverage,
        "assumptions": assumptions or [],
        "wall_s": round(wall_s, 2),
        "violations": violations,
    }
    tmp = os.path.join(EVID, f".{prop}.json.tmp")
    with open(tmp, "w") as f:
        json.dump(ev, f, indent=1, default=str)
    os.replace(tmp, os.path.join(EVID, f"{prop}.json"))


def finish(prop, tier, seed, t0, proof, coverage, violations, known_lines, assumptions=None):
    """violations: list of (replay_path, suffix). Prints lines, writes evidence, returns exit code."""
    cov = dict(coverage)
    cov.update(
        obligations=proof["obligations"],
        discharged=proof["discharged"],
        checker_cmd="cd /verif/coq && coq_makefile -f _CoqProject -o Makefile && make -j16  "
                    f"# then coqc Properties/{prop}.v: Print Assumptions under every theorem",
        trusted_base=TRUSTED_BASE,
        theorems=proof["theorems"],
        print_assumptions=("Closed under the global context" if not proof["assumptions"]
                           else proof["assumptions"]),
    )
    for line in known_lines:
        print(line)
    if not proof["ok"]:
        path = write_replay(prop, {"property": prop, "kind": "proof-obligation-broken",
                                   "theorems": proof["theorems"], "log": proof["log"]})
        if not violations:
            violations = [(path, "no-failing-input-found")]
    for path, suffix in violations:
        print(f"VIOLATION property={prop} replay={path}" + (f" {suffix}" if suffix else ""))
    write_evidence(prop, tier, seed, cov, time.time() - t0, len(violations), assumptions)
    sys.stdout.flush()
    return 1 if violations else 0
