"""C09 — class-definition validation. Scenario = abstract declaration (states with flags, ordered
explicit transitions, from_.any() declarations, strict flag)."""
import itertools
import random
import warnings

PROP = "C09"
RUN_MODULE = "Run.C09Run"


# ---------------------------------------------------------------- implementation side
def run_impl(sc):
    """Execute the class statement on the real library. 0 silent, 1 warned, 2 InvalidDefinition, 3 other."""
    from statemachine import State, StateMachine
    from statemachine.exceptions import InvalidDefinition

    if sc.get("split") is not None:
        r = run_split(sc)
        if r is not None:
            return r
    with warnings.catch_warnings(record=True) as w:
        warnings.simplefilter("always")
        try:
            n_ = len(sc["states"])
            if sc.get("via_enum") and sum(i for i, _ in sc["states"]) == 1:
                # the states come from an IntEnum whose first member is 0 (a falsy member)
                import enum
                from statemachine.states import States
                E = enum.IntEnum("E", {f"s{k}": k for k in range(n_)})
                init = [E[f"s{k}"] for k, (i, _f) in enumerate(sc["states"]) if i][0]
                fin = [E[f"s{k}"] for k, (_i, f) in enumerate(sc["states"]) if f]
                group = States.from_enum(E, initial=init, final=(fin[0] if len(fin) == 1 else fin))
                states = [getattr(group, f"s{k}") for k in range(n_)]
                attrs = {"states_": group}
            else:
                dup = sc.get("dup_names") or []
                eqv = sc.get("equal_values") or []       # two states whose values are equal as dict keys: 1 and True
                states = [State(*(["Step"] if k in dup else []), initial=i, final=f,
                                **({"value": (1 if k == eqv[0] else True)} if k in eqv else {}))
                          for k, (i, f) in enumerate(sc["states"])]
                attrs = {f"s{k}": st for k, st in enumerate(states)}
            states = states + [State() for _ in range(3)]      # targets that never become states of the class
            shared_any = {}
            if sc.get("shared_any") and sc["any"]:
                # the from_.any() declarations are module-level objects also used by another, unrelated class that
                # is defined first (same state ids, its own State objects - only the any()-targets are shared)
                tg = {t for t, _i in sc["any"]}
                twin = [states[k] if k in tg else State(initial=i, final=f) for k, (i, f) in enumerate(sc["states"])]
                twin = twin + states[n_:]
                pattrs = {f"s{k}": st for k, st in enumerate(twin[:n_])}
                for k, (t, internal) in enumerate(sc["any"]):
                    shared_any[k] = states[t].from_.any(internal=bool(internal))
                    pattrs[f"a{k}"] = shared_any[k]
                try:
                    with warnings.catch_warnings():
                        warnings.simplefilter("ignore")
                        for j, (s, t, internal, hasev) in enumerate(sc["trans"]):
                            tl = twin[s].to(twin[t], internal=bool(internal))
                            if hasev:
                                pattrs[f"e{j}"] = tl
                        type(StateMachine)("P", (StateMachine,), pattrs)
                except Exception:  # noqa: BLE001 - whether the other class is valid does not matter here
                    pass
            evobjs = {}
            if sc.get("events_first"):
                # every event is an `Event()` object without an id, written in the class body BEFORE the states;
                # the transitions name it with event=<that object>
                from statemachine import Event
                evobjs = {j: Event() for j, tr in enumerate(sc["trans"]) if tr[3]}
                attrs = dict([(f"e{j}", ev) for j, ev in evobjs.items()] + list(attrs.items()))
            for j, (s, t, internal, hasev) in enumerate(sc["trans"]):
                if j in evobjs:
                    states[s].to(states[t], internal=bool(internal), event=evobjs[j])
                    continue
                if sc.get("empty_event") == j and hasev:
                    states[s].to(states[t], internal=bool(internal), event="")
                    continue
                tl = states[s].to(states[t], internal=bool(internal))
                if hasev:
                    attrs[f"e{j}"] = tl
            for k, (t, internal) in enumerate(sc["any"]):
                attrs[f"a{k}"] = shared_any[k] if k in shared_any else states[t].from_.any(internal=bool(internal))
            if sc.get("strict_parent") and not sc["strict"]:
                # the class inherits from an abstract machine class that was declared strict; it is itself
                # declared without the keyword, i.e. not strict
                parent = type(StateMachine)("StrictParent", (StateMachine,), {}, strict_states=True)
                type(StateMachine)("M", (parent,), attrs)
            else:
                type(StateMachine)("M", (StateMachine,), attrs, strict_states=bool(sc["strict"]))
        except InvalidDefinition:
            return 2
        except Exception:  # noqa: BLE001
            return 3
    return 1 if any(issubclass(x.category, UserWarning) for x in w) else 0


def run_split(sc):
    """the same declaration as two class statements: a base class with all the states and the first k
    explicit transitions, then a subclass adding the other transitions (from the inherited states, some
    under an event name the base already has) and the from_.any() declarations; the verdict is the
    subclass statement's.  None when the base class alone is not accepted (then the scenario is run as
    one class statement)."""
    from statemachine import State, StateMachine
    from statemachine.exceptions import InvalidDefinition
    k = sc["split"]
    states = [State(initial=i, final=f) for (i, f) in sc["states"]]
    attrs = {f"s{j}": st for j, st in enumerate(states)}
    names = []
    with warnings.catch_warnings():
        warnings.simplefilter("ignore")
        try:
            for j, (s_, t_, internal, hasev) in enumerate(sc["trans"][:k]):
                tl = states[s_].to(states[t_], internal=bool(internal))
                if hasev:
                    attrs[f"e{j}"] = tl
                    names.append(f"e{j}")
            base = type(StateMachine)("Base", (StateMachine,), attrs, strict_states=bool(sc["strict"]))
        except Exception:  # noqa: BLE001 - the base alone is not a valid machine
            return None
    with warnings.catch_warnings(record=True) as w:
        warnings.simplefilter("always")
        try:
            sub = {}
            for j, (s_, t_, internal, hasev) in enumerate(sc["trans"][k:], start=k):
                tl = states[s_].to(states[t_], internal=bool(internal))
                if hasev:
                    # every third one extends an event the base class already declares
                    key = names[j % len(names)] if (names and j % 3 == 0 and names[j % len(names)] not in sub) else f"e{j}"
                    sub[key] = tl
            for a_, (t_, internal) in enumerate(sc["any"]):
                free = [nm for nm in names if nm not in sub]
                key = free[0] if (free and (k + a_) % 2 == 0) else f"a{a_}"     # sometimes under an inherited event name
                sub[key] = states[t_].from_.any(internal=bool(internal))
            type(StateMachine)("M", (base,), sub, strict_states=bool(sc["strict"]))
        except InvalidDefinition:
            return 2
        except Exception:  # noqa: BLE001
            return 3
    return 1 if any(issubclass(x.category, UserWarning) for x in w) else 0


def render_source(sc):
    """Python source of the same class statement (stored in replay files for humans)."""
    lines = ["from statemachine import State, StateMachine", "",
             f"class M(StateMachine, strict_states={bool(sc['strict'])}):"]
    for k, (i, f) in enumerate(sc["states"]):
        lines.append(f"    s{k} = State(initial={bool(i)}, final={bool(f)})")
    for j, (s, t, internal, hasev) in enumerate(sc["trans"]):
        call = f"s{s}.to(s{t}, internal={bool(internal)})"
        lines.append(f"    e{j} = {call}" if hasev else f"    {call}")
    for k, (t, internal) in enumerate(sc["any"]):
        lines.append(f"    a{k} = s{t}.from_.any(internal={bool(internal)})")
    if sc.get("strict_parent") and not sc["strict"]:
        lines.append("# M inherits from an abstract class declared with strict_states=True and is itself declared without the keyword")
    if sc.get("equal_values"):
        lines.append(f"# states {sc['equal_values']} have the values 1 and True (equal as dictionary keys)")
    if sc.get("empty_event") is not None:
        lines.append(f"# transition {sc['empty_event']} is declared as a bare statement with event=\"\" (the empty id) instead of `e{sc['empty_event']} = ...`")
    if sc.get("events_first"):
        lines.append("# the events are `eJ = Event()` attributes written before the states; the transitions use event=eJ")
    if sc.get("dup_names"):
        lines.append(f"# states {sc['dup_names']} are declared with the same display name: State('Step', ...)")
    if sc.get("shared_any"):
        lines.append("# the from_.any() objects (and their target states) are module-level and also used by a class P with the "
                     "same state ids, defined first")
    if sc.get("split") is not None:
        lines.append(f"# also run as: class Base with the states and the first {sc['split']} transitions; class M(Base) adding "
                     "the rest (every third one under an event name of the base) and the from_.any() declarations")
    return "\n".join(lines) + "\n"


# ---------------------------------------------------------------- Coq side
def b(x):
    return "true" if x else "false"


def coq_case(sc, impl_obs):
    ss = "; ".join(f"mkS {b(i)} {b(f)}" for (i, f) in sc["states"])
    ts = "; ".join(f"mkT {s} {t} {b(i)} {b(e)}" for (s, t, i, e) in sc["trans"])
    ys = "; ".join(f"mkA {t} {b(i)}" for (t, i) in sc["any"])
    return f"(mkC [{ss}] [{ts}] [{ys}] {b(sc['strict'])}, {impl_obs})"


# ---------------------------------------------------------------- generators
def flag_patterns(n, full):
    """(initial, final) flags per state. full: every assignment; else one-initial patterns x all final
    assignments plus a few invalid-initial patterns."""
    pats = []
    if full:
        for fl in itertools.product([(0, 0), (0, 1), (1, 0), (1, 1)], repeat=n):
            pats.append([list(x) for x in fl])
        return pats
    for init in range(n):
        for fin in itertools.product([0, 1], repeat=n):
            pats.append([[1 if k == init else 0, fin[k]] for k in range(n)])
    pats.append([[0, 0] for _ in range(n)])
    if n >= 2:
        pats.append([[1, 0], [1, 0]] + [[0, 1] for _ in range(n - 2)])
    return pats


def exhaustive(n, maxmult, with_internal, any_opts, flags_full):
    """All declarations over n states: every ordered pair gets 0..maxmult parallel transitions
    (optionally the first one internal), every flag pattern, every `any_opts` entry, strict on/off."""
    pairs = [(s, t) for s in range(n) for t in range(n)]
    per_pair = []
    for (s, t) in pairs:
        opts = [[]]
        for m in range(1, maxmult + 1):
            opts.append([[s, t, 0, 1]] * m)
            if with_internal:
                opts.append([[s, t, 1, 1]] + [[s, t, 0, 1]] * (m - 1))
        per_pair.append(opts)
    for flags in flag_patterns(n, flags_full):
        for combo in itertools.product(*per_pair):
            trans = [x for part in combo for x in part]
            for anys in any_opts(n):
                for strict in (0, 1):
                    yield {"states": flags, "trans": trans, "any": anys, "strict": strict}


def any_none(n):
    return [[]]


def any_each(n):
    return [[]] + [[[t, 0]] for t in range(n)]


def random_decl(rng, nmin, nmax):
    n = rng.randint(nmin, nmax)
    # mostly valid by construction: one initial, spanning tree from it, finals without out-edges
    r = rng.random()
    init = rng.randrange(n)
    flags = [[1 if k == init else 0, 1 if (k != init and rng.random() < 0.25) else 0] for k in range(n)]
    trans = []
    order = list(range(n))
    rng.shuffle(order)
    order.remove(init)
    reached = [init]
    for s in order:
        src_pool = [x for x in reached if not flags[x][1]] or [init]
        trans.append([rng.choice(src_pool), s, 0, 1])
        reached.append(s)
    for _ in range(rng.randint(0, n + 2)):
        s, t = rng.randrange(n), rng.randrange(n)
        if flags[s][1] and rng.random() < 0.9:
            continue
        trans.append([s, t, 0, 1])
    rng.shuffle(trans)
    anys = []
    if rng.random() < 0.25:
        anys.append([rng.randrange(n), 1 if rng.random() < 0.05 else 0])
    # mutations towards the malformed stream
    if r < 0.35:
        k = rng.random()
        if k < 0.2 and trans:
            trans.pop(rng.randrange(len(trans)))
        elif k < 0.35:
            flags[rng.randrange(n)][0] ^= 1
        elif k < 0.5:
            flags[rng.randrange(n)][1] ^= 1
        elif k < 0.65 and trans:
            trans[rng.randrange(len(trans))][2] = 1
        elif k < 0.8 and trans:
            t = trans[rng.randrange(len(trans))]
            t[0], t[1] = t[1], t[0]
        elif k < 0.9 and trans:
            for t in trans:
                t[3] = 0
        else:
            trans = [t for t in trans if t[0] != t[1]]
    # sprinkle internal self transitions (valid)
    for t in trans:
        if t[0] == t[1] and rng.random() < 0.3:
            t[2] = 1
    return {"states": flags, "trans": trans, "any": anys, "strict": rng.randint(0, 1)}


def generate(rng, tier):
    """Returns (scenarios, description, exhaustive_parts)."""
    scs = []
    parts = []
    a = list(exhaustive(1, 2, True, any_each, True))
    parts.append(("n=1: all flags x self-loop multiplicity 0..2 (opt. internal) x any()-target x strict", len(a)))
    scs += a
    a = list(exhaustive(2, 1, True, any_each, True))
    parts.append(("n=2: all 16 flag patterns x every pair 0..1 transitions (opt. internal) x any()-target x strict", len(a)))
    scs += a
    a = list(exhaustive(3, 1, False, any_none, False))
    parts.append(("n=3: one-initial x all final patterns (+2 invalid-initial patterns) x every subset of the 9 ordered pairs x strict", len(a)))
    scs += a
    if tier == "thorough":
        a = list(exhaustive(2, 2, True, any_each, True))
        parts.append(("n=2: multiplicity 0..2 with internal variants, all flags, any(), strict", len(a)))
        scs += a
        a = list(exhaustive(3, 1, False, any_each, False))
        parts.append(("n=3: as above with every any()-target", len(a)))
        scs += a
    nrand = 6000 if tier == "quick" else 150000
    for _ in range(nrand):
        d = random_decl(rng, 3, 6) if rng.random() < 0.8 else random_decl(rng, 1, 3)
        if d["trans"] and rng.random() < 0.4:
            d["split"] = max(1, len(d["trans"]) - rng.randint(0, 3))
        else:
            if rng.random() < 0.3:
                d["via_enum"] = True
            elif rng.random() < 0.3 and len(d["states"]) >= 2:
                d["dup_names"] = rng.sample(range(len(d["states"])), rng.randint(2, len(d["states"])))   # states sharing a display name
            if rng.random() < 0.3:
                d["strict_parent"] = True
            fins = [k for k, (_i, f_) in enumerate(d["states"]) if f_ and k < len(d["states"]) - 1]
            if fins and not d.get("via_enum") and rng.random() < 0.5:
                f0 = rng.choice(fins)
                d["equal_values"] = [f0, rng.randrange(f0 + 1, len(d["states"]))]
            if rng.random() < 0.25 and not d.get("via_enum"):
                d["events_first"] = True
            if d["any"] and not d.get("via_enum") and all(tr[0] != t_ for tr in d["trans"] for t_, _i in d["any"]) and rng.random() < 0.7:
                d["shared_any"] = True
            with_ev = [j_ for j_, tr in enumerate(d["trans"]) if tr[3]]
            if len(with_ev) == 1 and not d["any"] and not d.get("events_first") and rng.random() < 0.5:
                # the only event of the class is declared with an empty id (`a.to(b, event="")`): still an event
                d["empty_event"] = with_ev[0]
            if rng.random() < 0.15:
                # a transition whose target is a State object that is not a state of the class
                d["trans"].insert(rng.randint(0, len(d["trans"])), [rng.randrange(len(d["states"])), len(d["states"]), 0, 1])
        scs.append(d)
    parts.append((f"random declarations over 1..6 states (mostly valid + mutated), seed-derived; 40% of them also "
                  "written as a base class plus a subclass that adds transitions and from_.any() declarations", nrand))
    return scs, parts


def nontrivial(sc, obs):
    """Non-trivial: one initial state, >= 2 states, and either a cycle-capable graph (>= as many
    transitions as states) or a final state or a from_.any() — i.e. the reachability / path-to-final
    checks actually decide the outcome."""
    n = len(sc["states"])
    if n < 2 or sum(i for i, _ in sc["states"]) != 1:
        return False
    return len(sc["trans"]) >= n or any(f for _, f in sc["states"]) or bool(sc["any"])
