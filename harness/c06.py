"""C06 - concurrent senders: mutual exclusion, exactly-once, nothing stranded.

Threads: a deterministic scheduler built on sys.settrace parks every sender thread before every
source line of statemachine/engines/*.py and statemachine/event.py (file filter only) and lets one
thread at a time run one line, following a schedule.  From the lines actually executed the protocol
steps are reconstructed (put, try-lock won / lost, pop, end of callbacks, emptiness test, release;
recognised by the text of the line, not its number) and handed to the Coq model, which must produce
the same pop order, the same leftover queue and the same returned senders; the begin/end markers of
the real callbacks must never overlap.  asyncio: sender tasks whose callbacks await gates; a
controller resumes one parked task at a time following a schedule.
"""
import asyncio
import linecache
import os
import sys
import threading
import warnings

PROP = "C06"
RUN_MODULE = "Run.C06Run"
CHUNK = 300

ENGINE_FILES = None


def engine_files():
    global ENGINE_FILES
    if ENGINE_FILES is None:
        import statemachine
        base = os.path.dirname(statemachine.__file__)
        ENGINE_FILES = (os.path.join(base, "engines") + os.sep, os.path.join(base, "event.py"))
    return ENGINE_FILES


def traced(filename):
    d, f = engine_files()
    return filename.startswith(d) or filename == f


def classify(text, nxt):
    """protocol step performed when a thread executes source line `text` and then stops at `nxt`"""
    t = text.strip()
    if "_external_queue.append(" in t:
        return "put"
    if "_processing.acquire(" in t:
        return "acq"
    if "_external_queue.popleft()" in t and "_rtc" not in t:
        return "pop"
    if "_processing.release()" in t:
        return "rel"
    if t.startswith("while ") and "_external_queue" in t:
        n = (nxt or "").strip()
        return None if "popleft" in n else "empty"
    if "first_result is self._sentinel" in t and t.startswith("if"):
        return "end"
    if t.startswith("if self._external_queue"):
        return "recheck"
    if "_external_queue.clear()" in t or t.startswith("self._external_queue ="):
        return "fail"                 # a callback failed: what is waiting is dropped
    return None


def make_machine(log, lock_probe):
    from statemachine import State, StateMachine

    class M(StateMachine):
        a = State(initial=True)
        go = a.to.itself()

        def before_go(self, sender, seq):
            log.append(("B", sender, seq, threading.get_ident()))

        def after_go(self, sender, seq):
            log.append(("E", sender, seq, threading.get_ident()))
    with warnings.catch_warnings():
        warnings.simplefilter("ignore")
        return M()


class Scheduler:
    """lets exactly one sender thread run one traced source line at a time"""

    def __init__(self, n, fine=False):
        self.n = n
        # fine: inside BaseEngine.put the threads are parked before every bytecode instruction (the queue
        # object is loaded and appended to by different instructions of one source line)
        self.fine = fine
        self.op = [None] * n             # None: parked at a line; else the name of the instruction about to run
        self.go = [threading.Semaphore(0) for _ in range(n)]
        self.parked = threading.Semaphore(0)
        self.where = [None] * n          # text of the line each parked thread is about to execute
        self.done = [False] * n
        self.tid = {}

    def tracer(self, i):
        def local(frame, event, arg):
            if event == "line" or event == "opcode":
                self.where[i] = linecache.getline(frame.f_code.co_filename, frame.f_lineno)
                if frame.f_trace_opcodes:
                    self.op[i] = _opname(frame) if event == "opcode" else ""
                else:
                    self.op[i] = None
                self.parked.release()
                self.go[i].acquire()
            return local

        def glob(frame, event, arg):
            if event == "call" and traced(frame.f_code.co_filename):
                if self.fine and frame.f_code.co_name == "put":
                    frame.f_trace_opcodes = True
                return local
            return None
        return glob


def _opname(frame):
    import dis
    return dis.opname[frame.f_code.co_code[frame.f_lasti]]


def _warm_opcode_events():
    """CPython instruments a code object for per-instruction events when f_trace_opcodes is first set on one of
    its frames, and the frame that is already running then misses them: run BaseEngine.put once beforehand"""
    import collections
    from statemachine.engines.base import BaseEngine
    dummy = type("Q", (), {})()
    dummy._external_queue = collections.deque()

    def local(frame, event, arg):
        return local

    def glob(frame, event, arg):
        if event == "call" and frame.f_code is BaseEngine.put.__code__:
            frame.f_trace_opcodes = True
            return local
        return None
    old = sys.gettrace()
    sys.settrace(glob)
    try:
        BaseEngine.put(dummy, None)
        BaseEngine.put(dummy, None)
    finally:
        sys.settrace(old)


def make_plain_machine(log):
    from statemachine import State, StateMachine

    class P(StateMachine):
        a = State(initial=True)
        go = a.to.itself()

        def before_go(self):
            log.append(("B", 0, 0, threading.get_ident()))

        def after_go(self):
            log.append(("E", 0, 0, threading.get_ident()))
    with warnings.catch_warnings():
        warnings.simplefilter("ignore")
        return P()


def make_failing_machine(log):
    """the callbacks of sender 0's first event fail (after the begin marker)"""
    from statemachine import State, StateMachine

    class F(StateMachine):
        a = State(initial=True)
        go = a.to.itself()

        def before_go(self, sender, seq):
            log.append(("B", sender, seq, threading.get_ident()))
            if sender == 0 and seq == 0:
                log.append(("E", sender, seq, threading.get_ident()))
                raise RuntimeError("callback failed")

        def after_go(self, sender, seq):
            log.append(("E", sender, seq, threading.get_ident()))
    with warnings.catch_warnings():
        warnings.simplefilter("ignore")
        return F()


def run_threads(sc):
    plan, schedule = sc["plan"], sc["schedule"]
    n = len(plan)
    log = []
    same = sc["kind"] == "threads_same"
    failing = sc["kind"] == "threads_fail"
    sm = make_plain_machine(log) if same else (make_failing_machine(log) if failing else make_machine(log, None))
    S = Scheduler(n, fine=bool(sc.get("fine")))
    if S.fine:
        _warm_opcode_events()
    popped_by = {}
    helper = None
    if sc.get("busy_other"):
        # an unrelated machine is in the middle of a transition (inside one of its callbacks, in a thread of
        # its own) during the whole run
        from statemachine import State, StateMachine
        inside, release = threading.Event(), threading.Event()

        class Busy(StateMachine):
            idle = State(initial=True)
            work = idle.to.itself()

            def on_work(self):
                inside.set()
                release.wait(20)
        with warnings.catch_warnings():
            warnings.simplefilter("ignore")
            busy = Busy()
        helper = threading.Thread(target=lambda: busy.send("work"), daemon=True)
        helper.start()
        inside.wait(5)

    def sender(i):
        sys.settrace(S.tracer(i))
        try:
            for k in range(plan[i]):
                if same:
                    sm.send("go")                 # every sender sends the very same event
                elif failing:
                    try:
                        sm.send("go", sender=i, seq=k)
                    except RuntimeError:
                        pass                      # whoever was draining gets the failure of the callback
                else:
                    sm.send("go", sender=i, seq=k)
        finally:
            sys.settrace(None)
            S.done[i] = True
            S.where[i] = None
            S.parked.release()

    threads = [threading.Thread(target=sender, args=(i,), daemon=True) for i in range(n)]
    for t in threads:
        t.start()
    for _ in range(n):
        S.parked.acquire()               # everybody parked at its first traced line (or done)
    steps = []                           # (thread, protocol step)
    pops = []
    pos = 0
    guard = 0
    while not all(S.done) and guard < 20000:
        guard += 1
        # next thread of the schedule that is still alive; after the schedule: round-robin
        if pos < len(schedule):
            i = schedule[pos]
            pos += 1
        else:
            i = (pos - len(schedule)) % n
            pos += 1
        if S.done[i]:
            continue
        text, op = S.where[i], S.op[i]
        S.go[i].release()
        S.parked.acquire()               # it ran one line and parked again (or finished)
        nxt = S.where[i]
        if op is None:
            act = classify(text, nxt)
        else:
            # instruction by instruction: the trigger is in the queue once the call of `append` has run
            act = "put" if (op.startswith("CALL") and "_external_queue.append(" in text) else None
        if act == "acq":
            steps.append(i)
        elif act == "put":
            steps.append(i)
        elif act == "pop":
            steps.append(i)
            pops.append(i)
        elif act == "end":
            steps.append(i)
        elif act == "empty":
            steps.append(i)
        elif act == "rel":
            steps.append(i)
        elif act == "recheck":
            steps.append(i)
        elif act == "fail":
            steps.append(i)
    for t in threads:
        t.join(2)
    if helper is not None:
        release.set()
        helper.join(2)
    # real observations
    begins = [(e[1], e[2]) for e in log if e[0] == "B"]
    overlap = False
    open_ = None
    for e in log:
        if e[0] == "B":
            if open_ is not None:
                overlap = True
            open_ = (e[1], e[2])
        else:
            if open_ != (e[1], e[2]):
                overlap = True
            open_ = None
    if same:
        return {"same": True, "begins": len(begins), "leftover": len(sm._engine._external_queue),
                "returned": [bool(d) for d in S.done], "overlap": overlap, "steps": steps, "hung": guard >= 20000}
    leftover = [(td.kwargs["sender"], td.kwargs["seq"]) for td in sm._engine._external_queue]
    if failing:
        return {"failing": True, "begins": [list(x) for x in begins], "leftover": [list(x) for x in leftover],
                "popped": [[list(b_), p_] for b_, p_ in zip(begins, pops)], "npops": len(pops),
                "returned": [bool(d) for d in S.done], "overlap": overlap, "steps": steps, "hung": guard >= 20000}
    popped = [[list(b), p] for b, p in zip(begins, pops)]
    return {"steps": steps, "popped": popped, "leftover": [list(x) for x in leftover],
            "returned": [bool(d) for d in S.done], "overlap": overlap or len(begins) != len(pops),
            "hung": guard >= 20000}


# ------------------------------------------------------------------ asyncio tasks
def run_tasks(sc):
    """sender tasks on one async machine; every callback awaits a gate; a controller waits until all
    tasks are blocked (on a gate, or done) and then opens one gate chosen by the schedule"""
    plan, schedule = sc["plan"], sc["schedule"]
    n = len(plan)
    log = []
    from statemachine import State, StateMachine
    from statemachine.exceptions import TransitionNotAllowed
    parked = []

    owners = {}

    async def gate():
        fut = asyncio.get_running_loop().create_future()
        owners[id(fut)] = asyncio.current_task()
        parked.append(fut)
        await fut

    class M(StateMachine):
        a = State(initial=True)
        b = State()
        go = a.to.itself() | b.to.itself()
        flip = a.to(b)                     # refused once the machine is in b

        async def before_flip(self, sender, seq):
            log.append(("B", sender, seq))
            await gate()

        async def after_flip(self, sender, seq):
            log.append(("E", sender, seq))

        async def before_go(self, sender, seq):
            log.append(("B", sender, seq))
            await gate()

        async def on_go(self, sender, seq):
            await gate()
            if sc.get("nested") and seq == 0 and sender == 0:
                await self.send("go", sender=sender + 10, seq=0)      # a nested send from a callback

        async def after_go(self, sender, seq):
            await gate()
            log.append(("E", sender, seq))

    done = [False] * n
    puts = []
    box_cancelled = [False]

    async def sender(i, sm):
        try:
            for k in range(plan[i]):
                if sc.get("same_events"):
                    await sm.send("go", sender=0, seq=0)      # every task sends the very same event
                elif sc.get("refuse") and (i + k) % 2 == 0:
                    await sm.send("flip", sender=i, seq=k)    # allowed only while the machine is still in a
                else:
                    await sm.send("go", sender=i, seq=k)
        except asyncio.CancelledError:
            pass                                              # this sender was cancelled while draining
        except TransitionNotAllowed:
            pass                                              # it was draining when a queued flip was refused
        done[i] = True

    flushed = []

    async def flush(sm):
        await sm.send("go", sender=8, seq=len(flushed))       # one more event after the cancellation
        flushed.append(True)

    async def main():
        with warnings.catch_warnings():
            warnings.simplefilter("ignore")
            sm = M()
            await sm.activate_initial_state()
            for _ in range(sc.get("reactivate", 0)):
                await sm.activate_initial_state()      # redundant activation of an active machine: nothing to do
        # the order in which events are put (by senders and by callbacks): observed on this engine object
        orig_put = sm._engine.put

        def put(td):
            puts.append((td.kwargs.get("sender"), td.kwargs.get("seq")))
            return orig_put(td)
        sm._engine.put = put
        tasks = [asyncio.ensure_future(sender(i, sm)) for i in range(n)]
        pos = 0
        guard = 0
        cancelled = []
        extra = []
        box_cancelled[0] = False
        while (not all(done) or any(not t.done() for t in extra)) and guard < 3000:
            guard += 1
            # quiescence: nothing more can run without opening a gate
            last = -1
            for _ in range(50):
                await asyncio.sleep(0)
                if len(parked) == last:
                    break
                last = len(parked)
            if not parked:
                continue
            j = (schedule[pos] if pos < len(schedule) else 0) % len(parked)
            pos += 1
            fut = parked.pop(j)
            if sc.get("cancel_at") is not None and pos > sc["cancel_at"] and not cancelled:
                # the task that is draining (it is suspended inside a callback) gets cancelled, e.g. by a
                # timeout around its send; then one more event is sent by a fresh task
                cancelled.append(True)
                box_cancelled[0] = True
                opened = [e for e in log if e[0] == "B"][-1]
                if not [e for e in log if e[0] == "E" and e[1:] == opened[1:]]:
                    log.append(("E", opened[1], opened[2]))       # its block ends here
                # (at quiescence the only sender task that is not finished is the one draining the queue; the
                # callback itself may run in a task of the library's own making, so it is the SENDER that is cancelled)
                pend = [t for t in tasks if not t.done()]
                for t in (pend or [owners[id(fut)]]):
                    t.cancel()
                for _ in range(30):                                # let the cancellation unwind the drainer
                    await asyncio.sleep(0)
                extra.append(asyncio.ensure_future(flush(sm)))
                if not fut.done():
                    parked.append(fut)       # somebody is still waiting on the gate of the cancelled callback
                continue
            fut.set_result(None)
        for t in tasks + extra:
            await asyncio.wait_for(t, 5)
        # nothing of a cancelled event may go on running behind the back of the machine: open whatever gates are
        # still waiting and give detached work (if any) the chance to show itself
        for _ in range(20):
            while parked:
                fut = parked.pop()
                if not fut.done():
                    fut.set_result(None)
            for _ in range(10):
                await asyncio.sleep(0)
        return sm
    sm = asyncio.run(main())
    begins = [(e[1], e[2]) for e in log if e[0] == "B"]
    overlap, open_ = False, None
    for e in log:
        if e[0] == "B":
            if open_ is not None:
                overlap = True
            open_ = (e[1], e[2])
        else:
            if open_ != (e[1], e[2]):
                overlap = True
            open_ = None
    leftover = [(td.kwargs["sender"], td.kwargs["seq"]) for td in sm._engine._external_queue]
    return {"begins": [list(x) for x in begins if x[0] < 10], "nested": [list(x) for x in begins if x[0] >= 10],
            "leftover": [list(x) for x in leftover], "returned": list(done), "overlap": overlap,
            "fifo": [list(x) for x in begins] == [list(x) for x in puts], "nputs": len(puts),
            "subseq": _is_subseq([tuple(x) for x in begins], [tuple(x) for x in puts]),
            "flushed": any(x[0] == 8 for x in begins), "cancelled": box_cancelled[0]}


def _is_subseq(a, b):
    it = iter(b)
    return all(any(x == y for y in it) for x in a)


def run_listener_probe(sc):
    """thread A is inside a callback of event 1; thread B attaches a listener to the same machine
    (add_listener is documented to be usable at any time) and sends event 2: B's event must wait until A's
    callbacks are over - no overlap, both processed once, in put order"""
    from statemachine import State, StateMachine
    log = []
    inside, release = threading.Event(), threading.Event()

    class Obs:
        def after_go(self, n):
            log.append(("obs", n))

    class M(StateMachine):
        a = State(initial=True)
        go = a.to.itself()

        def before_go(self, n):
            log.append(("B", n))
            if n == 1:
                inside.set()
                release.wait(10)

        def after_go(self, n):
            log.append(("E", n))
    with warnings.catch_warnings():
        warnings.simplefilter("ignore")
        sm = M()
    errors = []

    def a_():
        try:
            sm.send("go", n=1)
        except Exception as e:  # noqa: BLE001
            errors.append(repr(e))

    def b_():
        try:
            if sc.get("attach", True):
                sm.add_listener(Obs())
            sm.send("go", n=2)
        except Exception as e:  # noqa: BLE001
            errors.append(repr(e))
    ta = threading.Thread(target=a_, daemon=True)
    ta.start()
    inside.wait(5)
    tb = threading.Thread(target=b_, daemon=True)
    tb.start()
    tb.join(2)                  # B only enqueues and returns (A holds the processing lock)
    b_returned = not tb.is_alive()
    mid = list(log)
    release.set()
    ta.join(5)
    tb.join(5)
    marks = [e for e in log if e[0] in ("B", "E")]
    ok = (not errors and b_returned and [e for e in mid if e[0] in ("B", "E")] == [("B", 1)]
          and marks == [("B", 1), ("E", 1), ("B", 2), ("E", 2)] and not sm._engine._external_queue)
    return {"ok": ok, "log": [list(map(str, e)) for e in log], "errors": errors, "steps": []}


def run_impl(sc):
    if sc["kind"] == "listener_probe":
        return run_listener_probe(sc)
    if sc["kind"] in ("threads", "threads_same", "threads_fail"):
        return run_threads(sc)
    return run_tasks(sc)


DRIVER_ERR = {"steps": [], "popped": [], "leftover": [], "returned": [], "overlap": True, "hung": True}


def b(x):
    return "true" if x else "false"


def coq_case(sc, obs):
    if sc["kind"] == "listener_probe":
        return "(mk6 true [] [] [] [] [])" if obs.get("ok") else "(mk6 true [] [] [((9, 9), 9)] [] [])"
    if sc["kind"] == "tasks":
        # asyncio: the interleaving is decided by the real event loop between gates; the model's claims
        # for Await granularity are checked directly on what happened
        n = len(sc["plan"])
        if sc.get("refuse"):
            # a queued event that is no longer allowed fails the drain (C04): what was waiting is dropped; once
            # every sender has returned nothing is left over, and whatever ran, ran in put order without overlap
            ok = (not obs["overlap"] and not obs["leftover"] and all(obs["returned"]) and obs.get("subseq"))
            return "(mk6 false [] [] [] [] [])" if ok else "(mk6 false [] [] [((9, 9), 9)] [] [])"
        if sc.get("cancel_at") is not None:
            # the draining task was cancelled inside a callback: that is a failing callback (C04) - the lock is
            # released and what was waiting is dropped; the event sent afterwards is processed; whatever was
            # processed was processed in put order; nothing is left over
            # (when every event was over before the chosen point, nothing was cancelled and nothing more sent)
            ok = (not obs["overlap"] and not obs["leftover"] and all(obs["returned"]) and obs.get("subseq")
                  and (obs.get("flushed") or not obs.get("cancelled")))
            return "(mk6 false [] [] [] [] [])" if ok else "(mk6 false [] [] [((9, 9), 9)] [] [])"
        if sc.get("same_events"):
            ok = (not obs["overlap"] and not obs["leftover"] and all(obs["returned"]) and obs.get("fifo")
                  and len(obs["begins"]) == sum(sc["plan"]))
            return "(mk6 false [] [] [] [] [])" if ok else "(mk6 false [] [] [((9, 9), 9)] [] [])"
        # global FIFO (C06_nested_fifo): everything that was put - by a sender or by a running callback - is
        # begun in put order; the nested send of sender 0's first event is processed exactly once
        ok = (not obs["overlap"] and not obs["leftover"] and all(obs["returned"]) and obs.get("fifo")
              and len(obs["nested"]) == (1 if (sc.get("nested") and sc["plan"][0] >= 1) else 0)
              and sorted(map(tuple, obs["begins"])) == sorted((i, k) for i in range(n) for k in range(sc["plan"][i]))
              and all([bb for bb in obs["begins"] if bb[0] == i] == [[i, k] for k in range(sc["plan"][i])] for i in range(n)))
        return "(mk6 false [] [] [] [] [])" if ok else "(mk6 false [] [] [((9, 9), 9)] [] [])"
    if sc["kind"] == "threads_fail":
        # a failing callback (C04) while other threads send: what was waiting behind the failing event is dropped;
        # whatever is put afterwards is processed; once every sender has returned nothing is left in the queue,
        # nothing was begun twice and no two events overlapped
        ok = (not obs["overlap"] and not obs["hung"] and all(obs["returned"]) and not obs["leftover"]
              and len({tuple(x) for x in obs["begins"]}) == len(obs["begins"]) and obs.get("npops") == len(obs["begins"]))
        if not ok:
            return "(mk6 true [] [] [((9, 9), 9)] [] [])"
        # and the protocol steps reconstructed from the lines (instructions) actually executed, replayed in the
        # model with failing callbacks (Impl/ConcFail.v), give the same events begun by the same threads
        plan = "[" + "; ".join(map(str, sc["plan"])) + "]"
        sched = "[" + "; ".join(map(str, obs["steps"])) + "]"
        popped = "[" + "; ".join(f"(({e[0]}, {e[1]}), {p})" for e, p in obs["popped"]) + "]"
        left = "[" + "; ".join(f"({e[0]}, {e[1]})" for e in obs["leftover"]) + "]"
        ret = "[" + "; ".join(b(x) for x in obs["returned"]) + "]"
        return f"(mk6f {plan} {sched} {popped} {left} {ret})"
    if sc["kind"] == "threads_same":
        # identical events cannot be told apart: exactly-once is checked by counting
        ok = (not obs["overlap"] and not obs["hung"] and all(obs["returned"]) and obs["leftover"] == 0
              and obs["begins"] == sum(sc["plan"]))
        return "(mk6 true [] [] [] [] [])" if ok else "(mk6 true [] [] [((9, 9), 9)] [] [])"
    if obs.get("overlap") or obs.get("hung"):
        return "(mk6 true [] [] [((9, 9), 9)] [] [])"
    plan = "[" + "; ".join(map(str, sc["plan"])) + "]"
    sched = "[" + "; ".join(map(str, obs["steps"])) + "]"
    popped = "[" + "; ".join(f"(({e[0]}, {e[1]}), {p})" for e, p in obs["popped"]) + "]"
    left = "[" + "; ".join(f"({e[0]}, {e[1]})" for e in obs["leftover"]) + "]"
    ret = "[" + "; ".join(b(x) for x in obs["returned"]) + "]"
    return f"(mk6 true {plan} {sched} {popped} {left} {ret})"


# ------------------------------------------------------------------ generators
def generate(rng, tier):
    scs, parts = [], []
    # two senders, one event each: sender 0 runs k0 lines, sender 1 runs k1 lines, then round-robin
    rng_k = range(0, 80, 1)
    a = []
    for k0 in rng_k:
        for k1 in (range(0, 40, 1) if tier == "thorough" else (0, 2, 5, 9, 14, 20, 27, 35)):
            a.append({"kind": "threads", "plan": [1, 1], "schedule": [0] * k0 + [1] * k1 + [0] * 200})
    scs += a
    parts.append(("threads, 2 senders x 1 event: sender 0 runs k0 source lines, then sender 1 runs k1 lines, then "
                  "sender 0 to the end, then round-robin (every k0 in the window of one send: <= 2 preemptions)", len(a)))
    nrand = 250 if tier == "quick" else 6000
    r = []
    for _ in range(nrand):
        n = rng.randint(2, 4)
        plan = [rng.randint(1, 2) for _ in range(n)]
        sched = []
        for _ in range(rng.randint(1, 6)):
            sched += [rng.randrange(n)] * rng.randint(1, 60)
        r.append({"kind": "threads", "plan": plan, "schedule": sched, "busy_other": rng.random() < 0.25})
    scs += r
    parts.append(("threads, 2-4 senders x 1-2 events, random schedules with 1-6 preemptions at random source lines", nrand))
    ns_ = 150 if tier == "quick" else 3000
    same = []
    for _ in range(ns_):
        n = rng.randint(2, 4)
        plan = [rng.randint(1, 3) for _ in range(n)]
        sched = []
        for _ in range(rng.randint(1, 6)):
            sched += [rng.randrange(n)] * rng.randint(1, 60)
        same.append({"kind": "threads_same", "plan": plan, "schedule": sched})
    scs += same
    parts.append(("threads, 2-4 senders all sending the very same event (equal triggers), random schedules: every "
                  "send must be processed once (counted)", ns_))
    fl = []
    for k0 in range(0, 130, 1):
        for k1 in ((0, 4, 8, 12, 16, 24, 40) if tier == "quick" else range(0, 48, 2)):
            fl.append({"kind": "threads_fail", "plan": [1, 1], "schedule": [0] * k0 + [1] * k1 + [0] * 300})
    for _ in range(150 if tier == "quick" else 3000):
        n = rng.randint(2, 4)
        sched = []
        for _ in range(rng.randint(1, 6)):
            sched += [rng.randrange(n)] * rng.randint(1, 60)
        fl.append({"kind": "threads_fail", "plan": [rng.randint(1, 2) for _ in range(n)], "schedule": sched})
    # the same with the threads preempted between the bytecode instructions of BaseEngine.put (the queue object
    # is loaded by one instruction and appended to by a later one: a sender may be parked in between while the
    # failure of another sender's callback is handled)
    nfine = 0
    for k0 in (range(14, 34, 2) if tier == "quick" else range(0, 44)):
        for k1 in (range(20, 38) if tier == "quick" else range(8, 56)):
            fl.append({"kind": "threads_fail", "fine": True, "plan": [1, 1], "schedule": [0] * k0 + [1] * k1 + [0] * 300})
            nfine += 1
    scs += fl
    parts.append(("threads, the callbacks of sender 0's first event fail: every preemption point of sender 0 x several "
                  "lengths of sender 1, plus random schedules for 2-4 senders; %d of them with preemption points "
                  "between the bytecode instructions of BaseEngine.put" % nfine, len(fl)))
    nt = 120 if tier == "quick" else 3000
    t = []
    for _ in range(nt):
        n = rng.randint(2, 4)
        plan = [rng.randint(1, 2) for _ in range(n)]
        t.append({"kind": "tasks", "plan": plan, "nested": rng.random() < 0.4, "same_events": rng.random() < 0.35,
                  "reactivate": rng.choice([0, 0, 0, 1, 2]),
                  "schedule": [rng.randrange(6) for _ in range(rng.randint(2, 20))]})
    nref = 60 if tier == "quick" else 1200
    for _ in range(nref):
        n = rng.randint(2, 4)
        t.append({"kind": "tasks", "plan": [rng.randint(1, 2) for _ in range(n)], "nested": False, "same_events": False,
                  "refuse": True, "schedule": [rng.randrange(6) for _ in range(rng.randint(2, 20))]})
    ncan = 40 if tier == "quick" else 800
    for _ in range(ncan):
        n = rng.randint(2, 4)
        t.append({"kind": "tasks", "plan": [rng.randint(1, 2) for _ in range(n)], "nested": rng.random() < 0.3,
                  "same_events": False, "cancel_at": rng.randint(0, 6),
                  "schedule": [rng.randrange(6) for _ in range(rng.randint(2, 20))]})
    scs += t
    scs += [{"kind": "listener_probe", "plan": [1, 1], "schedule": [], "attach": True},
            {"kind": "listener_probe", "plan": [1, 1], "schedule": [], "attach": False}]
    parts.append(("threads: a listener attached (and an event sent) by another thread while a callback is running", 2))
    parts.append(("asyncio, 2-4 sender tasks x 1-2 events, callbacks awaiting gates resumed one at a time in random "
                  "schedule order", nt))
    parts.append(("asyncio, senders whose events are partly refused once the state has changed (the drain fails)", nref))
    parts.append(("asyncio, the same with the draining task cancelled while suspended inside a callback and one "
                  "more event sent afterwards", ncan))
    return scs, parts


def nontrivial(sc, obs):
    """Non-trivial: (threads) some sender was preempted inside the dispatch code while another one ran
    >= 1 protocol step, i.e. the reconstructed step sequence switches threads at least twice;
    (asyncio) >= 2 tasks sent events."""
    if sc["kind"] == "listener_probe":
        return False
    if sc["kind"] == "tasks":
        return len(sc["plan"]) >= 2
    st = obs.get("steps", [])
    return sum(1 for x, y in zip(st, st[1:]) if x != y) >= 2


def render_source(sc):
    return (f"# kind={sc['kind']} plan (events per sender)={sc['plan']}\n"
            f"# schedule (thread to run for one traced source line, then round-robin)={sc['schedule'][:120]}...\n"
            "# machine: one state `a`, event go = a.to.itself(), before_go / after_go log begin / end markers\n")


CLASSIFIERS = {}


def extra_coverage(scs, obs, verdicts):
    return {"thread_schedules": sum(1 for s in scs if s["kind"] in ("threads", "threads_same", "threads_fail")),
            "task_schedules": sum(1 for s in scs if s["kind"] == "tasks"),
            "schedules_that_strand_an_event": sum(1 for v in verdicts if v == 1),
            "protocol_steps_replayed_in_model": sum(len(o.get("steps", [])) for o in obs if isinstance(o, dict))}
