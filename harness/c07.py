"""C07 - callbacks receive exactly the parameters they declare.

Scenario = a signature (list of [name, kind, has_default]; kind 0 positional-only, 1 positional-or-
keyword, 2 *args, 3 keyword-only, 4 **kwargs), a call shape (positional values, keyword items) and
the kind of callable (function / bound method / functools.partial / coroutine function / callback of
a real machine).  The real SignatureAdapter binds, the real callable is called, and what it received
is compared with the model (Impl/Signature.v: bind_expected + BoundArguments + CPython call binding).
"""
import asyncio
import functools
import itertools

PROP = "C07"
RUN_MODULE = "Run.C07Run"
VERDICT_FN = "verdict3"
CHUNK = 1500
KINDS = ["PosOnly", "PosOrKw", "VarPos", "KwOnly", "VarKw"]
RESERVED = ["event_data", "machine", "event", "model", "transition", "state", "source", "target"]


class _Default:
    def __repr__(self):
        return "<default>"


_D = _Default()


# ordinary user names that happen to be parameter names inside the library (names 60..)
ODD = ["key", "args", "kwargs", "cls", "group", "spec", "result", "callback", "value", "name", "trigger_data",
       "sm", "listeners", "func", "registry", "condition"]


def pname(n):
    # names 50.. are the library's reserved keyword names (used by the machine-level shape)
    if 60 <= n < 60 + len(ODD):
        return ODD[n - 60]
    return RESERVED[n - 50] if 50 <= n < 58 else f"p{n}"


def name_no(key):
    if key in ODD:
        return 60 + ODD.index(key)
    if key in RESERVED:
        return 50 + RESERVED.index(key)
    return int(key[1:])


def render_def(sc, fname="f", extra_first=None, is_async=False, indent=""):
    parts = []
    sig = sc["sig"]
    npos = sum(1 for _, k, _ in sig if k == 0)
    lead = [extra_first] if extra_first else []
    items = []
    for i, (n, k, d) in enumerate(sig):
        items.append((n, k, d))
    out = list(lead)
    emitted_slash = False
    star_needed = any(k == 3 for _, k, _ in sig) and not any(k == 2 for _, k, _ in sig)
    star_done = False
    for i, (n, k, d) in enumerate(items):
        if k != 0 and npos and not emitted_slash:
            out.append("/")
            emitted_slash = True
        if k == 3 and star_needed and not star_done:
            out.append("*")
            star_done = True
        s = {0: pname(n), 1: pname(n), 2: "*" + pname(n), 3: pname(n), 4: "**" + pname(n)}[k]
        if d:
            s += "=_D"
        out.append(s)
    if npos and not emitted_slash:
        out.append("/")
    body = "{" + ", ".join(f"{n}: {pname(n)}" for n, _, _ in sig) + "}"
    parts.append(f"{indent}{'async ' if is_async else ''}def {fname}({', '.join(out)}):")
    parts.append(f"{indent}    return {body}")
    return "\n".join(parts)


def render_source(sc):
    shape = sc["shape"]
    if shape == "method":
        return "class C:\n" + render_def(sc, extra_first="self", indent="    ") + "\ncallable_ = C().f\n"
    if shape == "partial":
        return render_def(sc, extra_first="q") + "\ncallable_ = functools.partial(f, 7)\n"
    if shape == "async":
        return render_def(sc, is_async=True) + "\ncallable_ = f\n"
    if shape == "wraps":      # an ordinary decorator: the declared parameters are those of the wrapped function
        return (render_def(sc) + "\n@functools.wraps(f)\ndef w(*a, **k):\n    return f(*a, **k)\ncallable_ = w\n")
    if shape == "callobj":    # an object with __call__
        return "class C:\n" + render_def(sc, fname="__call__", extra_first="self", indent="    ") + "\ncallable_ = C()\n"
    if shape == "lambda":     # (only for signatures a lambda can spell: same parameter list)
        return render_def(sc).replace("def f(", "f = lambda ", 1).replace("):\n    return ", ": ", 1) + "\ncallable_ = f\n"
    return render_def(sc) + "\ncallable_ = f\n"


NONE_CODE = 299          # the value None, as an event keyword (a value like any other)


def _nz(v):
    return NONE_CODE if v is None else v


def _kwargs(sc):
    return {pname(n): (None if v == NONE_CODE else v) for n, v in sc["kw"]}


def _encode(sig, received):
    out = []
    for n, k, _ in sig:
        v = received[n]
        if v is _D:
            continue
        if k == 2:
            out.append([n, ["tuple", [_nz(x) for x in v]]])
        elif k == 4:
            out.append([n, ["dict", [[name_no(key), _nz(val)] for key, val in v.items()]]])
        else:
            out.append([n, ["one", _nz(v)]])
    return out


def run_machine(sc):
    """The callable is the `on` callback of a real transition; the event is sent with the call
    shape's positional values and keywords (which may use the library's reserved names)."""
    from statemachine import State, StateMachine
    from statemachine.event_data import EventData
    got = []
    snap = []
    def _snap_state(values):
        for v in values:
            for x in (list(v.values()) if isinstance(v, dict) else [v]):
                if isinstance(x, EventData):
                    return x.state
        return None
    ns = {"_D": _D, "State": State, "StateMachine": StateMachine, "GOT": got, "SNAP": snap, "_snap_state": _snap_state}
    wh = sc.get("where", "on")
    where = {"on": "on='f'", "cond": "cond='f'", "expr": "cond='f >= 1'", "expr2": "cond='0 < f and f == 1'",
             "after": "after='f'", "enter": "", "chained": "after='nxt'"}[wh]
    late = wh in ("after", "enter")        # the callback runs after the state was assigned
    # (chained: the callable is the `on` action of a second event that the first one names as its own `after`
    # callback: the second event is sent with the positional values and keywords of the first)
    chained = wh == "chained"
    ev_, src_, tgt_ = ("nxt", "s1", "s2") if chained else ("go", "s0", "s1")
    src = ("class M(StateMachine):\n    s0 = State(initial=True)\n"
           + ("    s1 = State(enter='f')\n" if wh == "enter" else "    s1 = State()\n") +
           f"    go = s0.to(s1, {where})\n" + ("    s2 = State()\n    nxt = s1.to(s2, on='f')\n" if chained else "")
           + render_def(sc, extra_first="self", indent="    ").replace(
               "        return ", "        GOT.append(") .rstrip() + ")\n"
           "        SNAP.append(_snap_state(list(locals().values())))\n        return 1\n"
           + ("    async def before_go(self):\n        return None\n" if sc.get("async_engine") else ""))
    model = None
    if sc.get("mshape") == "partial" and wh not in ("enter", "chained"):
        # the callback is a functools.partial stored as an attribute of the model (its first parameter is
        # already bound); the declared parameters are the ones the partial leaves open
        ns["functools"] = functools
        src = (render_def(sc, fname="g", extra_first="q").replace("    return ", "    GOT.append(").rstrip() + ")\n"
               "    SNAP.append(_snap_state(list(locals().values())))\n    return 1\n"
               "class Mdl:\n    state = None\n"
               "class M(StateMachine):\n    s0 = State(initial=True)\n    s1 = State()\n"
               f"    go = s0.to(s1, {where})\n"
               "MODEL = Mdl()\nMODEL.f = functools.partial(g, 7)\n")
    from statemachine.signature import SignatureAdapter
    fc = SignatureAdapter.from_callable
    getattr(fc, "__func__", fc).clear_cache()
    exec(compile(src, "<c07m>", "exec"), ns)  # noqa: S102
    sm = ns["M"](ns["MODEL"]) if (sc.get("mshape") == "partial" and wh not in ("enter", "chained")) else ns["M"]()
    kwargs = _kwargs(sc)
    try:
        sm.go(*sc["args"], **kwargs)      # (send() has its own parameter named `event`)
    except TypeError:
        return ["TE"]
    if not got:
        return ["TE"]
    r = got[0]

    def canon(name_no, v):
        if isinstance(v, int) or v is _D or v is None:
            return v
        i = name_no - 50
        now = "s1" if (late or chained) else "s0"
        # (event_data.state as it was when the callback ran: the state the machine was in at that moment)
        # (and the keyword arguments the user sent are still exactly the user's: the built-in values are added to
        # a copy, not to the trigger's own dictionary)
        reserved = {"event_data", "machine", "event", "model", "transition", "state", "source", "target"}
        ok = [lambda x: isinstance(x, EventData) and x.transition.source.id == src_ and snap[0].id == now
              and x.source.id == src_ and x.target.id == tgt_
              and set(x.trigger_data.kwargs) == {k_ for k_ in kwargs if k_ not in reserved},
              lambda x: x.current_state_value == sm.current_state_value and type(x).__name__ in ("M", "weakproxy", "weakcallableproxy"),
              lambda x: str(x) == ev_,
              lambda x: x is sm.model,
              lambda x: x.source.id == src_ and x.target.id == tgt_,
              lambda x: x.id == now,
              lambda x: x.id == src_,
              lambda x: x.id == tgt_]
        if 0 <= i < 8:
            try:
                return 350 + i if ok[i](v) else 999
            except Exception:  # noqa: BLE001
                return 999
        return 998
    out = {}
    for n, k, _ in sc["sig"]:
        v = r[n]
        if k == 2:
            out[n] = tuple(canon(0, x) for x in v)
        elif k == 4:
            out[n] = {key: canon(50 + RESERVED.index(key) if key in RESERVED else 0, val) for key, val in v.items()}
        else:
            out[n] = canon(n, v)
    return ["ok", _encode(sc["sig"], out)]


def run_impl(sc):
    if sc["shape"] == "machine":
        import warnings
        with warnings.catch_warnings():
            warnings.simplefilter("ignore")
            return run_machine(sc)
    from statemachine.signature import SignatureAdapter
    fc = SignatureAdapter.from_callable
    getattr(fc, "__func__", fc).clear_cache()
    ns = {"_D": _D, "functools": functools}
    exec(compile(render_source(sc), "<c07>", "exec"), ns)  # noqa: S102
    if sc.get("sig0") is not None:
        # another callable with the same qualified name was bound earlier in this process
        ns0 = {"_D": _D, "functools": functools}
        exec(compile(render_source({"sig": sc["sig0"], "shape": sc["shape"]}), "<c07>", "exec"), ns0)  # noqa: S102
        SignatureAdapter.from_callable(ns0["callable_"])
    f = ns["callable_"]
    adapter = SignatureAdapter.from_callable(f)
    args = list(sc["args"])
    kwargs = _kwargs(sc)
    try:
        ba = adapter.bind_expected(*args, **kwargs)
    except TypeError:
        return ["bindTE"]
    try:
        r = f(*ba.args, **ba.kwargs)
        if asyncio.iscoroutine(r):
            r = asyncio.new_event_loop().run_until_complete(r)
    except TypeError:
        return ["callTE"]
    return ["ok", _encode(sc["sig"], r)]


DRIVER_ERR = ["callTE"]


# ------------------------------------------------------------------ Coq side
def b(x):
    return "true" if x else "false"


def cq_bval(v):
    if v[0] == "one":
        return f"BOne {v[1]}"
    if v[0] == "tuple":
        return "BTuple [" + "; ".join(map(str, v[1])) + "]"
    return "BDict [" + "; ".join(f"({k}, {x})" for k, x in v[1]) + "]"


def coq_case(sc, obs):
    sig = "[" + "; ".join(f"pr {n} {KINDS[k]} {b(d)}" for n, k, d in sc["sig"]) + "]"
    args = "[" + "; ".join(map(str, sc["args"])) + "]"
    kw = "[" + "; ".join(f"({n}, {v})" for n, v in sc["kw"]) + "]"
    if obs[0] == "bindTE":
        r = "IBindTE"
    elif obs[0] == "callTE":
        r = "ICallTE"
    elif obs[0] == "TE":
        r = "ITE"
    else:
        r = "(IAssigned [" + "; ".join(f"({n}, {cq_bval(v)})" for n, v in obs[1]) + "])"
    return f"({sig}, {args}, {kw}, {b(sc['shape'] == 'machine')}, {r})"


# ------------------------------------------------------------------ generators
def wf_signatures(maxlen):
    """every signature `def` accepts with up to maxlen parameters (names 1..)"""
    out = []
    for npo in range(maxlen + 1):
        for npk in range(maxlen + 1 - npo):
            for vp in (0, 1):
                for nko in range(maxlen + 1 - npo - npk - vp):
                    for vk in (0, 1):
                        if npo + npk + vp + nko + vk > maxlen:
                            continue
                        npos = npo + npk
                        # defaults among positionals: a suffix; keyword-only: any subset
                        for ndef in range(npos + 1):
                            for kod in itertools.product([False, True], repeat=nko):
                                sig = []
                                n = 0
                                for i in range(npos):
                                    n += 1
                                    sig.append([n, 0 if i < npo else 1, i >= npos - ndef])
                                if vp:
                                    n += 1
                                    sig.append([n, 2, False])
                                for d in kod:
                                    n += 1
                                    sig.append([n, 3, d])
                                if vk:
                                    n += 1
                                    sig.append([n, 4, False])
                                out.append(sig)
    return out


def call_shapes(sig, maxargs, extra_names):
    names = [n for n, k, _ in sig if k in (0, 1, 3)] + extra_names
    for na in range(maxargs + 1):
        args = [100 + i for i in range(na)]
        for r in range(len(names) + 1):
            for sub in itertools.combinations(names, r):
                yield args, [[n, 200 + n] for n in sub]


def random_case(rng):
    n = rng.randint(1, 7)
    kinds = sorted(rng.choice([0, 0, 1, 1, 1, 2, 3, 3, 4]) for _ in range(n))
    # at most one *args / **kwargs
    seen = set()
    kinds2 = []
    for k in kinds:
        if k in (2, 4):
            if k in seen:
                continue
            seen.add(k)
        kinds2.append(k)
    sig = []
    defaulted = False
    for i, k in enumerate(kinds2):
        d = False
        if k in (0, 1):
            defaulted = defaulted or rng.random() < 0.3
            d = defaulted
        elif k == 3:
            d = rng.random() < 0.5
        sig.append([i + 1, k, d])
    names = [p[0] for p in sig if p[1] in (0, 1, 3)] + [20, 21, 50 + rng.randrange(8)]
    kw = [[x, (NONE_CODE if rng.random() < 0.2 else 200 + x)] for x in names if rng.random() < 0.4]
    rng.shuffle(kw)
    args = [100 + i for i in range(rng.randint(0, len(sig) + 2))]
    return {"sig": sig, "args": args, "kw": kw,
            "shape": rng.choice(["func", "method", "partial", "async", "wraps", "lambda"])}


def varnames(sig):
    return ([n for n, k, _ in sig if k in (0, 1)] + [n for n, k, _ in sig if k == 3]
            + [n for n, k, _ in sig if k == 2] + [n for n, k, _ in sig if k == 4])


def pair_case(rng):
    """the same qualified name defined twice with different signatures, bound one after the other"""
    a = random_case(rng)
    b_ = random_case(rng)
    if rng.random() < 0.6:
        # same parameter names, kinds reshuffled
        names = [p[0] for p in a["sig"]]
        b_ = random_case(rng)
        for _ in range(20):
            if len(b_["sig"]) == len(names):
                break
            b_ = random_case(rng)
        if len(b_["sig"]) == len(names):
            for p, n in zip(b_["sig"], names):
                p[0] = n
            b_["kw"] = [[x, 200 + x] for x in names + [20] if rng.random() < 0.4]
    b_["sig0"] = a["sig"]
    b_["shape"] = rng.choice(["func", "method"])
    return b_


def machine_case(rng):
    n = rng.randint(1, 6)
    odd = [60 + i for i in rng.sample(range(len(ODD)), 2)]
    pool = list(range(50, 58)) + [1, 2, 3] + odd
    rng.shuffle(pool)
    names = pool[:n]
    kinds = sorted(rng.choice([1, 1, 1, 3, 3, 2, 4]) for _ in range(n))
    seen, sig, defaulted = set(), [], False
    for nm_, k in zip(names, kinds):
        if k in (2, 4):
            if k in seen:
                k = 3
            else:
                seen.add(k)
        d = False
        if k == 1:
            defaulted = defaulted or rng.random() < 0.4
            d = defaulted
        elif k == 3:
            d = rng.random() < 0.5
        if k in (2, 4):
            nm_ = 30 + k      # *args / **kwargs get plain names
        sig.append([nm_, k, d])
    sig.sort(key=lambda p: p[1])
    kwn = [x for x in list(range(50, 58)) + [1, 2, 3, 20] + sorted(set(odd + [60 + rng.randrange(len(ODD))]))
           if rng.random() < 0.35]
    rng.shuffle(kwn)
    return {"sig": sig, "args": [100 + i for i in range(rng.randint(0, 3))],
            "kw": [[x, (NONE_CODE if (x < 50 and rng.random() < 0.2) else 200 + x)] for x in kwn], "shape": "machine",
            "where": rng.choice(["on", "on", "cond", "expr", "expr2", "after", "enter", "chained"]),
            "async_engine": rng.random() < 0.4,
            "mshape": "partial" if rng.random() < 0.25 else "method"}


def generate(rng, tier):
    scs = []
    parts = []
    maxlen = 3 if tier == "quick" else 4
    sigs = wf_signatures(maxlen)
    k = 0
    for sig in sigs:
        for args, kw in call_shapes(sig, min(len(sig) + 1, 4), [20]):
            scs.append({"sig": sig, "args": args, "kw": kw, "shape": ["func", "method", "partial", "async", "wraps", "lambda"][k % 6]})
            k += 1
    parts.append((f"n<={maxlen}: every signature `def` accepts with up to {maxlen} parameters ({len(sigs)} signatures) x "
                  f"0..len+1 positional values x every subset of (named parameters + one undeclared name) as "
                  f"keywords; callable kind rotates function / bound method / partial / coroutine", len(scs)))
    nrand = 4000 if tier == "quick" else 120000
    for _ in range(nrand):
        scs.append(random_case(rng))
    parts.append(("random signatures with 1..7 parameters, 0..len+2 positional values, random keyword subsets "
                  "including undeclared and reserved names, random callable kind", nrand))
    npair = 1500 if tier == "quick" else 30000
    for _ in range(npair):
        scs.append(pair_case(rng))
    parts.append(("pairs: a callable with the same qualified name but another signature was bound first in the "
                  "same process (signature cache), then this one is bound and called", npair))
    nm = 1500 if tier == "quick" else 30000
    for _ in range(nm):
        scs.append(machine_case(rng))
    parts.append(("machine-level: the callable is the `on` callback of a real transition, its parameters drawn "
                  "from the eight reserved names and user names, the event sent with positional values and keywords "
                  "that try to override reserved names", nm))
    return scs, parts


def nontrivial(sc, obs):
    """Non-trivial: the signature has >= 2 parameter kinds and the call carries surplus data (more
    positional values than positional parameters, or a keyword no parameter declares)."""
    kinds = {k for _, k, _ in sc["sig"]}
    npos = sum(1 for _, k, _ in sc["sig"] if k in (0, 1))
    names = {n for n, _, _ in sc["sig"]}
    surplus = len(sc["args"]) > npos or any(n not in names for n, _ in sc["kw"])
    return len(kinds) >= 2 and surplus


# ------------------------------------------------------------------ known deviations
def d15(sc):
    """positional-only parameter, reached with the positional values exhausted, whose name is also an
    event keyword: the binder raises TypeError (copied from inspect)"""
    sig = sc["sig"]
    i = len(sc["args"])
    kwn = {n for n, _ in sc["kw"]}
    return i < len(sig) and sig[i][1] == 0 and sig[i][0] in kwn


def d15b(sc):
    """a later positional-only parameter is filled from a same-named keyword while an earlier one is
    missing: CPython then rejects the call"""
    sig = sc["sig"]
    kwn = {n for n, _ in sc["kw"]}
    i = len(sc["args"])
    return any(k == 0 and n in kwn for n, k, _ in sig[i + 1:])


def d7(sc):
    """two callables with the same qualified name and the same tuple of variable names (co_varnames)
    but different parameter kinds / defaults share one cached signature"""
    s0 = sc.get("sig0")
    return s0 is not None and s0 != sc["sig"] and [pname(n) for n in varnames(s0)] == [pname(n) for n in varnames(sc["sig"])]


# verdict 1 = implementation equals the model and the model itself breaks the contract (D15's shape);
# verdict 2 = implementation differs from the model of an independently bound callable (D7's shape)
CLASSIFIERS = {"C07.posonly_named_in_kwargs": lambda sc, v: v == 1 and (d15(sc) or d15b(sc)),
               "C07.signature_cache_same_varnames": lambda sc, v: v == 2 and d7(sc)}
