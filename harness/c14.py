"""C14: see harness/engfam.py (shared engine-family driver) and coq/theories/Run/EngineRun.v."""
from . import engfam

engfam.install("C14", globals())
