"""./check <Cxx> [quick|thorough] [--replay <file>]"""
import collections
import glob
import importlib
import json
import multiprocessing as mp
import os
import random
import sys
import time

from . import core


def _impl_worker(args):
    modname, sc = args
    mod = importlib.import_module(modname)
    try:
        r = mod.run_impl(sc)
    except BaseException as e:  # noqa: BLE001 - the driver itself must never die silently
        return {"driver_error": repr(e)}
    try:
        import pickle
        pickle.dumps(r)
    except Exception:  # noqa: BLE001 - an observation holding a library object: keep its text only
        r = json.loads(json.dumps(r, default=repr))
    return r


def run_impl_parallel(modname, scs, procs=16, chunksize=64):
    if len(scs) < 64:
        return [_impl_worker((modname, s)) for s in scs]
    ctx = mp.get_context("fork")
    with ctx.Pool(procs) as pool:
        return pool.map(_impl_worker, [(modname, s) for s in scs], chunksize=chunksize)


def load_corpus(prop):
    scs = []
    for p in sorted(glob.glob(os.path.join(core.VERIF, "corpus", prop, "*.json"))):
        d = json.load(open(p))
        scs.extend(d["scenarios"] if "scenarios" in d else [d["scenario"]])
    return scs


def classify_known(prop, mod, sc, findings, verdict=None):
    """Return the finding entry (status known) whose classifier matches this failing scenario."""
    for f in findings:
        if f["property"] != prop or f.get("status") != "known":
            continue
        pred = getattr(mod, "CLASSIFIERS", {}).get(f["classifier"])
        if pred and (pred(sc, verdict) if pred.__code__.co_argcount == 2 else pred(sc)):
            return f
    return None


def generic(mod, tier, seed, replay):
    prop = mod.PROP
    t0 = time.time()
    proof = core.build_proofs(prop)
    core.log(f"[{prop}] proofs ok={proof['ok']} obligations={proof['obligations']} "
             f"discharged={proof['discharged']} build={proof.get('build_s')}s")
    rng = random.Random(seed)
    if replay:
        d = json.load(open(replay))
        scs = d.get("scenarios") or [d["scenario"]]
        parts = [("replay", len(scs))]
    else:
        corpus = load_corpus(prop)
        scs, parts = mod.generate(rng, tier)
        scs = corpus + scs
        parts = [("corpus (minimised past failures, run first)", len(corpus))] + parts
    t1 = time.time()
    obs = run_impl_parallel(mod.__name__, scs)
    t2 = time.time()
    drv = [(s, o) for s, o in zip(scs, obs) if isinstance(o, dict) and "driver_error" in o]
    terms = [mod.coq_case(s, o if not isinstance(o, dict) or "driver_error" not in o else mod.DRIVER_ERR)
             for s, o in zip(scs, obs)] if not drv else None
    verdicts = []
    coq_err = None
    if proof["ok"] or os.path.exists(os.path.join(core.COQ, "theories", *mod.RUN_MODULE.split(".")) + ".vo"):
        try:
            if terms is None:
                raise RuntimeError(f"driver error: {drv[0][1]}")
            verdicts = core.run_coq_cases(prop, mod.RUN_MODULE, terms, chunk=getattr(mod, "CHUNK", 400),
                                          verdict_fn=getattr(mod, "VERDICT_FN", "verdict"),
                                          case_type=getattr(mod, "CASE_TYPE", None))
        except Exception as e:  # noqa: BLE001
            coq_err = str(e)
            core.log(f"[{prop}] model evaluation failed: {coq_err[:2000]}")
    else:
        coq_err = "model does not compile"
    t3 = time.time()
    core.log(f"[{prop}] scenarios={len(scs)} impl={t2 - t1:.1f}s coq={t3 - t2:.1f}s")

    findings = core.load_findings()
    hist = collections.Counter(verdicts)
    violations = []
    known_hit = {}
    failing = [(s, o, v) for s, o, v in zip(scs, obs, verdicts) if v in (1, 2, 3)]
    # deterministic order, smallest first (cheap stand-in for shrinking; generators are size-ordered)
    failing.sort(key=lambda x: len(json.dumps(x[0])))
    n_unlisted = 0
    for s, o, v in failing:
        f = classify_known(prop, mod, s, findings, v)
        if f is not None:
            known_hit.setdefault(f["id"], (f, s, o))
            continue
        if v == 1:
            # model deviates from the Spec here and the implementation agrees with the model, yet no
            # listed finding covers it: report
            pass
        n_unlisted += 1
        if len(violations) < 3:
            shr = getattr(mod, "shrink", None)
            if shr:
                s, o = shr(s, o)
            payload = {"property": prop, "scenario": s, "implementation_observed": o,
                       "verdict_digit": v, "seed": seed,
                       "python_source": mod.render_source(s) if hasattr(mod, "render_source") else None,
                       "how_to_replay": f"./check {prop} --replay <this file>"}
            if hasattr(mod, "explain"):
                try:
                    payload["model"] = mod.explain(s, o)
                except Exception as e:  # noqa: BLE001
                    payload["model"] = f"explain failed: {e}"
            path = core.write_replay(prop, payload)
            violations.append((path, "" if v in (1, 2) else "no-failing-input-found"))
    if coq_err:
        path = core.write_replay(prop, {"property": prop, "kind": "correspondence-not-evaluable",
                                        "error": coq_err[:4000]})
        violations.append((path, "no-failing-input-found"))

    known_lines = []
    for fid, (f, s, o) in sorted(known_hit.items()):
        known_lines.append(f"KNOWN-FINDING: property={prop} {f['id']}: {f['what']}")

    nontriv = set()
    for s, o in zip(scs, obs):
        if isinstance(o, dict) and "driver_error" in o:
            continue              # (reported above as a correspondence that could not be evaluated)
        try:
            if mod.nontrivial(s, o):
                nontriv.add(core.scen_hash(s))
        except Exception:  # noqa: BLE001 - the coverage measure must never take the check down
            pass
    obs_hist = collections.Counter(json.dumps(o, default=str)[:60] for o in obs)
    coverage = {
        "evaluations": len(scs),
        "distinct_nontrivial": len(nontriv),
        "rule": (mod.nontrivial.__doc__ or "").strip(),
        "samples": [{"scenario": s, "implementation_observed": o} for s, o in
                    list(zip(scs, obs))[:: max(1, len(scs) // 5)][:6]],
        "traces_validated_against_impl": len(verdicts),
        "disagreements_checked": len(failing),
        "unlisted_disagreements": n_unlisted,
        "verdict_histogram": {str(k): v for k, v in sorted(hist.items())},
        "implementation_outcome_histogram": dict(obs_hist.most_common(12)),
        "generator_parts": [{"what": w, "count": c} for w, c in parts],
        "exhaustive": False,
        "exhaustive_subspaces": [w for w, c in parts if w.startswith("n=")],
        "timing_s": {"proof_build": proof.get("build_s"), "impl": round(t2 - t1, 1), "coq_cases": round(t3 - t2, 1)},
    }
    if hasattr(mod, "extra_coverage"):
        coverage.update(mod.extra_coverage(scs, obs, verdicts))
    return core.finish(prop, tier, seed, t0, proof, coverage, violations, known_lines,
                       assumptions=getattr(mod, "ASSUMPTIONS", []))


def main(argv):
    if not argv:
        print(__doc__)
        return 2
    prop = argv[0]
    tier = os.environ.get("VERIF_TIER", "quick")
    replay = None
    rest = argv[1:]
    while rest:
        a = rest.pop(0)
        if a in ("quick", "thorough"):
            tier = a
        elif a == "--replay":
            replay = rest.pop(0)
    seed = int(os.environ.get("VERIF_SEED", "20260927"))
    mod = importlib.import_module(f"harness.{prop.lower()}")
    if hasattr(mod, "run"):
        return mod.run(tier, seed, replay)
    return generic(mod, tier, seed, replay)


if __name__ == "__main__":
    sys.exit(main(sys.argv[1:]))
