"""Seeded generator of engine-family scenarios (see eng.py for the format).

Mostly-valid by construction: one initial state, spanning tree from it, finals without out-edges,
every referenced callback name provided by somebody.  Knobs (dict `K`) let each property stress its
own dimension; every random choice derives from the one `rng` passed in.
"""

VALUES = [None, None, True, False, 0, 1, 7, -3, {"s": 0}, {"s": 1}, {"s": 2}, {"l": []}, {"l": [1, 2]},
          {"t": [1]}, {"t": []}, {"o": 1, "b": True}, {"o": 2, "b": False}, {"l": [None]},
          {"o": 5, "b": True, "eq": 1}]          # the last one claims to be equal to everything
TRUTHY = [True, 1, 7, {"s": 1}, {"l": [0]}, {"t": [1]}, {"o": 1, "b": True}]
FALSY = [False, None, 0, {"s": 0}, {"l": []}, {"t": []}, {"o": 2, "b": False}]

DEFAULT_KNOBS = dict(
    nmax=5, evmax=4, extra_trans=(0, 6), multi_cand=0.5, multi_event=0.3, self_loop=0.2, internal=0.5,
    final=0.2, guards=0.5, guard_max=3, validators=0.15, cbs=0.35, cb_max=3, conv=0.15,
    listeners=(0, 2), multi_prov=0.2, sends=0.0, raises=0.0, guard_raise=0.0, ops=(1, 12),
    unknown_ev=0.1, p_activate=0.03, p_construct=0.03, p_write=0.03, rtc_false=0.15, allow=0.3,
    resume=0.1, start=0.1, send_budget=8, scripts=(0, 4), ret_none=0.3,
    attr_guards=0.0, p_async=0.0, async_mode=None, yields=0.0, falsy_machine=0.06, share_groups=0.15, p_values=0.15, styles=("str", "str", "list", "obj", "assign", "mixed"), plain_senders=0.5,
)
SHARE = ["val", "before", "on", "after", "enter", "exit"]
STATE_VALUES = [0, 1, 2, -1, {"s": 0}, {"s": 1}, {"t": [1]}, {"t": []}, 10, 11, 12]


def gen_scenario(rng, knobs=None):
    K = dict(DEFAULT_KNOBS)
    K.update(knobs or {})
    n = rng.randint(1, K["nmax"])
    ne = rng.randint(1, K["evmax"])
    initial = 0 if rng.random() < 0.7 else rng.randrange(n)
    finals = [s for s in range(n) if s != initial and rng.random() < K["final"]]
    nonfinal = [s for s in range(n) if s not in finals]
    counter = [0]
    by_group = {}     # group kind -> list of user names already created

    def fresh(group):
        counter[0] += 1
        nm = [0, counter[0]]
        by_group.setdefault(group, []).append(nm)
        return nm

    def pick_names(group, prob, mx):
        out = []
        if rng.random() < prob:
            for _ in range(rng.randint(1, mx)):
                pool = by_group.get(group, [])
                if rng.random() < K["share_groups"]:
                    pool = [x for g in SHARE for x in by_group.get(g, [])]
                if pool and rng.random() < 0.3:
                    nm = rng.choice(pool)
                else:
                    nm = fresh(group)
                if nm not in out:
                    out.append(nm)
        return out

    def new_trans(s, t, evs, internal=False):
        conds = []
        if rng.random() < K["guards"]:
            for _ in range(rng.randint(1, K["guard_max"])):
                pool = by_group.get("cond", [])
                nm = rng.choice(pool) if pool and rng.random() < 0.3 else fresh("cond")
                if all(nm != c[0] for c in conds):
                    conds.append([nm, rng.random() < 0.6])
        conds.sort(key=lambda c: not c[1])    # cond entries first, then unless (Transition.__init__)
        return {"s": s, "t": t, "ev": evs, "int": internal,
                "val": pick_names("val", K["validators"], 2), "cond": conds,
                "before": pick_names("before", K["cbs"], K["cb_max"]),
                "on": pick_names("on", K["cbs"], K["cb_max"]),
                "after": pick_names("after", K["cbs"], K["cb_max"])}

    def rand_events():
        evs = [rng.randrange(ne)]
        if rng.random() < K["multi_event"] and ne > 1:
            e2 = rng.randrange(ne)
            if e2 not in evs:
                evs.append(e2)
        return evs

    trans = []
    order = [s for s in range(n) if s != initial]
    rng.shuffle(order)
    reached = [initial]
    for s in order:
        srcs = [x for x in reached if x not in finals] or [initial]
        trans.append(new_trans(rng.choice(srcs), s, rand_events()))
        reached.append(s)
    for _ in range(rng.randint(*K["extra_trans"])):
        s = rng.choice(nonfinal)
        if rng.random() < K["self_loop"]:
            t = s
        else:
            t = rng.randrange(n)
        if trans and rng.random() < K["multi_cand"]:
            base = rng.choice(trans)
            s, evs = base["s"], list(base["ev"])
            if rng.random() < 0.3:
                t = base["t"]
        else:
            evs = rand_events()
        internal = (s == t) and rng.random() < K["internal"]
        trans.append(new_trans(s, t, evs, internal))
    if not trans:
        trans.append(new_trans(initial, initial, rand_events()))
    if rng.random() < 0.5:
        rng.shuffle(trans)
    states = [{"enter": pick_names("enter", K["cbs"], 2), "exit": pick_names("exit", K["cbs"], 2)}
              for _ in range(n)]

    # some guard names are plain attributes (numbered 500..) instead of methods
    if K["attr_guards"] > 0:
        ren = {}
        for nm in by_group.get("cond", []):
            if rng.random() < K["attr_guards"]:
                ren[nm[1]] = 500 + nm[1]
        for t in trans:
            for c in t["cond"]:
                if c[0][1] in ren:
                    c[0] = [0, ren[c[0][1]]]
        if ren:
            K["sends"] = 0.0      # attribute values are assigned after attachment: no event may run before that
    # providers
    nprov = 2 + rng.randint(*K["listeners"])
    provs = [[] for _ in range(nprov)]
    used = []
    for t in trans:
        for key in ("val", "before", "on", "after"):
            used += [(tuple(nm), key) for nm in t[key]]
        used += [(tuple(c[0]), "cond") for c in t["cond"]]
    for st in states:
        used += [(tuple(nm), "enter") for nm in st["enter"]] + [(tuple(nm), "exit") for nm in st["exit"]]
    seen = set()
    cbs = []          # (p, nm, group)
    for nm, group in used:
        if nm in seen:
            continue
        seen.add(nm)
        ps = [rng.randrange(nprov)]
        if rng.random() < K["multi_prov"]:
            q = rng.randrange(nprov)
            if q not in ps:
                ps.append(q)
        for p in sorted(ps):
            provs[p].append(list(nm))
            cbs.append((p, list(nm), group))
    # convention names
    conv = [([1, 0], "before"), ([2, 0], "on"), ([3, 0], "after"), ([7, 0], "enter"), ([8, 0], "exit")]
    conv += [([4, e], "before") for e in range(ne)] + [([5, e], "on") for e in range(ne)]
    conv += [([6, e], "after") for e in range(ne)]
    conv += [([9, s], "enter") for s in range(n)] + [([10, s], "exit") for s in range(n)]
    for nm, group in conv:
        for p in range(nprov):
            if rng.random() < K["conv"] / (1 + p):
                provs[p].append(nm)
                cbs.append((p, nm, group))

    # options needed by the behaviour table
    rtc = not (rng.random() < K["rtc_false"])

    # executors: which callbacks can run together in one group execution (over-approximation)
    has = {(p, tuple(nm)) for p, nm, _g in cbs}

    def members(names):
        return {(p, tuple(nm)) for nm in names for p in range(nprov) if (p, tuple(nm)) in has}

    execs = []
    for t in trans:
        execs.append(members(t["val"]))
        execs.append(members([c[0] for c in t["cond"]]))
        execs.append(members(t["before"] + [[1, 0]] + [[4, e] for e in t["ev"]]))
        execs.append(members(t["on"] + [[2, 0]] + [[5, e] for e in t["ev"]]))
        execs.append(members(t["after"] + [[3, 0]] + [[6, e] for e in t["ev"]]))
    for i, st in enumerate(states):
        execs.append(members(st["enter"] + [[7, 0], [9, i]]))
        execs.append(members(st["exit"] + [[8, 0], [10, i]]))
    senders, raisers = set(), set()

    def may_send(key):
        if K.get("allow_amb"):
            return True
        for ex in execs:
            if key in ex:
                if not rtc and len(ex) > 1:
                    return False
                if (ex & senders) - {key} or (ex & raisers and len(ex) > 1):
                    return False
        return True

    def may_raise(key):
        if K.get("allow_amb"):
            return True
        return all(len(ex) == 1 for ex in execs if key in ex)

    # behaviour table
    budget = [K["send_budget"]]

    def ret_for(group):
        if group == "cond":
            return rng.choice(TRUTHY if rng.random() < 0.65 else FALSY)
        if rng.random() < K["ret_none"]:
            return None
        if rng.random() < K.get("odd_values", 0.0):
            return rng.choice([{"o": 5, "b": True, "eq": 1}, {"x": 3}, {"x": 4}])     # equal-to-everything / an exception object
        return rng.choice(VALUES)

    def script_for(key, group):
        acts = []
        if group == "cond":
            if rng.random() < K["guard_raise"] and may_raise(key):
                raisers.add(key)
                acts.append(["raise", rng.randint(1, 9)])
        else:
            while rng.random() < K["sends"] and budget[0] > 0 and len(acts) < 3 and may_send(key):
                senders.add(key)
                budget[0] -= 1
                acts.append(["send", rng.randrange(ne), 100 + budget[0]])
            if K.get("cb_writes") and rng.random() < K["cb_writes"] and may_raise(key):
                # the callback assigns the state itself through the low-level API (before, between or after its sends)
                acts.insert(rng.randint(0, len(acts)), ["write", rng.randrange(n)])
            if rng.random() < K["raises"] * (3 if group == "val" else 1) and may_raise(key):
                raisers.add(key)
                acts.append(["raise", rng.randint(1, 9)])
        return {"a": acts, "r": ret_for(group)}

    tbl = []
    order = list(cbs)
    rng.shuffle(order)
    for p, nm, group in order:
        key = (p, tuple(nm))
        nscripts = 0 if (nm[0] == 0 and nm[1] >= 500) else rng.randint(*K["scripts"])   # attributes: one value
        scripts = [script_for(key, group) for _ in range(nscripts)]
        dflt = {"a": [], "r": ret_for(group)}
        tbl.append([p, nm[0], nm[1], scripts, dflt])

    # sometimes a before / on callback of an internal transition assigns another state through the low-level
    # API: the engine's own assignment after `on` must win (the `after` callbacks see the target)
    if K.get("cb_writes") and n > 1:
        for t in trans:
            if not t.get("int") or rng.random() >= 4 * K["cb_writes"]:
                continue
            names = {tuple(nm) for nm in t["on"] + t["before"]}
            rows = [row for row in tbl if (row[1], row[2]) in names and row[3] and may_raise((row[0], (row[1], row[2])))
                    and not any(a_[0] == "write" for a_ in row[3][0]["a"])]
            if rows:
                row = rng.choice(rows)
                row[3][0]["a"].insert(0, ["write", rng.choice([x for x in range(n) if x != t["t"]])])

    # options and history
    start = rng.randrange(n) if rng.random() < K["start"] else None
    field0 = rng.randrange(n) if rng.random() < K["resume"] else None
    ops = [["construct"]]
    tag = 0
    for _ in range(rng.randint(*K["ops"])):
        r = rng.random()
        tag += 1
        if r < K["p_activate"]:
            ops.append(["activate"])
        elif r < K["p_activate"] + K["p_construct"]:
            ops.append(["construct"])
        elif r < K["p_activate"] + K["p_construct"] + K["p_write"]:
            ops.append(["write", rng.randrange(n)])
        else:
            e = rng.randrange(ne) if rng.random() >= K["unknown_ev"] else rng.randint(ne, ne + 2) + (10 if rng.random() < 0.5 else 0)
            if e >= ne and rng.random() < K.get("attr_unknown", 0.0):
                e = rng.randint(800, 809)        # an undeclared name that is another attribute of the machine
            ops.append(["send", e, tag])
    style = rng.choice(K["styles"])
    if style == "assign":
        # the event order inside one transition is then the order of the event attributes
        for t in trans:
            t["ev"].sort()
    if style == "obj":
        # placeholder Event() objects are swapped for the named events in order of first appearance
        # (states in order, their transitions in order) and each swap moves the event to the end of
        # its transition's list: render a fixpoint of that reordering
        for _ in range(6):
            seen = []
            for st in range(n):
                for t in trans:
                    if t["s"] == st:
                        seen += [e for e in t["ev"] if e not in seen]
            new = [sorted(t["ev"], key=seen.index) for t in trans]
            if new == [t["ev"] for t in trans]:
                break
            for t, ev in zip(trans, new):
                t["ev"] = ev
        else:
            style = "str"
    mixed = None
    if style == "mixed":
        # single-event transitions only may take their event from a class attribute
        mixed = [1 if (len(t["ev"]) == 1 and rng.random() < 0.5) else 0 for t in trans]
    values = None
    if rng.random() < K["p_values"]:
        pool = list(STATE_VALUES)
        rng.shuffle(pool)
        values = [pool[i] if rng.random() < 0.7 else None for i in range(n)]
        if start is not None and values[start] in (0, {"s": 0}, {"t": []}):
            values[start] = None          # falsy start_value: see C10 (kept out of the engine family)
        if n >= 2 and rng.random() < K.get("id_values", 0.0):
            # one state's value is spelled like the id of another state (whose own value is something else)
            i_, j_ = rng.sample(range(n), 2)
            if values[j_] is None:
                values[j_] = {"s": 7}
            values[i_] = {"sid": j_}
            if rng.random() < 0.5:
                start = i_
    acoro = []
    if rng.random() < K["p_async"]:
        mode = K["async_mode"] or rng.choice(["all", "one", "mixed"])
        multi = {}
        for p, nm, group in cbs:
            multi.setdefault(tuple(nm), []).append(p)
        for p, nm, group in cbs:
            key = (p, tuple(nm))
            if group == "cond" and len(multi[tuple(nm)]) > 1:
                continue                  # coroutine guard inside a conjunction of providers: D10
            if nm[0] == 0 and nm[1] >= 500:
                continue                  # a plain attribute, not a function
            if mode == "all" or (mode == "mixed" and rng.random() < 0.5) or (mode == "one" and not acoro):
                acoro.append([p, nm[0], nm[1]])
        # a plain (non-coroutine) callback that sends from the async engine gets an un-awaited
        # coroutine back (D18): make every sender a coroutine
        have = {tuple(x) for x in acoro}
        if acoro and rng.random() >= K["plain_senders"]:
            for p, kind, k, scripts, _d in tbl:
                if any(a[0] == "send" for s_ in scripts for a in s_["a"]) and (p, kind, k) not in have:
                    acoro.append([p, kind, k])
    if acoro and K["yields"] > 0:
        have = {tuple(x) for x in acoro}
        for p, kind, k, scripts, dflt in tbl:
            if (p, kind, k) in have:
                for sc_ in scripts + [dflt]:
                    if rng.random() < K["yields"]:
                        acts = sc_["a"]
                        pos = len(acts) - 1 if acts and acts[-1][0] == "raise" else len(acts)
                        if sc_ is dflt:
                            continue          # default scripts stay pure
                        acts.insert(pos, ["yield"])
    # other ways of attaching the machine's own callbacks (names no other provider has): function
    # objects instead of names; `@state.enter / .exit def f`; `@tr.before / .on / ... def f`
    others_ = {tuple(nm) for prov in provs[1:] for nm in prov}
    sole = [nm for nm in provs[0] if nm[0] == 0 and nm[1] < 500 and tuple(nm) not in others_]
    callable_names = [list(nm) for nm in sole if rng.random() < K.get("callable_refs", 0.0)]
    csets = {tuple(nm) for nm in callable_names}
    state_decor = []
    if rng.random() < K.get("state_decor", 0.0):
        for i, st in enumerate(states):
            for g in ("enter", "exit"):
                if st[g] and st[g][-1] in sole and tuple(st[g][-1]) not in csets and rng.random() < 0.6:
                    state_decor.append([i, g, list(st[g][-1])])
    decor = None
    if style == "assign" and rng.random() < K.get("decor", 0.0):
        cbs = []
        for j, t in enumerate(trans):
            for g in ("before", "on", "after", "val"):
                if t[g] and t[g][-1] in sole and tuple(t[g][-1]) not in csets and rng.random() < 0.5:
                    cbs.append([j, g, list(t[g][-1])])
            if (t["cond"] and t["cond"][-1][0] in sole and tuple(t["cond"][-1][0]) not in csets and rng.random() < 0.5
                    and (not t["cond"][-1][1] or all(b_ for _n, b_ in t["cond"]))):
                cbs.append([j, "cond" if t["cond"][-1][1] else "unless", list(t["cond"][-1][0])])
        decor = {"cbs": cbs, "event": None}
    if rng.random() < K.get("p_clone", 0.0):
        # from some point on the history continues on a deep copy of the machine (no constructor call after it)
        pos = rng.randint(1, len(ops))
        ops = ops[:pos] + [["clone"]] + [op for op in ops[pos:] if op[0] != "construct"]
    any_group = 0
    if rng.random() < K.get("any_group", 0.0):
        # one more event: from every non-final state to one target, with the guards / actions of an
        # existing transition (declared last; rendered as target.from_.any(...))
        x = rng.randrange(n)
        e_any = ne
        kw_any = {"int": False, "val": [], "cond": [], "before": [], "on": [], "after": []}
        donors = [t for t in trans if not t["int"]]
        if donors and rng.random() < K.get("any_shared_event", 0.0):
            # the event already has explicit transitions, one of them to the same target: in that state the
            # generated transition is one more candidate, after the explicit ones
            d0 = rng.choice(donors)
            x, e_any = d0["t"], d0["ev"][0]
            style, mixed, decor = rng.choice(["str", "list"]), None, None
        else:
            ne += 1
        if donors and rng.random() < 0.7:
            d = rng.choice(donors)
            kw_any = {"int": False, "val": [list(x_) for x_ in d["val"]],
                      # (cond entries are registered before unless entries: keep that order)
                      "cond": sorted([[list(nm), (not b) if rng.random() < 0.5 else b] for nm, b in d["cond"]],
                                     key=lambda nb: not nb[1]),
                      "before": [list(x_) for x_ in d["before"]], "on": [list(x_) for x_ in d["on"]],
                      "after": [list(x_) for x_ in d["after"]]}
        import copy as _copy
        for s_ in range(n):
            if s_ not in finals:
                trans.append(dict(_copy.deepcopy(kw_any), s=s_, t=x, ev=[e_any]))
                any_group += 1
                if mixed is not None:
                    mixed.append(0)
        # a decorated / callable name must not be the template's last guard only on some copies: keep the
        # decorator choices away from these transitions (they are rendered by one from_.any call)
        if decor:
            decor["cbs"] = [c for c in decor["cbs"] if c[0] < len(trans) - any_group]
        ops = [(["send", e_any, op[2]] if (op[0] == "send" and rng.random() < 0.35) else op) for op in ops]
    # some coroutine callbacks (never all of them: the engine is chosen from coroutine *functions*) are
    # plain functions that return the coroutine
    wrapped_coros = []
    # (the first coroutine function must really be registered: a user name always is, a convention name may
    # belong to an event / state nothing uses)
    if len(acoro) >= 2 and acoro[0][1] == 0 and rng.random() < K.get("wrapped_coros", 0.0):
        cand = [list(x) for x in acoro[1:]]
        wrapped_coros = [x for x in cand if rng.random() < 0.5]
    # a couple of names provided by the model / listeners only are also ids of states
    if rng.random() < K.get("stateid_names", 0.0):
        mine = {tuple(nm) for nm in provs[0]}
        cands = sorted({tuple(nm) for prov in provs[1:] for nm in prov if nm[0] == 0 and nm[1] < 300} - mine)
        rng.shuffle(cands)
        ren = {c: [0, 300 + j] for c, j in zip(cands[:2], rng.sample(range(n), min(2, n, len(cands[:2]))))}

        def rn(nm):
            return list(ren.get(tuple(nm), nm))
        for t in trans:
            for g in ("val", "before", "on", "after"):
                t[g] = [rn(x) for x in t[g]]
            t["cond"] = [[rn(nm), b_] for nm, b_ in t["cond"]]
        for st in states:
            for g in ("enter", "exit"):
                st[g] = [rn(x) for x in st[g]]
        provs = [[rn(nm) for nm in prov] for prov in provs]
        for row in tbl:
            if (row[1], row[2]) in ren:
                row[1], row[2] = ren[(row[1], row[2])]
        acoro = [[p_, *ren.get((kd, k_), [kd, k_])] for p_, kd, k_ in acoro]
    lstyles = {}
    if rng.random() < K.get("lstyles", 0.0):
        coro_p = {x[0] for x in acoro}
        for p_ in range(2, len(provs)):
            if p_ not in coro_p and rng.random() < 0.6:
                lstyles[str(p_)] = rng.choice(["classobj", "proxy"])
    hosted = rng.random() < K.get("hosted", 0.0)
    decoys = ([[0 if rng.random() < 0.7 else rng.randrange(len(ops)), rng.choice([None] + list(range(n)))]
               for _ in range(rng.randint(1, 2))] if rng.random() < K.get("decoys", 0.0) else [])
    inst_l = rng.random() < K.get("inst_listeners", 0.0)
    # exceptions of callbacks that derive from classes Python / asyncio give a meaning to
    exc_classes = (rng.sample(["runtime", "attr", "key", "type", "notimpl", "falsy", "falsy", "index", "index"], rng.randint(1, 3))
                   if rng.random() < K.get("exc_classes", 0.0) else [])
    # attribute guards that are properties (their value may change from read to read, a read may raise)
    prop_guards = False
    if (rng.random() < K.get("prop_guards", 0.0) and not inst_l and not lstyles and not decoys and not hosted
            and any(r_[1] == 0 and r_[2] >= 500 for r_ in tbl)):
        prop_guards = True
        solo = {}
        for t in trans:
            for c in t["cond"]:
                solo[tuple(c[0])] = solo.get(tuple(c[0]), True) and len(t["cond"]) == 1
        nprovs_of = {}
        for prov in provs:
            for nm in prov:
                nprovs_of[tuple(nm)] = nprovs_of.get(tuple(nm), 0) + 1
        for row in tbl:
            if row[1] == 0 and row[2] >= 500:
                alone = solo.get((0, row[2]), False) and nprovs_of.get((0, row[2]), 0) == 1
                row[3] = [{"a": ([["raise", rng.randint(1, 9)]] if (alone and rng.random() < 0.3) else []),
                           "r": rng.choice(TRUTHY if rng.random() < 0.6 else FALSY)} for _ in range(rng.randint(1, 4))]
    # some convention-named callbacks of the machine exist on the instance only (assigned in __init__ before
    # the machine is set up); another instance of the class without them is created first
    inst_hooks = []
    if rng.random() < K.get("inst_hooks", 0.0):
        others2 = {tuple(nm) for prov in provs[1:] for nm in prov}
        inst_hooks = [list(nm) for nm in provs[0] if nm[0] in (1, 2, 3, 4, 5, 6, 7, 8, 9, 10) and rng.random() < 0.7]
        if inst_hooks:
            decoys = [[0, None]] + decoys
    # a decoy instance of the class whose model / listeners are of twin classes with the other kind of functions
    twin_decoy = None
    if rng.random() < K.get("twin_decoy", 0.0) and not lstyles and not inst_l and len(provs) >= 2:
        coro0 = any(x[0] == 0 for x in acoro)
        if acoro and not coro0:
            twin_decoy = "plain"
        elif not acoro and any(provs[1:]):
            twin_decoy = "coro"
        if twin_decoy:
            decoys = [[0, None]] + decoys
    # value-object listeners: distinct listener objects that compare and hash equal
    eqgroups = None
    if len(provs) > 3 and rng.random() < K.get("eqgroups", 0.0):
        eqgroups = {str(p_): rng.randint(1, 2) for p_ in range(2, len(provs))}
        eqgroups["3"] = eqgroups["2"]
    alias_inherit = style == "assign" and not any_group and rng.random() < K.get("alias_inherit", 0.0)
    falsy_listeners = [p_ for p_ in range(2, len(provs)) if rng.random() < K.get("falsy_listeners", 0.0)]
    extend_event = None
    if (style in ("str", "list") and not any_group and not alias_inherit and values is None
            and rng.random() < K.get("extend_inherit", 0.0)):
        extend_event = ne
        ne += 1
        for t in trans:
            t["ev"] = t["ev"] + [extend_event]
        ops = [(["send", extend_event, op[2]] if (op[0] == "send" and rng.random() < 0.4) else op) for op in ops]
    # the allow_event_without_transition option set through the public attribute right after construction (only
    # when the constructor itself processes no event sent by a callback: enter callbacks of the start state)
    late_allow = False
    if rng.random() < K.get("late_allow", 0.0) and not hosted and not decoys:
        s0_ = start if start is not None else initial
        enter_names = {tuple(nm) for nm in states[s0_]["enter"]} | {(7, 0), (9, s0_)}
        if field0 is not None:
            enter_names = set()
        late_allow = not any((row[1], row[2]) in enter_names and any(a_[0] == "send" for sc_ in row[3] for a_ in sc_["a"])
                             for row in tbl)
    if acoro and rng.random() < K.get("explicit_activate", 0.0) and ops and ops[0] == ["construct"]:
        ops = [ops[0], ["activate"]] + ops[1:]         # the async machine is activated explicitly, first thing
    base_first = extend_event is not None and not acoro and rng.random() < 0.6
    return {"base_first": base_first, "positional_ctor": rng.random() < K.get("positional_ctor", 0.0), "late_allow": late_allow, "extend_event": extend_event, "falsy_listeners": falsy_listeners, "bound_refs": bool(callable_names) and rng.random() < K.get("bound_refs", 0.0), "eqgroups": eqgroups, "alias_inherit": alias_inherit, "exc_classes": exc_classes, "prop_guards": prop_guards, "inst_hooks": inst_hooks, "twin_decoy": twin_decoy,
            "sig_attr": rng.random() < K.get("sig_attr", 0.0), "lstyles": lstyles, "recording_model": rng.random() < K.get("recording_model", 0.0),
            "user_tna": rng.random() < K.get("user_tna", 0.0), "wrapped_coros": wrapped_coros, "base_exc": rng.random() < K.get("base_exc", 0.0), "stop_iter": rng.random() < K.get("stop_iter", 0.0), "any_group": any_group, "hosted": hosted, "callable_names": callable_names, "state_decor": state_decor, "decor": decor,
            "evstyle": style, "mixed": mixed, "values": values, "async": acoro, "falsy_machine": rng.random() < K["falsy_machine"], "n": n, "initial": initial, "finals": finals, "ne": ne, "trans": trans, "states": states,
            "provs": provs, "start": start, "rtc": rtc, "allow": rng.random() < K["allow"],
            "field0": field0, "tbl": tbl, "ops": ops,
            "falsy_model": rng.random() < K.get("falsy_model", 0.0), "inst_listeners": inst_l,
            "decoys": decoys}
