"""C16 - machines are isolated from other instances, classes and definitions.

Metamorphic and model-based: an engine-family scenario A is run alone, and run again with unrelated
activity between every two of its operations:
  instance  - another instance of the same class with its own model and listeners (one of them with
              coroutine callbacks) is constructed and driven;
  sameclass - another class with the same class name and the same method names (other signatures /
              other machine) is defined, instantiated and driven;
  subclass  - a subclass of A's class that only adds callbacks (no transition from an inherited
              state) is defined, instantiated and driven;
  other     - an unrelated machine class is defined and driven;
  stateids  - an unrelated machine class whose state ids are the names of A's callbacks (methods of A's
              class, its model and listeners) is defined, instantiated and driven;
  nested    - every operation of A is performed from inside a running callback of an unrelated
              machine (so that the other machine's processing loop is active around it).
A's observations must be the same in both runs and equal to the model of A alone.
Probes for the two known sharing defects: the signature cache keyed by qualified name (D7) and a
subclass declaring a transition from an inherited state (D13).
"""
import warnings

from . import eng, enggen, engfam

PROP = "C16"
RUN_MODULE = "Run.EngineRun"
VERDICT_FN = "verdict_C16_any"
CHUNK = 100
DRIVER_ERR = {"obs": eng.DRIVER_ERR, "same": False}
K = dict(inst_hooks=0.2, cbs=0.5, conv=0.3, guards=0.4, validators=0.2, sends=0.1, raises=0.03, multi_event=0.3, listeners=(0, 2),
         multi_prov=0.25, p_async=0.0, rtc_false=0.15, ops=(2, 8), falsy_machine=0.0)
KINDS = ["instance", "sameclass", "subclass", "other", "nested", "stateids"]


class _AsyncListener:
    async def on_enter_state(self, **kw):
        return None

    async def after_transition(self, **kw):
        return None


def make_between(sc, kind, rng_seed):
    import random
    rng = random.Random(rng_seed)
    state = {}

    def reg(model):
        eng.RUN.tags[id(model)] = 1

    def between(ns, k):
        with warnings.catch_warnings():
            warnings.simplefilter("ignore")
            try:
                if kind == "instance":
                    if "b" not in state or rng.random() < 0.2:
                        mdl = ns["Mdl"]()
                        reg(mdl)
                        ls = [type(x)() for x in ns["LISTENERS"]][:1] + ([_AsyncListener()] if (k == 0 or rng.random() < 0.5) else [])
                        state["b"] = ns["construct"](mdl, ls)
                    r = state["b"].send(eng.evname(rng.randrange(sc["ne"])), tag=70)
                elif kind == "sameclass":
                    if "b" not in state or rng.random() < 0.3:
                        other = enggen.gen_scenario(rng, dict(K, sends=0.0, raises=0.0, p_async=0.0))
                        ns2 = {"__name__": "scn_other"}       # another module with a class of the same name
                        # same class names (M, Mdl, L2..), same method names, other machine; methods take an
                        # extra leading parameter so that their variable names differ from A's (see D7)
                        src = eng.render_source(other)
                        if rng.random() < 0.5:
                            src = src.replace("(self, **kw)", "(self, event=None, **kw)")
                        else:       # same positional parameters as A's methods, nothing else
                            import re
                            src = re.sub(r"\(self, \*\*kw\): return _cb\([^\n]*\)", "(self): return None", src)
                        exec(compile(src, "<c16b>", "exec"), ns2)  # noqa: S102
                        mdl = ns2["Mdl"]()
                        reg(mdl)
                        state["b"] = ns2["construct"](mdl, ns2["LISTENERS"])
                        state["ne"] = other["ne"]
                    state["b"].send(eng.evname(rng.randrange(state["ne"])), tag=71)
                elif kind == "subclass":
                    if "b" not in state:
                        Sub = type(ns["M"])("Sub", (ns["M"],), {"on_enter_state": lambda self, **kw: None,
                                                               "extra_helper": lambda self: 1})
                        mdl = ns["Mdl"]()
                        reg(mdl)
                        state["b"] = Sub(mdl)
                    state["b"].send(eng.evname(rng.randrange(sc["ne"])), tag=72)
                elif kind == "stateids":
                    from statemachine import State, StateMachine
                    if "cls" not in state or rng.random() < 0.3:
                        ids = sorted({eng.cbname(nm) for prov in sc["provs"] for nm in prov})
                        attrs = {"zz0": State(initial=True)}
                        for i_ in ids:
                            attrs[i_] = State()
                        attrs["zz_go"] = attrs["zz0"].to(*[attrs[i_] for i_ in ids]) if ids else attrs["zz0"].to.itself()
                        for j_, i_ in enumerate(ids):
                            attrs[f"zz_back{j_}"] = attrs[i_].to(attrs["zz0"])
                        state["cls"] = type(StateMachine)("Ledger", (StateMachine,), attrs)
                    b = state["cls"]()
                    b.send("zz_go")
                elif kind == "nested":
                    pass
                else:
                    from statemachine import State, StateMachine

                    class Light(StateMachine):
                        green = State(initial=True)
                        red = State()
                        cycle = green.to(red) | red.to(green)

                        def on_enter_state(self, event, state):
                            return None
                    Light().send("cycle")
            except Exception:  # noqa: BLE001 - B's own failures are not A's business
                pass
    return between


make_wrap = eng.make_host_wrap


def run_impl(sc):
    if sc.get("probe") == "d13":
        return d13_probe()
    if sc.get("probe") == "d21":
        return d21_probe()
    if sc.get("probe") == "copy_attach":
        from . import c12
        return c12.copy_attach_probe(sc)
    if sc.get("probe") == "mixin_parent":
        return mixin_parent_probe()
    if sc.get("probe") == "shared_enum":
        return shared_enum_probe()
    if sc.get("probe") == "reused_listener":
        return reused_listener_probe()
    if sc.get("probe") == "threads_overlap":
        return engfam.probe_threads_overlap(sc)
    alone = eng.run_impl(sc)
    try:
        eng.BETWEEN = make_between(sc, sc["kind"], sc["seed"])
        eng.WRAP = make_wrap() if sc["kind"] == "nested" else None
        # eng.run_impl creates the Run object; tags must exist before the first callback
        orig_run = eng.Run

        class TaggedRun(orig_run):
            def __init__(self, s):
                super().__init__(s)
                self.tags = {}
                self.mute_tags = {1}
        eng.Run = TaggedRun
        inter = eng.run_impl(sc)
    finally:
        eng.BETWEEN = None
        eng.WRAP = None
        eng.Run = orig_run

    def strip(o):
        return [{k: v for k, v in x.items() if k in ("out", "field", "allowed", "log")} for x in o]
    return {"obs": inter, "same": strip(alone) == strip(inter)}


def shared_enum_probe():
    """two unrelated machine classes whose states come from the SAME Enum (same options), with different
    transitions: each class has its own states and events - what one declares never shows on the other"""
    import enum
    from statemachine import StateMachine
    from statemachine.exceptions import TransitionNotAllowed
    from statemachine.states import States

    class Phase(enum.Enum):
        draft = 1
        review = 2
        done = 3
    bad = []
    with warnings.catch_warnings():
        warnings.simplefilter("ignore")

        class First(StateMachine):
            states = States.from_enum(Phase, initial=Phase.draft, final=Phase.done)
            submit = states.draft.to(states.review)
            approve = states.review.to(states.done)

        class Second(StateMachine):
            states = States.from_enum(Phase, initial=Phase.draft, final=Phase.done)
            skip = states.draft.to(states.done)
            submit = states.draft.to(states.review)
            reject = states.review.to(states.draft) | states.review.to(states.done)
        a = First()
        try:
            got = sorted(str(e) for e in a.allowed_events)
        except Exception as e:  # noqa: BLE001
            got = repr(e)
        if got != ["submit"]:
            bad.append(f"First().allowed_events = {got}")
        try:
            a.send("skip")
            bad.append("First accepted the event `skip` that only Second declares")
        except TransitionNotAllowed:
            pass
        except Exception as e:  # noqa: BLE001
            bad.append(repr(e))
        if sorted(str(e) for e in First.events) != ["approve", "submit"]:
            bad.append(f"First.events = {sorted(str(e) for e in First.events)}")
    return {"probe": "shared_enum", "bad": bad}


def reused_listener_probe():
    """one listener object attached to a machine, then given new callback / guard attributes, then attached
    to a second machine: the second machine sees the object as it is now (what the first one saw does not matter)"""
    from statemachine import State, StateMachine
    from statemachine.exceptions import TransitionNotAllowed
    calls = []

    class Lst:
        def after_go(self):
            calls.append("after_go")

    class One(StateMachine):
        a = State(initial=True)
        b = State()
        go = a.to(b) | b.to(a)

    class Two(StateMachine):
        a = State(initial=True)
        b = State()
        go = a.to(b, cond="cleared") | b.to(a)
    bad = []
    with warnings.catch_warnings():
        warnings.simplefilter("ignore")
        lst = Lst()
        one = One(listeners=[lst])
        one.send("go")
        lst.cleared = False                      # a guard the second machine needs
        lst.on_enter_b = lambda: calls.append("enter_b")
        del calls[:]
        try:
            two = Two(listeners=[lst])
        except Exception as e:  # noqa: BLE001
            return {"probe": "reused_listener", "bad": [f"second machine could not be created: {e!r}"]}
        try:
            two.send("go")
            bad.append("guard on the listener ignored")
        except TransitionNotAllowed:
            pass
        lst.cleared = True
        two.send("go")
        if sorted(calls) != ["after_go", "enter_b"]:
            bad.append(f"callbacks of the listener on the second machine: {calls}")
    return {"probe": "reused_listener", "bad": bad}


def mixin_parent_probe():
    """a MachineMixin model class whose parent model class (another machine class) was instantiated earlier:
    each model class gets the machine class it names"""
    import statemachine.registry as _reg
    from statemachine import State, StateMachine
    from statemachine.mixins import MachineMixin
    _reg._initialized = True        # no Django project in this process: skip its module autodiscovery
    with warnings.catch_warnings():
        warnings.simplefilter("ignore")

        class DraftFlow(StateMachine):
            draft = State(initial=True)
            sent = State()
            send_it = draft.to(sent)

        class ReviewFlow(StateMachine):
            waiting = State(initial=True)
            approved = State()
            approve = waiting.to(approved)
        DraftFlow.__module__ = ReviewFlow.__module__ = "scn_probe"
        _reg.register(DraftFlow)
        _reg.register(ReviewFlow)

        class DraftModel(MachineMixin):
            state_machine_name = "scn_probe.DraftFlow"

            def __init__(self):
                self.state = None
                super().__init__()

        class ReviewModel(DraftModel):
            state_machine_name = "scn_probe.ReviewFlow"
        first = DraftModel()
        second = ReviewModel()
        third = DraftModel()
        bad = []
        got = [type(m.statemachine).__name__ for m in (first, second, third)]
        if got != ["DraftFlow", "ReviewFlow", "DraftFlow"]:
            bad.append(got)
    return {"probe": "mixin_parent", "bad": bad}


def d21_probe():
    """a class whose event is declared with from_.any(); defining subclasses must not change its
    transitions (nor give the subclasses more than the one transition per non-final state)"""
    from statemachine import State, StateMachine
    with warnings.catch_warnings():
        warnings.simplefilter("ignore")

        class Base(StateMachine):
            a = State(initial=True)
            b = State()
            done = State(final=True)
            go = a.to(b)
            finish = done.from_.any(cond="ok")
            ok = True

        def shape(cls):
            return [(t.source.id, t.target.id, sorted(str(e) for e in t.events)) for s_ in cls.states for t in s_.transitions]
        before = shape(Base)

        class Sub(Base):
            pass

        class Sub2(Base):
            pass
        bad = []
        if shape(Base) != before:
            bad.append(["base class changed by defining subclasses", before, shape(Base)])
        if shape(Sub2) != before:
            bad.append(["subclass has other transitions than its base", before, shape(Sub2)])
    return {"probe": "d21", "bad": bad}


def d13_probe():
    """a subclass declares a transition from an inherited state: does the base class change?"""
    from statemachine import State, StateMachine
    with warnings.catch_warnings():
        warnings.simplefilter("ignore")

        class Base(StateMachine):
            a = State(initial=True)
            b = State()
            go = a.to(b)
            back = b.to(a)
        before = [str(e) for e in Base().allowed_events]

        class Sub(Base):
            c = State()
            jump = Base.a.to(c)
            home = c.to(Base.a)
        try:
            after = [str(e) for e in Base().allowed_events]
        except Exception as e:  # noqa: BLE001
            after = f"{type(e).__name__}: {e}"
    return {"probe": "d13", "bad": [] if before == after else [before, after]}


def coq_case(sc, obs):
    if sc.get("probe"):
        return f"(asserted {0 if obs['bad'] else 1})"
    if not obs["same"]:
        return "(asserted 0)"
    return "(wfc " + eng.coq_case(sc, obs["obs"]) + ")"


def render_source(sc):
    if sc.get("probe") == "copy_attach":
        return "# probe: a listener attached to only one of a machine and its shallow / deep copy (see harness/c12.py)\n"
    if sc.get("probe") == "threads_overlap":
        return "# probe: " + " ".join(engfam.probe_threads_overlap.__doc__.split()) + "\n"
    if sc.get("probe") == "shared_enum":
        return "# probe: " + " ".join(shared_enum_probe.__doc__.split()) + "\n"
    if sc.get("probe") == "reused_listener":
        return "# probe: " + " ".join(reused_listener_probe.__doc__.split()) + "\n"
    if sc.get("probe") == "mixin_parent":
        return "# probe: MachineMixin model classes DraftModel (DraftFlow) and ReviewModel(DraftModel) (ReviewFlow)\n"
    if sc.get("probe") == "d21":
        return ("# probe: class Base declares finish = done.from_.any(cond=...); class Sub(Base): pass; class Sub2(Base): pass\n"
                "# the (source, target, events) list of Base before / after, and of Sub2\n")
    if sc.get("probe"):
        return "# probe: class Sub(Base) declares Base.a.to(c); Base().allowed_events before / after\n"
    return eng.render_source(sc) + f"\n# unrelated activity between operations: {sc['kind']} (seed {sc['seed']})\n"


def generate(rng, tier):
    n = 1200 if tier == "quick" else 20000
    scs = []
    for i in range(n):
        sc = enggen.gen_scenario(rng, K)
        sc["async"] = []
        sc["kind"] = KINDS[i % len(KINDS)]
        sc["seed"] = rng.randrange(10 ** 6)
        sc["eq_machine"] = i % 4 == 1        # every instance of the class compares (and hashes) equal to the others
        scs.append(sc)
    for i in range(n // 8):
        # the machine is created by a MachineMixin model from its fully qualified class name, while
        # another module defines (before and in between) a class with the same name
        sc = enggen.gen_scenario(rng, dict(K, listeners=(0, 0), rtc_false=0.0, allow=0.0, start=0.0, p_construct=0.15,
                                           falsy_machine=0.0, styles=("str", "list", "assign")))
        sc["async"] = []
        sc["mixin"] = True
        sc["allow"], sc["rtc"], sc["start"] = False, True, None
        sc["kind"] = "sameclass"
        sc["seed"] = rng.randrange(10 ** 6)
        scs.append(sc)
    scs.append({"probe": "d13"})
    scs.append({"probe": "d21"})
    scs.append({"probe": "mixin_parent"})
    scs.append({"probe": "shared_enum"})
    scs.append({"probe": "reused_listener"})
    scs.append({"probe": "threads_overlap"})
    for k in range(4):
        scs.append({"probe": "copy_attach", "seed": rng.randrange(10 ** 6), "first": "copy", "side": "copy", "shared_list": True})
    for k in range(12):
        scs.append({"probe": "copy_attach", "seed": rng.randrange(10 ** 6), "first": ["copy", "deepcopy"][k % 2],
                    "side": ["copy", "original"][(k // 2) % 2]})
    return scs, [("seeded random machines, each run alone and with unrelated activity between every two operations "
                  "(another instance of the class with other listeners incl. coroutine ones / another class with "
                  "the same class and method names / a subclass adding callbacks / an unrelated class / an unrelated class "
                  "whose state ids are A's callback names / A driven from inside a callback of an unrelated machine); + probe of a "
                  "subclass declaring a transition from an inherited state", len(scs))]


def nontrivial(sc, obs):
    """Non-trivial: A ran >= 3 callbacks and the interleaved activity was an instance of the same class,
    a same-named class or a subclass."""
    if sc.get("probe"):
        return False
    n = sum(1 for o in obs["obs"] for e in o["log"] if e[0] == "c")
    return n >= 3 and sc["kind"] != "other"


def d13(sc, v):
    return sc.get("probe") == "d13"


def d21(sc, v):
    return sc.get("probe") == "d21"


CLASSIFIERS = {"C16.subclass_transition_from_inherited_state": d13,
               "C16.from_any_expanded_again_for_subclasses": d21}


def extra_coverage(scs, obs, verdicts):
    import collections
    h = collections.Counter(s.get("kind", "probe") for s in scs)
    return {"interleaving_kinds": dict(h),
            "runs_where_trace_changed": sum(1 for o in obs if isinstance(o, dict) and o.get("same") is False),
            "out_of_scope": sum(1 for v in verdicts if v == 9)}


def explain(sc, obs):
    if sc.get("probe"):
        return obs
    if not obs["same"]:
        return "A's observations differ between the run alone and the interleaved run"
    return engfam.explain_for("C16")(sc, obs["obs"])
