#!/bin/sh
# usage: tools/confirm_seed.sh <dir with mK.diff mK_demo.py mK_meta.json> <mK> <dest id>
# Confirms in a scratch worktree: suite green with the change, demo fails with it, demo passes without.
# On success copies to /verif/seeded/<dest id>/ (patch.diff, demo.py, meta.json).
src="$1"; m="$2"; dest="$3"
wt=/tmp/wt/confirm_$$
git -C /repo worktree add --detach "$wt" HEAD >/dev/null 2>&1 || exit 3
cleanup() { git -C /repo worktree remove --force "$wt" >/dev/null 2>&1; }
trap cleanup EXIT
cd "$wt" || exit 3
cp "$src/${m}_demo.py" demo_seed.py
PYTHONPATH="$wt" timeout 120 /venv/bin/python demo_seed.py >/dev/null 2>&1; clean_rc=$?
git apply "$src/$m.diff" || { echo "$dest: PATCH DOES NOT APPLY"; exit 3; }
PYTHONPATH="$wt" timeout 120 /venv/bin/python demo_seed.py >/dev/null 2>&1; mut_rc=$?
rm -f demo_seed.py
tests=$(timeout 900 /venv/bin/python -m pytest -q -p no:cacheprovider --timeout=900 --no-cov -x 2>&1 | tail -1)
echo "$dest: demo clean rc=$clean_rc mutant rc=$mut_rc tests: $tests"
case "$tests" in *"348 passed"*) ok=1;; *) ok=0;; esac
if [ "$clean_rc" = 0 ] && [ "$mut_rc" != 0 ] && [ "$ok" = 1 ]; then
  mkdir -p /verif/seeded/$dest
  cp "$src/$m.diff" /verif/seeded/$dest/patch.diff
  cp "$src/${m}_demo.py" /verif/seeded/$dest/demo.py
  /venv/bin/python - "$src/${m}_meta.json" "$dest" "$tests" <<PY
import json, sys
meta = json.load(open(sys.argv[1]))
meta["confirmed"] = {"suite_with_change": sys.argv[3], "demo_on_clean_tree": "exit 0", "demo_with_change": "non-zero exit",
                     "how": "tools/confirm_seed.sh in a scratch git worktree of /repo (removed afterwards)"}
meta["id"] = sys.argv[2]
json.dump(meta, open(f"/verif/seeded/{sys.argv[2]}/meta.json", "w"), indent=1)
PY
  echo "$dest: CONFIRMED"
else
  echo "$dest: REJECTED"
fi
