#!/bin/sh
# usage: tools/run_all.sh [quick|thorough]  — every registered check once on the current tree
tier="${1:-quick}"
cd /verif
for p in C01 C02 C03 C04 C05 C06 C07 C08 C09 C10 C11 C12 C13 C14 C15 C16 C17 C18; do
  s=$(date +%s)
  out=$(./check $p $tier 2>/tmp/run_all_$p.err); rc=$?
  e=$(date +%s)
  echo "$p rc=$rc $((e-s))s $(echo "$out" | grep -c '^VIOLATION') violations, $(echo "$out" | grep -c '^KNOWN-FINDING') known-finding lines"
  echo "$out" | grep -E "^VIOLATION" | head -3
done
