#!/bin/sh
# usage: tools/run_seeds.sh <Cxx> [seed ids...]  — run check Cxx against each seeded change of that property (or the given ids)
prop="$1"; shift
ids="$*"; [ -z "$ids" ] && ids=$(ls /verif/seeded | grep "^${prop}_")
for id in $ids; do
  git -C /repo apply /verif/seeded/$id/patch.diff || { echo "$id: PATCH DOES NOT APPLY"; continue; }
  out=$(/verif/check "$prop" quick 2>/tmp/run_seeds_err.txt); rc=$?
  git -C /repo checkout -- .
  v=$(echo "$out" | grep -E "^VIOLATION" | head -1)
  if [ -n "$v" ]; then echo "$id vs $prop: CAUGHT  $v"; elif [ "$rc" != 0 ]; then echo "$id vs $prop: CHECK CRASHED rc=$rc $(tail -2 /tmp/run_seeds_err.txt)"; else echo "$id vs $prop: MISSED"; fi
done
git -C /repo status --short | head -3
