#!/bin/sh
# usage: tools/reconfirm_seed.sh <seed id>  — re-check a stored seed against /repo HEAD in a scratch worktree:
# demo passes on the clean tree, fails with the change, and the suite stays green with it
id="$1"
wt=/tmp/wt/reconfirm_$$
git -C /repo worktree add --detach "$wt" HEAD >/dev/null 2>&1 || exit 3
trap 'git -C /repo worktree remove --force "$wt" >/dev/null 2>&1' EXIT
cd "$wt" || exit 3
cp /verif/seeded/$id/demo.py demo_seed.py
PYTHONPATH="$wt" timeout 120 /venv/bin/python demo_seed.py >/dev/null 2>&1; clean_rc=$?
git apply /verif/seeded/$id/patch.diff || { echo "$id: PATCH DOES NOT APPLY"; exit 3; }
PYTHONPATH="$wt" timeout 120 /venv/bin/python demo_seed.py >/dev/null 2>&1; mut_rc=$?
rm -f demo_seed.py
tests=$(timeout 900 /venv/bin/python -m pytest -q -p no:cacheprovider --timeout=900 --no-cov -x 2>&1 | tail -1)
echo "$id: demo clean rc=$clean_rc mutant rc=$mut_rc tests: $tests"
