#!/bin/sh
# usage: tools/par_seeds.sh [lanes]  — every seeded change against the check of its own property, in parallel lanes.
# Each lane works on its own scratch git worktree of /repo (at HEAD) and its own scratch copy of /verif (the same
# harness and Coq sources, with the check's PYTHONPATH pointing at the lane's worktree), so /repo and /verif are
# not touched.  SEED_FILTER='*_r7m*' restricts the run to the seeds whose id matches the shell pattern.  Results: /tmp/par_seeds.out (one line per seed); scratch copies are removed at the end.
lanes="${1:-4}"
rm -f /tmp/par_seeds.out
k=0
while [ $k -lt $lanes ]; do
  wt=/tmp/wt/lane$k; vc=/tmp/vlane$k
  git -C /repo worktree remove --force $wt >/dev/null 2>&1
  git -C /repo worktree add --detach $wt HEAD >/dev/null 2>&1
  rm -rf $vc; rsync -a --exclude out --exclude evidence --exclude .git --exclude seeded /verif/ $vc/
  mkdir -p $vc/out $vc/evidence
  sed -i "s#PYTHONPATH=/repo:/verif#PYTHONPATH=$wt:$vc#" $vc/check
  k=$((k+1))
done
lane() {
  k=$1; wt=/tmp/wt/lane$k; vc=/tmp/vlane$k
  i=0
  for d in /verif/seeded/*/; do
    id=$(basename $d); prop=${id%%_*}
    case "$id" in ${SEED_FILTER:-*}) ;; *) continue ;; esac
    n=$(echo $prop | sed 's/C0*//'); [ $((n % lanes)) -eq $k ] || continue
    git -C $wt apply /verif/seeded/$id/patch.diff 2>/dev/null || { echo "$id: PATCH DOES NOT APPLY" >> /tmp/par_seeds.out; continue; }
    out=$($vc/check "$prop" quick 2>/tmp/par_seeds_err_$k.txt); rc=$?
    git -C $wt checkout -- .
    v=$(echo "$out" | grep -E "^VIOLATION" | head -1)
    if [ -n "$v" ]; then echo "$id vs $prop: CAUGHT" >> /tmp/par_seeds.out
    elif [ "$rc" != 0 ]; then echo "$id vs $prop: CHECK CRASHED rc=$rc $(tail -2 /tmp/par_seeds_err_$k.txt)" >> /tmp/par_seeds.out
    else echo "$id vs $prop: MISSED" >> /tmp/par_seeds.out; fi
  done
}
k=0
while [ $k -lt $lanes ]; do lane $k & k=$((k+1)); done
wait
k=0
while [ $k -lt $lanes ]; do git -C /repo worktree remove --force /tmp/wt/lane$k >/dev/null 2>&1; rm -rf /tmp/vlane$k; k=$((k+1)); done
echo "finished: $(grep -c CAUGHT /tmp/par_seeds.out) caught, $(grep -c MISSED /tmp/par_seeds.out) missed, $(grep -c 'CRASHED\|NOT APPLY' /tmp/par_seeds.out) other" >> /tmp/par_seeds.out
