#!/usr/bin/env python3
"""Regenerates MANIFEST.json from the table below (keeps it valid at all times)."""
import json
import os

VERIF = os.path.dirname(os.path.dirname(os.path.abspath(__file__)))

NOTE_COMMON = ("Trusted: Coq 8.16.1 kernel + vm_compute (no native_compute, no axioms: every theorem prints "
               "'Closed under the global context'); the hand-written Gallina model is tied to /repo only by the "
               "differential correspondence run (generators, drivers, canonicalisation, parser of verdict digits); "
               "Python runtime semantics are modelled, not verified.")

# property -> (text, technique, design_ref, extra note)
CLAIMED = {
    "C09": (
        "Theorems (Properties/C09.v): the deque/visited-set visit of graph.py computes exactly graph reachability "
        "for every edge list, without duplicates and without ever exhausting its fuel; the metaclass checks accept a "
        "declaration iff it is WellFormed (+ no trap / no-path-to-final under strict_states), reject otherwise, and "
        "warn iff a trap or no-path state exists - for all numbers of states and transitions. Tied to /repo by "
        "running every declaration over 1-2 states and every one-initial declaration over 3 states (exhaustive "
        "sub-spaces, see evidence) plus seeded random 1-6 state declarations (40% of them also as a base class "
        "plus a subclass adding transitions and from_.any() declarations) through the real metaclass and "
        "comparing accepted / warned / InvalidDefinition with the model, verdicts computed inside coqc; States.from_enum "
        "sources (IntEnum with a falsy final member) and stray states reachable only from unreachable ones are "
        "generated.",
        "Coq proof (BFS = reachability, checks = WellFormed) + exhaustive/random differential correspondence",
        "DESIGN.md 5 C09",
        "Also generated since round 8: the only event of a class declared with the empty id.  "
        "Compared observable is accepted-silently / accepted-with-UserWarning / InvalidDefinition (message wording "
        "is not part of the property).",
    ),
}


ENG_TIE = ("Tied to /repo by the shared engine-family correspondence: seeded random machines (1-5 states, several "
           "candidates per (state, event), multi-event / self / internal transitions, guards and validators, "
           "callbacks by convention name or inline on machine / model / listeners, four declaration styles, state "
           "values, rtc on/off, allow_event_without_transition, sync and async engines) are rendered to Python "
           "source, driven through the public API over generated histories, and the recorded observables are "
           "compared inside coqc (vm_compute) with the Gallina model of engines/*.py, callbacks.py, dispatcher.py "
           "projected on what this property names; order inside one callback group is left open. Also generated: "
           "from_.any() groups, operations performed from inside a callback of an unrelated machine, decoy "
           "instances, deep copies mid-history, exceptions deriving from BaseException / StopIteration / "
           "TransitionNotAllowed, return values that are exception objects or equal to everything, callbacks "
           "handing back awaitables that are no coroutine objects, class-object and proxy listeners, callback "
           "names that are state ids, a model recording every write of its state field, callbacks that assign the state "
           "themselves through current_state_value (C01-C04), constructor options passed positionally, rtc=0, a start_value "
           "that is no state value over a stored state, user callback names with a leading underscore, options changed "
           "after construction, a base class used before its subclass exists, and fixed probe "
           "families (DESIGN.md 4). ")

CLAIMED.update({
    "C01": (
        "Theorems (Properties/C01.v): the candidate loop of _trigger is characterised completely - skipping a "
        "prefix of unbound / guard-rejected candidates in declaration order, the first candidate bound to the event "
        "whose activation executes fires with its result; a raising validator or callback aborts the event before "
        "later candidates; if none qualifies TransitionNotAllowed(event, state) or nothing (allow flag); these cases "
        "are exhaustive; under run-to-completion rejected candidates leave state/lock untouched and the stored "
        "state afterwards is the fired target or unchanged (for callbacks that do not assign the state themselves "
        "through the low-level API; local form: only the callbacks the candidates can run need that, Proofs/"
        "WritesLocal.v); the faithful re-entrant entry point equals the "
        "documented engine. For all machines, callback behaviours, triggers, configurations. " + ENG_TIE +
        "Compared: state after each operation, exception class and TransitionNotAllowed payload, allowed_events.",
        "Coq proof (candidate-loop characterisation, frame lemmas, engine refinement) + differential correspondence",
        "DESIGN.md 5 C01", "Guard conjunction (cond truthy / unless falsy) is proved under C08."),
    "C02": (
        "Theorems (Properties/C02.v): every executed transition is exactly the chain validators, conditions, "
        "before, exit(source) unless internal, on, THE assignment, enter(target) unless internal, after, each group "
        "starting where the previous ended, the first five called with state=source and the last two with "
        "state=target; the stored state is untouched until the assignment and is the target after it (RTC, callbacks "
        "that do not assign the state themselves: no_writes); for callbacks that do (the low-level API, AWrite in the "
        "model) the engine's assignment after `on` is unconditional - the second half starts from the target whatever "
        "was stored, internal transitions included, and if the enter / after callbacks of the transition do not write, "
        "each of them sees the target and the transition ends in it whatever earlier callbacks stored (local "
        "hypotheses, Proofs/WritesLocal.v); a "
        "rejected candidate runs validators and conditions only; event-named callbacks are admitted iff the trigger "
        "is their event; every admitted callback of a group is called exactly once and every call of the group is "
        "an admitted callback; every callback of the first five groups reads the source as current state and every "
        "callback of enter / after the target; initial activation is the start state's enter group only. " + ENG_TIE + "Compared: the order of callback invocations group by group, the injected event / "
        "source / target / state and the current state read inside callbacks.",
        "Coq proof (activation sequence theorem, frame lemmas) + differential correspondence",
        "DESIGN.md 5 C02", "Also generated: listeners attached later with add_listener (incl. a targeted family: a two-event transition fires, a listener with event-named callbacks is attached, the transition fires through the other event), coroutines that really suspend with a phase-overlap assertion; callbacks of every group that assign the state through current_state_value (both engines), with a family of small machines with internal transitions."),
    "C03": (
        "Theorems (Properties/C03.v): while the lock is held a send from any callback only appends to the queue and "
        "returns None; therefore the faithful engine equals the documented flat engine (refinement, all machines / "
        "behaviours / triggers / configurations); nothing a callback does touches the lock; during an event the "
        "queue only grows at the back and the drain loop pops at the front; the outermost call returns the first "
        "processed event's result and never the __initial__ sentinel; a drain processes exactly the queued triggers "
        "in put order, each to completion before the next begins (FIFO), and every callback of a drain runs at the "
        "depth of the drain however many events were queued (constant depth); with rtc=False a send is the "
        "processing of its own trigger, returns that trigger's result, and everything it runs to any nesting is "
        "logged strictly deeper than the place it was issued from (depth first). " + ENG_TIE + "Compared: callback order "
        "across events, every nested and outer return value / exception, and the engine depth of every callback "
        "(rank of the Python stack depth), including self-triggering chains of length up to 300 (quick) / 1500 "
        "(thorough) at constant depth and rtc=False chains at increasing depth.",
        "Coq proof (refinement faithful engine = flat engine, lock/queue frame lemmas) + differential correspondence",
        "DESIGN.md 5 C03", "Depth in the theorem is the model's engine depth; that it is the Python stack depth is what the depth-rank comparison of the correspondence checks."),
    "C04": (
        "Theorems (Properties/C04.v): a failure in validators/conditions/before/exit/on escapes with the stored "
        "state unchanged, a failure in enter/after escapes with the target stored, and no other outcome of "
        "_activate exists (RTC); the drain loop ends with empty queue and released lock on every path, for every "
        "wiring and fuel; hence every send / re-activation on an idle machine ends idle, returning or raising - by "
        "induction after any history, including repeated failures. " + ENG_TIE + "Fault enumeration: for each "
        "base scenario every callback invocation position of the fault-free run is made to raise in turn, followed "
        "by 1-3 further sends. Compared: escaping exception, stored state, callbacks run by the following sends.",
        "Coq proof (phase lemmas, idle invariant) + fault-enumeration differential correspondence",
        "DESIGN.md 5 C04", "Lifetime of sibling coroutine tasks inside asyncio.gather after a failure is not modelled (partial).  One genuine defect repaired (fix: 5e5ce7f: a BaseException-class failure kept the queued events)."),
    "C11": (
        "Theorems (Properties/C11.v): the __initial__ pseudo-transition carries only the start state's enter "
        "group; activating it stores the start state and runs exactly that group; its result never becomes a "
        "caller's result; on the sync RTC engine constructing over a stored state, or re-activating an idle "
        "machine, runs no callback and changes nothing; the async engine's constructor processes nothing and "
        "leaves exactly one __initial__ trigger at the head of the queue; rtc=False re-activation raises "
        "IndexError on the pinned tree (refuted, D3). " + ENG_TIE + "Compared: callback log and model field at "
        "construction / activation / re-construction after histories, start_value, resume from every state.",
        "Coq proof (initial-activation equations, resume/no-op lemmas) + differential correspondence",
        "DESIGN.md 5 C11", ""),
    "C14": (
        "Theorems (Properties/C14.v): the result handed to Python is unwrap(before results ++ on results): None "
        "for none, the value for one, the list otherwise with before first; the two lists are exactly what the "
        "before group and the on group of the executed transition returned; one value per admitted callback "
        "(explicit None kept, other events' callbacks filtered); a tolerated event without transition returns "
        "None; two behaviours that agree on the before / on callbacks give the same result whatever guards, "
        "validators, exit, enter and after callbacks return (frame theorem). " + ENG_TIE + "Compared: the value returned by every call (order inside one group left open).",
        "Coq proof (unwrap rule, activation result lemma) + differential correspondence",
        "DESIGN.md 5 C14", ""),
})

CLAIMED["C07"] = (
    "Theorems (Properties/C07.v), for every signature `def` accepts (any number and order of positional-only / "
    "positional-or-keyword / defaulted / *args / keyword-only / **kwargs parameters), every list of positional "
    "values and every keyword map: the binder computes exactly the declarative assignment spec_bind (one pass "
    "over the declared parameters: positional slots in order, a positional-or-keyword parameter named in the "
    "keywords takes the keyword, *args the surplus, keyword-only by name, **kwargs exactly the unconsumed "
    "keywords in order, everything else dropped) whenever no positional-only parameter is named (that region is "
    "the known finding D15); for ANY well-formed bound arguments, CPython's binding of f(*ba.args, **ba.kwargs) "
    "either raises 'missing required argument' - exactly when a parameter without default is unbound - or "
    "assigns every declared parameter what was bound (star parameters: that or empty); composed: the whole "
    "adapter hands each declared parameter exactly its assigned value and no other TypeError is possible.  "
    "Also: only declared parameters are ever bound; the binder's only own TypeError is D15; a built-in name "
    "always yields the library's value for the event being processed and every other name the user's value; "
    "trigger data never carries a reserved name.  Tied to /repo by the correspondence: EXHAUSTIVE over every "
    "signature with up to 3 (quick) / 4 (thorough) parameters x 0..len+1 positional values x every keyword "
    "subset, plus random signatures to 7 parameters, over functions / bound methods / partials / coroutines, real "
    "machine callbacks with reserved names overridden by the user, callables in guard position inside comparison "
    "expressions, and pairs of same-named callables bound one after the other (signature cache).  Real def "
    "statements are bound by the real SignatureAdapter and really called; what they received is compared in coqc "
    "with the model of bind_expected + BoundArguments + CPython binding, and the contract statement itself is "
    "evaluated on every case.",
    "Coq proof (binder = declarative assignment; BoundArguments round trip; adapter contract; reserved-name layering) + exhaustive/random differential correspondence",
    "DESIGN.md 5 C07",
    "CPython's call binding (py_call) and inspect.BoundArguments.args/.kwargs are modelled, validated by the "
    "correspondence against real calls; functools.wraps-decorated callbacks, lambdas and odd user keyword "
    "names (key, builtin-like) are generated.  Two genuine defects repaired (fix: e0ead44, keyword-only "
    "parameter lost after surplus positionals; fix: 804b1f2, user keyword named key); known findings D15 and D7 "
    "listed in known_findings.json.")

CLAIMED["C08"] = (
    "Theorems (Properties/C08.v): a transition's guard list is satisfied iff every entry, evaluated in order, "
    "holds, and fails at the first entry that does not (later ones are not evaluated); a cond entry holds iff "
    "bool(value) is True and an unless entry iff it is False, for values of any type; the closure tree "
    "build_expression builds from the AST has exactly Python's value, TypeError and left-to-right short-circuit "
    "read sequence, for every expression of the grammar (n-ary and/or, not, names, literals, the six "
    "comparisons - chained comparisons excepted, where the library reads the middle operand once per "
    "comparison) and every environment; for EVERY expression, chains included, the same value and the same "
    "TypeError as Python; and the complete statement for chains, read sequence included: the tree evaluates "
    "exactly like Python evaluates the expression in which each chain a op1 b op2 c is written (a op1 b) and "
    "(b op2 c) (identity on chain-free expressions).  Tied to /repo three-way: random and small-exhaustive expression trees are spelled canonically "
    "(evaluated by CPython's own eval as reference) and in a random alternative spelling (! ^ v, 0-2 spaces, "
    "redundant parentheses, names containing v / not / and / or) given to a real transition as cond or unless, "
    "the names being properties / methods / attributes of machine / model / listener, under several valuations "
    "in turn; fired-or-not, TypeError and the read order are compared in coqc with the model, and the model's "
    "Python semantics with CPython; the rewriting of ! ^ v is modelled on character codes (names with at least "
    "two word characters are proved untouched, the result proved free of ^ and of ! outside !=) and compared "
    "character by character with the real replace_operators on random ASCII texts.  Malformed stream: unparsable text, constructs outside the grammar and "
    "unknown names must raise InvalidDefinition at StateMachine().",
    "Coq proof (guard conjunction; build_expression = Python evaluation) + three-way differential correspondence (library / model / CPython eval)",
    "DESIGN.md 5 C08",
    "The textual model (Replace.v) is Unicode-aware for the letters of Latin-1 (texts with non-ASCII identifiers).  "
    "Partial: CPython's parser / precedence on the rewritten text is validated by the three-way "
    "correspondence, not proved.  Several guard entries per transition and both engines are "
    "generated; on the async engine bare-name guards may hand back __await__ objects / resolved Futures.  Three genuine defects repaired (fix: 6fb3a72, fix: 198c81d, fix: c06e898 executor key ignored "
    "grouping).")

CLAIMED["C10"] = (
    "Theorems (Properties/C10.v): for state values pairwise different as dict keys, whatever valid value the "
    "model stores (of any kind, falsy included, written by the machine or from outside) current_state is the "
    "state with that value and is_active holds for exactly that one state; whenever there is a current state "
    "exactly one state is active; after a fired transition the field holds the target's value (storage model and "
    "full engine model); an unmapped value through the setter raises InvalidStateValue and stores nothing; a "
    "rejected operation stores nothing; at construction a stored value is kept, otherwise start_value (any "
    "non-None value) selects the start state, otherwise the initial state.  Tied to /repo by random machines "
    "with values str / \"\" / int incl. 0 and negatives / tuples / enum members / default ids, model shapes none / plain / "
    "property-backed / class-level default / falsy object / __len__==0, random state_field, start_value valid / "
    "invalid / falsy, a value already stored, and histories mixing events, validated writes and external writes; "
    "after each operation getattr(model, field), current_state, every is_active and `sm.model is model` are "
    "compared in coqc with the model.",
    "Coq proof (storage bijection, exactly-one-active, setter validation, start selection) + differential correspondence",
    "DESIGN.md 5 C10",
    "Also generated: a model that compares equal to None, unmapped tuples of length 1-3 among the invalid values.  "
    "Django-style persistent models are not generated (a property-backed field stands for them); enum members are; "
    "callbacks of external and internal transitions (both engines) that write the field, and states sharing a display "
    "name, are.  Two genuine defects repaired "
    "(fix: 12d44f1 falsy model replaced, fix: 7e8e568 falsy start_value ignored).")

CLAIMED["C13"] = (
    "Theorems (Properties/C13.v): every calling style (send by name, event attribute, item of events / "
    "allowed_events, trigger bound onto another object) is the same operation on the same trigger; "
    "allowed_events lists each event once, exactly the events bound to a transition leaving the current "
    "state, in the order of their first declaration; a name bound to no such transition - in particular any name that is not a declared event - yields "
    "TransitionNotAllowed(name, state) or nothing when tolerated, with the configuration unchanged (nothing else "
    "invoked).  " + ENG_TIE + "Here the events of each history go through a random mix of the five calling "
    "styles (results, exceptions, state, allowed_events, callbacks compared), and an attribute probe passes "
    "every name in dir(sm) that is not a declared event (~150 per machine) plus odd strings to send() on fresh "
    "instances, requiring unknown-event behaviour and no side effect; a family of machines is created by a "
    "MachineMixin model through the registry and driven through the triggers bound onto the model; triggers of a "
    "second instance are passed to send() of the first (they must be looked up by name on the receiver).",
    "Coq proof (allowed_events exact and duplicate-free, unknown event frame) + differential correspondence + attribute probe",
    "DESIGN.md 5 C13",
    "events (all declared events) is compared through the styles only; send() with a member of a str-based Enum is one "
    "of the styles.  One genuine defect repaired (fix: e53a549).")

CLAIMED["C18"] = (
    "Theorems (Properties/C18.v): the graph has exactly one node per state plus the initial pseudo-node with "
    "pairwise different identifiers; exactly one edge leaves the pseudo-node and points at the initial state; "
    "every external transition is an edge from its source to its target carrying its events and guards and "
    "every other edge is such a transition (internal transitions yield no edge and are listed inside their "
    "state); the transition edges are a permutation of the external transitions (none dropped, none drawn "
    "twice, however many join the same two states); a double border exactly on final states; for an instance exactly the current state is highlighted, "
    "for a class none.  Tied to /repo by building random machine classes (finals, multi-event / self / internal "
    "transitions, cond / unless guards, four declaration styles), taking the real pydot graph of the class and "
    "of an instance in 1..all of its states, and comparing nodes (id, peripheries, highlight, internal lines) and "
    "edges (source, target, events, guards with ! for unless) as multisets with the model in coqc; states sharing "
    "a display name, revisited states and direct writes to the model between two renderings are generated.",
    "Coq proof (node/edge characterisation) + differential correspondence on the pydot object",
    "DESIGN.md 5 C18",
    "Label wording, colours other than the highlight, "
    "fonts are not part of the property.")

CLAIMED["C05"] = (
    "Theorems (Properties/C05.v): the model has ONE activation sequence, candidate loop and drain loop for both "
    "engines, so every theorem of C01-C04, C11, C14 holds for rm_async = true as well; the three places where "
    "the async engine differs are characterised: for guards that are pure and independent of how often they are "
    "asked the sync executor (stop at first failure) and the async executor (all guards started and awaited) "
    "compute the same conjunction; a group returns only when every admitted callback has completed; the async "
    "constructor defers activation by leaving exactly the __initial__ trigger at the head of the queue, and the "
    "first event sent afterwards drains the activation first and the event second; the loop ends idle on "
    "every path.  That the real AsyncEngine follows this model is decided by the twin "
    "correspondence: every base scenario is run as sync twin and with all / one / a random subset of its "
    "callbacks as coroutine functions (a third of their scripts really suspend), each under three drivers "
    "(plain calls without a loop, the whole history awaited in a running loop, one OS thread per operation), "
    "and each run is compared in coqc with the model of that variant on states, callback phases and arguments, "
    "results and exceptions; additionally no coroutine may be left un-awaited and no callback may begin while "
    "a callback of another phase is still running.  Probes: boolean guard expressions with coroutine operands "
    "in every position, and a plain callback sending from the async engine (known findings D10, D18).",
    "Coq proof (shared engine model; guard-executor equivalence; deferred activation) + twin differential correspondence under three drivers",
    "DESIGN.md 5 C05",
    "Partial: the lifetime of sibling tasks inside asyncio.gather / as_completed after a failure, and real "
    "scheduler interleavings beyond sleep(0) suspension, are not modelled; asyncio itself is trusted.  Listeners "
    "attached after construction are C12's subject (D11).")

CLAIMED["C12"] = (
    "Theorems (Properties/C12.v): an action / validator name gets exactly one wrapper per provider of the "
    "resolution round that has the attribute, machine, model, constructor and late listeners alike; a guard name "
    "provided by several objects is one entry over all of them whose value is truthy iff truthy on all; resolving "
    "the same listeners again - immediately or after any number of other attachments - leaves every executor "
    "unchanged (no duplicated call); in a process of several machine objects driven in any interleaving the "
    "observations of one object are those it gives when driven alone (other instances' listeners are never "
    "invoked).  " + ENG_TIE + "Here every callback / guard / validator name (user and "
    "convention names) is spread at random over machine, model, constructor listeners and listeners attached "
    "later with add_listener at random points of the history, repeatedly and several at a time; per-provider "
    "callback logs with their arguments and the firing of guarded transitions are compared.  Isolation pairs: two "
    "instances of one class with different listener objects are driven alternately and A's trace must equal A "
    "driven alone.  Probes: a coroutine listener added to a sync machine (known finding D11); a listener attached to "
    "only one of a machine and its shallow / deep copy; guard expressions whose names a late listener has too "
    "(before / after a copy); a callback name that is also an event, provided by model and listeners too; an "
    "`unless` name provided by the model and a constructor listener (known finding D25, also as a refuted "
    "theorem: providers of one resolution round are and-ed before the expected value is applied).",
    "Coq proof (provider parity, guard over all providers, attach-idempotence) + differential correspondence + isolation pairs",
    "DESIGN.md 5 C12", "Multi-name boolean expressions whose names live on different resolution rounds (D19) are not generated.  Known findings D11, D25 (constructor round only; the clone half was repaired, D30).")

CLAIMED["C17"] = (
    "Theorems (Properties/C17.v): a clone taken at any idle point of a machine that has a state is the "
    "original's configuration (state, call history, empty queue, free lock), rtc on or off; a machine with async "
    "callbacks cloned before its activation keeps exactly one pending __initial__ trigger; the clone's registry "
    "is the original's whatever its resolution rounds (a copy attaches its listeners in the groups its original "
    "attached them in); hence after any history the clone answers every suffix of operations exactly as the "
    "original; original and clone being two objects of the process, driving one never changes what the other "
    "does.  " + ENG_TIE + "Here a history is run, the machine is cloned with copy.deepcopy or a pickle round "
    "trip - also copies of copies mixing both mechanisms - at a random point (also before any event, i.e. before "
    "activation of an async machine; also after listeners were attached with one multi-argument add_listener), and original "
    "and clone are driven alternately with different suffixes: the original's trace is compared with the model of "
    "prefix+suffixA (the clone's activity must not show), the clone's with prefix+clone+suffixB; directly "
    "asserted: clone.model and listeners are new objects, rtc / allow_event_without_transition / state_field / "
    "start_value / custom attributes survive, same engine kind; copies are also driven through the triggers bound "
    "onto their model, and shallow copies (copy.copy) take part in the attach-to-one-only probes.",
    "Coq proof (clone = same configuration and registry, suffix equivalence) + differential correspondence with alternating suffixes",
    "DESIGN.md 5 C17",
    "Partial: physical non-sharing of Python objects is checked (identity tests, diverging suffixes), not "
    "proved.  Genuine defects repaired: fix: b431cc9, fix: b1b38e6, fix: 20edca7 (equal / unhashable listeners lost by "
    "the copy), and three regressions of those repairs found in the last session: fix: 89e640d (a copy started its "
    "engine over a half-built model), fix: b2df5de (snapshot while another thread sends), fix: 14baa4a (a copy "
    "regrouped late listeners - the C17 half of D25; the suffix-equivalence theorem lost its one-round hypothesis). "
    "Probes: a model that holds its own machine copied from the model; a machine whose stored state was reset to None.")

CLAIMED["C16"] = (
    "Theorems (Properties/C16.v): in a process of several machine objects (instances of one or of different "
    "classes, each with its own declaration, providers, behaviour and configuration) driven in ANY interleaving, "
    "what one object returns, raises, stores, logs and ends as is what it does when it alone is given its own "
    "operations, so the other objects, their operations and the interleaving do not matter; the one process-wide object "
    "the library shares, the signature cache, is proved transparent - every callable is bound with its own "
    "adapter after any number and order of other bindings - whenever the cache key separates callables with "
    "different adapters, and refuted for the pinned key (same qualified name and variable names, different "
    "kinds: D7).  Tied to /repo metamorphically and against the model: each random machine A is run alone and "
    "run again with unrelated activity between every two of its operations (another instance of the class with "
    "other listeners incl. coroutine ones; another class with the same class and method names; a subclass adding "
    "callbacks; an unrelated class; an unrelated class whose state ids are A's callback names; A driven from "
    "inside a running callback of an unrelated machine); A's observations must be identical and equal the model of A alone.  Probes: "
    "a listener attached to only one of a machine and its copy.copy / deepcopy; a MachineMixin parent model class "
    "used before a derived model class naming another machine; "
    "a subclass declaring a transition from an inherited state changes the base class (known finding D13); the "
    "cache collision D7 is exhibited by C07's pairs.",
    "Coq proof (signature cache transparent under key separation; one-machine models) + metamorphic/differential correspondence",
    "DESIGN.md 5 C16", "Class-level State objects shared by subclasses are a known finding, not modelled.")

CLAIMED["C06"] = (
    "Theorems (Properties/C06.v), for any number of senders, any plan of sends and EVERY schedule (induction "
    "over the schedule), at thread granularity (any thread may run between two protocol steps) and at asyncio "
    "granularity: the callback blocks of different events never overlap (the log is a sequence of complete "
    "Begin/End blocks plus at most one open block); per sender, what was begun, what is queued and what is "
    "still to be sent is exactly its plan in its order (nothing lost, invented, reordered; nothing begun "
    "twice); once all senders have returned the queue is empty and every event has been processed; with callbacks "
    "that themselves send events (any family of nested sends): blocks never overlap, what was begun followed by "
    "what is queued is exactly what was put in put order (global FIFO), nothing is begun twice, and once all "
    "senders have returned everything put has been processed; with callbacks that FAIL while other threads send "
    "(the drainer clears the queue, releases, looks at the queue once more, re-raises): once all senders have "
    "returned the queue is empty and the lock free, and per sender what was begun is a subsequence of its plan in "
    "its order with nothing begun twice (events may be dropped by a failure, never invented or reordered), for "
    "every failing set, plan and schedule - nothing-stranded refuted by a "
    "schedule for the engine without that second look (D26, repaired).  Tied to "
    "/repo by a deterministic scheduler built on sys.settrace that parks every sender thread before every source "
    "line of engines/*.py and event.py and runs one line of one thread at a time following a schedule: every "
    "preemption point of sender 0 crossed with 8 preemption lengths of sender 1 (2 senders), plus random "
    "schedules with 1-6 preemptions for 2-4 senders x 1-2 events; the protocol steps actually executed (put, "
    "try-lock, pop, end of callbacks, emptiness test, release, re-check; recognised by line text) are replayed in "
    "the Coq model, which must yield the same pop order and popping thread, the same leftover queue and the same "
    "returned senders; the real begin/end markers must not overlap.  asyncio: 2-4 sender tasks whose callbacks "
    "(and a nested send) await gates opened one at a time in schedule order; exactly-once, sender order, no "
    "overlap, empty queue and global FIFO (begin order = put order observed on the engine object, nested send "
    "included) are checked on what happened; further asyncio scenarios cancel the draining task inside a callback "
    "or have one of the concurrently sent events refused (waiting events are dropped, the engine ends idle, a "
    "later send is processed), and a thread scenario keeps a second, unrelated machine busy inside a callback "
    "meanwhile (its lock must not matter); thread scenarios in which the callbacks of one event fail (every "
    "preemption point of the failing sender x several lengths of the other, plus random schedules), their steps "
    "replayed in the model with failing callbacks (Impl/ConcFail.v: same events begun by the same threads), a family "
    "of them with preemption points between the bytecode instructions of BaseEngine.put (f_trace_opcodes).",
    "Coq proof (protocol invariants by induction over schedules, all senders / plans / schedules) + schedule-controlled differential correspondence (sys.settrace scheduler)",
    "DESIGN.md 5 C06",
    "Partial: the theorem is about the protocol at source-line granularity; preemption inside one source line "
    "(bytecode level; explored by the correspondence inside BaseEngine.put only), the atomicity of deque.append / popleft and Lock.acquire under the GIL, and asyncio's own "
    "scheduler are trusted.  Two genuine defects repaired (fix: f9a2952 event stranded by the race before the "
    "release; fix: 894918f event stranded when a callback fails), both reproduced on the real engine by the scheduler.")

CLAIMED["C15"] = (
    "Theorems (Properties/C15.v): executing the class body of the a.to(b), b.from_(a), a.to.itself(), "
    "multi-target a.to(b, c) and multi-source c.from_(a, b) renderings of any abstract machine creates exactly its "
    "transitions in its order, hence every state gets the same ordered transition list in each of them; with "
    "events attached by class attributes (`ev = t1 | t2`, Event(t1 | t2, ...)) every transition is bound to "
    "exactly its events; from_.any() equals one explicit transition from every non-final state written after "
    "everything else (D14 as visible hypothesis).  Tied to /repo by rendering each random abstract machine as "
    "baseline and in up to 10 (quick) / 24 (thorough) random combinations of {event=\"a b\", event=[...], Event() "
    "objects, attribute assignment, Event(tl, name=)} x {to, from_, multi-target, multi-source} x itself() x "
    "{State attributes, States({...}), States.from_enum} x {direct, inherited from a base class}, plus a "
    "from_.any() rendering (also with cond / unless guards), mixed attachment (event= on some transitions, class "
    "attribute for the same event on others) and decorator renderings (@tl.before/.on/.after/.validators/.cond/"
    ".unless def f, the same on explicit Event objects, and @(t1 | t2) def event(self) declaring an event with its on action; "
    "IntEnum sources with aliases): the real classes must have the same states, event set and ordered per-state "
    "transitions (target, internal, events, guards, validators, callbacks) and give the same observations on the "
    "common history; the baseline is compared with the engine model in coqc.  The behavioural half is a theorem "
    "as well: the engine reads a declaration only through the ordered transition list of each source state, so "
    "two class bodies that agree on those lists - in whatever global order the calls created the transitions - "
    "give the same observations on every history of operations, for every meaning of the keyword arguments, "
    "every provider set and callback behaviour; instantiated for the body written state by state instead of "
    "event by event (also rendered by the correspondence).",
    "Coq proof (creation-order semantics of the declaration styles; behaviour depends only on per-state transition lists) + pairwise differential correspondence of renderings",
    "DESIGN.md 5 C15",
    "Also rendered: one from_.any() declaration under two event names (D28, a regression of the repair d0fdccb, "
    "repaired: fix: 65106b9).  Partial: decorator styles, States / enum / inheritance / Event-object styles are "
    "covered by the correspondence only (the Coq model covers the transition-creating and event-attaching calls).  One "
    "genuine defect repaired (fix: 414111d, from_.any() deep-copied callbacks given as bound methods together with their object).")

PENDING_REASON = "check not built yet in this session (work in progress; see DESIGN.md 9 for the order of work)"

ALL = [f"C{i:02d}" for i in range(1, 19)]


def main():
    checks = []
    for p in ALL:
        if p not in CLAIMED:
            continue
        text, tech, ref, note = CLAIMED[p]
        checks.append({
            "property_id": p,
            "quick_cmd": f"./check {p} quick",
            "thorough_cmd": f"./check {p} thorough",
            "evidence_file": f"/verif/evidence/{p}.json",
            "replay_cmd_template": f"./check {p} --replay {{path}}",
            "engine": "coq-model+correspondence",
            "level_claimed": {"category": "proof", "text": text, "design_ref": ref},
            "level_note": NOTE_COMMON + " " + note,
            "technique": tech,
        })
    man = {
        "version": 1,
        "setup_cmd": "./setup.sh",
        "hooks": {
            "guard": "PYSM_VERIF",
            "enable": "no source hooks are needed: checks import /repo's working tree directly "
                      "(PYTHONPATH=/repo) and observe through the public API; PYSM_VERIF=1 is exported by ./check "
                      "but /repo never reads it",
            "baseline_off_cmd": "cd /repo && /venv/bin/python -m pytest -ra -q -p no:cacheprovider --timeout=900 "
                                "--continue-on-collection-errors",
            "source_commits": [],
            "add_only": True,
        },
        "engines": [{
            "name": "coq-model+correspondence",
            "path": "/verif/coq , /verif/harness",
            "serves_properties": sorted(CLAIMED),
            "kind_free_text": "Hand-written executable Gallina model + Spec, theorems in coq/theories/Properties, "
                              "differential correspondence against /repo with verdicts computed by coqc/vm_compute",
        }],
        "checks": checks,
        "notes": "See DESIGN.md. known_findings.json lists genuine defects (known / fixed).",
        "not_applicable": [{"property_id": p, "reason": PENDING_REASON} for p in ALL if p not in CLAIMED],
    }
    with open(os.path.join(VERIF, "MANIFEST.json"), "w") as f:
        json.dump(man, f, indent=1)
    print("MANIFEST.json written:", len(checks), "checks")


if __name__ == "__main__":
    main()
