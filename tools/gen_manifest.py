#!/usr/bin/env python3
"""Regenerates MANIFEST.json from the table below (keeps it valid at all times)."""
import json
import os

VERIF = os.path.dirname(os.path.dirname(os.path.abspath(__file__)))

NOTE_COMMON = ("Trusted: Coq 8.16.1 kernel + vm_compute (no native_compute, no axioms: every theorem prints "
               "'Closed under the global context'); the hand-written Gallina model is tied to /repo only by the "
               "differential correspondence run (generators, drivers, canonicalisation, parser of verdict digits); "
               "Python runtime semantics are modelled, not verified.")

# property -> (text, technique, design_ref, extra note)
CLAIMED = {
    "C09": (
        "Theorems (Properties/C09.v): the deque/visited-set visit of graph.py computes exactly graph reachability "
        "for every edge list, without duplicates and without ever exhausting its fuel; the metaclass checks accept a "
        "declaration iff it is WellFormed (+ no trap / no-path-to-final under strict_states), reject otherwise, and "
        "warn iff a trap or no-path state exists - for all numbers of states and transitions. Tied to /repo by "
        "running every declaration over 1-2 states and every one-initial declaration over 3 states (exhaustive "
        "sub-spaces, see evidence) plus seeded random 1-6 state declarations through the real metaclass and "
        "comparing accepted / warned / InvalidDefinition with the model, verdicts computed inside coqc.",
        "Coq proof (BFS = reachability, checks = WellFormed) + exhaustive/random differential correspondence",
        "DESIGN.md 5 C09",
        "Compared observable is accepted-silently / accepted-with-UserWarning / InvalidDefinition (message wording "
        "is not part of the property).",
    ),
}

PENDING_REASON = "check not built yet in this session (work in progress; see DESIGN.md 9 for the order of work)"

ALL = [f"C{i:02d}" for i in range(1, 19)]


def main():
    checks = []
    for p in ALL:
        if p not in CLAIMED:
            continue
        text, tech, ref, note = CLAIMED[p]
        checks.append({
            "property_id": p,
            "quick_cmd": f"./check {p} quick",
            "thorough_cmd": f"./check {p} thorough",
            "evidence_file": f"/verif/evidence/{p}.json",
            "replay_cmd_template": f"./check {p} --replay {{path}}",
            "engine": "coq-model+correspondence",
            "level_claimed": {"category": "proof", "text": text, "design_ref": ref},
            "level_note": NOTE_COMMON + " " + note,
            "technique": tech,
        })
    man = {
        "version": 1,
        "setup_cmd": "./setup.sh",
        "hooks": {
            "guard": "PYSM_VERIF",
            "enable": "no source hooks are needed: checks import /repo's working tree directly "
                      "(PYTHONPATH=/repo) and observe through the public API; PYSM_VERIF=1 is exported by ./check "
                      "but /repo never reads it",
            "baseline_off_cmd": "cd /repo && /venv/bin/python -m pytest -ra -q -p no:cacheprovider --timeout=900 "
                                "--continue-on-collection-errors",
            "source_commits": [],
            "add_only": True,
        },
        "engines": [{
            "name": "coq-model+correspondence",
            "path": "/verif/coq , /verif/harness",
            "serves_properties": sorted(CLAIMED),
            "kind_free_text": "Hand-written executable Gallina model + Spec, theorems in coq/theories/Properties, "
                              "differential correspondence against /repo with verdicts computed by coqc/vm_compute",
        }],
        "checks": checks,
        "notes": "See DESIGN.md. known_findings.json lists genuine defects (known / fixed).",
        "not_applicable": [{"property_id": p, "reason": PENDING_REASON} for p in ALL if p not in CLAIMED],
    }
    with open(os.path.join(VERIF, "MANIFEST.json"), "w") as f:
        json.dump(man, f, indent=1)
    print("MANIFEST.json written:", len(checks), "checks")


if __name__ == "__main__":
    main()
