"""Round-5 sub-agent prompt: property text + what earlier rounds already tried (one line each, so that the
new changes are different) + a general description of the kind of tester they are up against.  Nothing of
the machinery under /verif is shown."""
import glob, json, os, subprocess, sys
pid = sys.argv[1]
base = subprocess.run([sys.executable, os.path.join(os.path.dirname(__file__), "agent_prompt.py"), pid],
                      capture_output=True, text=True).stdout
prior = []
for m in sorted(glob.glob(f"/verif/seeded/{pid}_*/meta.json")):
    prior.append("  - " + json.load(open(m))["summary"].split("\n")[0][:260])
print(base)
print("""
ADDITIONAL CONTEXT FOR THIS ROUND.  The library is being checked by an automated differential tester: it
generates thousands of random state machines (1-5 states, guards, validators, callbacks on machine / model /
listeners, sync and async, rtc on/off, many declaration styles, copies, late listeners, nested sends, failures
injected at every callback position, odd return values and exception classes, several threads / tasks), drives
them through the public API and compares every observable (callback order and arguments, results, exceptions,
stored state, allowed events, diagrams) with an executable formal model.  Earlier rounds of this exercise
already produced the changes listed below for this property; ALL of them are detected now.  Your two mutants
must be DIFFERENT from every one of them (different code site or different mechanism), and should aim at what
such a tester plausibly still overlooks: rarely used public API and options, modules away from the engine core
(state.py, states.py, event.py, events.py, transition.py, transition_list.py, model.py, mixins.py, factory.py,
dispatcher.py, signature.py, spec_parser.py, graph.py, utils.py, exceptions.py, contrib/diagram.py, i18n),
interactions of two features, behaviour that depends on history (the N-th time something happens, after a
failure, after a copy, after a listener was added), on object identity / equality / hashing, on names chosen by
the user, on the Python data model (descriptors, properties, __getattr__, slots, subclasses, dataclasses,
enum kinds), or on the driver (threads, running loop or none, nested machines).  Also consider changes that only show
after three or more steps, with two instances or two classes in play (class hierarchies, several models sharing a
machine class, machines nested in callbacks of each other), or only for particular VALUES (falsy, equal-but-not-identical,
unhashable, very large counts).  The failure must still be a
violation of the property as stated above, not of something else.

What the tester is known to generate by now (so aim elsewhere): callbacks by name / function object / bound method of
a helper object / decorator / instance attribute / functools.partial / wraps-decorated / lambda, on machine, model,
constructor listeners, late listeners (also equal, unhashable, falsy, class-object and proxy listeners); guards as
methods, attributes, properties that may raise, boolean and comparison expressions; coroutine callbacks, awaitable
objects, Futures; return values of every kind (falsy, equal-to-everything, exception objects); exceptions deriving
from Exception, BaseException, StopIteration, RuntimeError, AttributeError, KeyError, TypeError, falsy exceptions,
TransitionNotAllowed; events declared by event=, lists, Event objects (before or after the states), class attributes,
|, |=, decorators, from_.any() (also sharing an event with explicit transitions), multi-target / multi-source calls,
States dicts, Enum / IntEnum sources with aliases and falsy members, inheritance (base + subclass adding transitions,
renaming events, adding events over inherited transitions), MachineMixin models (also with cooperative __init__);
unknown event names including names of other attributes; state values of every kind including ones spelled like other
ids; start_value, stored state, external writes, None writes; copies (copy, deepcopy, pickle, copies of copies, before
activation) with listeners attached on either side; several instances / classes / threads / tasks / event loops,
machines driven from inside callbacks of other machines, add_listener from inside callbacks and from other threads,
cancelled tasks, failing callbacks under concurrency, queues of thousands of events; diagrams of classes and of
instances in every state, after late listeners, with start_value, with duplicate names, before / after subclasses,
arrows counted in the DOT text; callbacks that write current_state_value themselves (every group, both engines);
constructor options passed positionally or changed after construction; explicit activate_initial_state(); a base class
used before its subclass exists; markcoroutinefunction-marked and __signature__-publishing callbacks; chained events
(an event name used as a callback) with positional arguments; property objects as guards, inherited; the name `v` as a
guard; states with equal values; Enum classes shared by unrelated machines; listeners shared by machines and changed in
between; add_observer; bind_events_to with nothing else referencing the machine; thread preemption between the bytecode
instructions of the engine's put().

Already tried for this property (do not repeat):
""" + "\n".join(prior))
