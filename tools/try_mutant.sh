#!/bin/sh
# usage: tools/try_mutant.sh <patch.diff> <Cxx> [tier]   — apply to /repo, run the check, always revert
diff="$1"; prop="$2"; tier="${3:-quick}"
git -C /repo apply "$diff" || { echo "PATCH DOES NOT APPLY"; exit 3; }
/verif/check "$prop" "$tier" 2>&1 | grep -E "VIOLATION|KNOWN-FINDING|Error|Traceback" | head -8
rc=$?
git -C /repo checkout -- . 
git -C /repo status --short | head -3
