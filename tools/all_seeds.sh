#!/bin/sh
# every seeded change against the check of its own property
cd /verif
for d in seeded/*/; do
  id=$(basename $d); prop=${id%%_*}
  tools/run_seeds.sh $prop $id 2>&1 | grep -v "^WARNING"
done
