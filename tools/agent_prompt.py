"""Print the sub-agent prompt for one property (only the property text, no /verif content)."""
import json, sys
pid = sys.argv[1]
for line in open("/verif/properties.jsonl"):
    p = json.loads(line)
    if p["id"] == pid:
        break
print(f"""You are helping to evaluate a verification effort for the open-source Python library python-statemachine (version 2.5.0). Your job is to play the role of a developer who introduces a subtle regression.

You have your own scratch git worktree of the library at /tmp/wt/{pid} (work ONLY there; never read or modify /repo or /verif — in particular do not look at anything under /verif). Python with all test dependencies is /venv/bin/python.

The semantic property you must break:

  Title: {p['title']}
  Statement: {p['statement']}
  Quantified over: {p['quantifier']['text']}

Task: produce TWO different, independent source changes ("mutants") to the library code under /tmp/wt/{pid}/statemachine/ such that each one
  (a) still imports/compiles and passes the ENTIRE existing test suite unchanged: run
        cd /tmp/wt/{pid} && /venv/bin/python -m pytest -q -p no:cacheprovider --timeout=900 -x -q 2>&1 | tail -5
      (expect 348 passed; the run takes ~30 s);
  (b) breaks the property above in a realistic way — like a plausible refactoring mistake, an off-by-one, a wrong condition, a dropped step, a stale cache, a reordered statement, a missed case;
  (c) needs something SPECIFIC to manifest: a particular multi-step sequence of operations, an unusual-but-legal input, a particular interleaving, a failure at a particular point, an option combination, or two cooperating sites that each look fine alone. It should NOT be exposed immediately by the most ordinary use of the library (e.g. the README example must still work).
  The two mutants should touch different mechanisms / code sites where possible.

For each mutant k in {{1,2}} write these files under /tmp/seeds/{pid}/ :
  m{{k}}.diff       — the change as a unified diff produced with `git -C /tmp/wt/{pid} diff` (must apply with `git apply` on a clean checkout; only files under statemachine/);
  m{{k}}_demo.py    — a small standalone program that exits 0 on the ORIGINAL code and exits non-zero (assertion failure) WITH the mutant applied; it is run as `cd <checkout> && PYTHONPATH=<checkout> /venv/bin/python m{{k}}_demo.py`; it must only use the public API of the library and finish within 20 seconds; 
  m{{k}}_meta.json  — {{"property": "{pid}", "summary": "<one sentence: what was changed>", "needs": "<what specific input/sequence/interleaving is needed to see the failure>", "files": [...]}}

Procedure: read the relevant library source in the worktree, design mutant 1, apply it, run the test suite (must be all green), write and run the demo (must fail), save the diff, then `git -C /tmp/wt/{pid} checkout -- .` and verify the demo passes on the clean tree; repeat for mutant 2. Leave the worktree clean (`git status` empty) when you finish. Do not create files inside the worktree other than temporary ones you delete afterwards. Wrap every python invocation in `timeout 120` (pytest: `timeout 600`).

Finish with a brief report: for each mutant, one line describing it and confirming (tests green with mutant / demo fails with mutant / demo passes without).""")
