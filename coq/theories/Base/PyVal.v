(* Python values as far as the modelled properties need them. *)
From Coq Require Import List Arith Bool ZArith.
Import ListNotations.

Inductive pyval :=
| VNone
| VBool (b : bool)
| VInt (z : Z)
| VStr (n : nat)                (* string number n of the harness's table; 0 is the empty string *)
| VList (l : list pyval)
| VTuple (l : list pyval)
| VOpaque (id : nat) (t : bool) (* any other object (dict, instance, ...) with its truthiness *).

Definition truthy (v : pyval) : bool :=
  match v with
  | VNone => false
  | VBool b => b
  | VInt z => negb (Z.eqb z 0)
  | VStr n => negb (Nat.eqb n 0)
  | VList l => match l with [] => false | _ => true end
  | VTuple l => match l with [] => false | _ => true end
  | VOpaque _ t => t
  end.

(* structural (type-sensitive) equality: used to compare observed with predicted values, it is
   NOT Python's == *)
Fixpoint pyval_eqb (a b : pyval) : bool :=
  let fix go (l1 l2 : list pyval) : bool :=
    match l1, l2 with
    | [], [] => true
    | x :: xs, y :: ys => pyval_eqb x y && go xs ys
    | _, _ => false
    end in
  match a, b with
  | VNone, VNone => true
  | VBool x, VBool y => Bool.eqb x y
  | VInt x, VInt y => Z.eqb x y
  | VStr x, VStr y => Nat.eqb x y
  | VList x, VList y => go x y
  | VTuple x, VTuple y => go x y
  | VOpaque i s, VOpaque j t => Nat.eqb i j && Bool.eqb s t
  | _, _ => false
  end.

Fixpoint list_eqb {A} (eqb : A -> A -> bool) (l1 l2 : list A) : bool :=
  match l1, l2 with
  | [], [] => true
  | x :: xs, y :: ys => eqb x y && list_eqb eqb xs ys
  | _, _ => false
  end.

Definition option_eqb {A} (eqb : A -> A -> bool) (a b : option A) : bool :=
  match a, b with
  | None, None => true
  | Some x, Some y => eqb x y
  | _, _ => false
  end.

(* multiset equality of two lists under a boolean equality *)
Fixpoint remove_first {A} (eqb : A -> A -> bool) (x : A) (l : list A) : option (list A) :=
  match l with
  | [] => None
  | y :: r => if eqb x y then Some r
              else match remove_first eqb x r with Some r' => Some (y :: r') | None => None end
  end.

Fixpoint perm_eqb {A} (eqb : A -> A -> bool) (l1 l2 : list A) : bool :=
  match l1 with
  | [] => match l2 with [] => true | _ => false end
  | x :: r => match remove_first eqb x l2 with Some l2' => perm_eqb eqb r l2' | None => false end
  end.
