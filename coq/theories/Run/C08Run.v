(* Evaluated by generated case files for C08.  A case: the expression (AST), whether it is attached as
   cond or unless, a list of environments (one per send), the names whose reads are logged, and per
   environment what happened: the library's outcome and read log, and CPython's own verdict on the
   canonical spelling.  0 = all equal, 2 = library differs from model, 4 = the model's reference
   semantics differs from CPython (a defect of the model, reported like a violation). *)
From Coq Require Import List Arith Bool ZArith.
Import ListNotations.
From PySM Require Export Impl.Guards.

(* outcome codes: 0 transition not fired, 1 fired, 2 TypeError *)
Record step := { s_env : list (nat * pyval); s_impl : nat; s_reads : list nat; s_ref : nat }.

Definition env_of (l : list (nat * pyval)) : env :=
  fun n => match find (fun p => Nat.eqb (fst p) n) l with Some (_, v) => v | None => VNone end.

Definition code_of (r : option bool) : nat :=
  match r with Some true => 1 | Some false => 0 | None => 2 end.

Definition ref_code (rho : env) (e : expr) (expected : bool) : nat :=
  match fst (py_eval rho e) with
  | EV v => if Bool.eqb (truthy v) expected then 1 else 0
  | ETypeError => 2
  end.

Definition case := (expr * bool * list nat * bool * list step)%type.

Definition step_verdict (e : expr) (expected : bool) (logged : list nat) (cmp_reads : bool) (s : step) : nat :=
  let rho := env_of (s_env s) in
  let k := build e in
  let m := code_of (guard_holds rho e expected) in
  let mreads := filter (fun n => existsb (Nat.eqb n) logged) (snd (eval_closure rho k)) in
  if negb (Nat.eqb (ref_code rho e expected) (s_ref s)) then 4
  else if negb (Nat.eqb m (s_impl s)) then 2
  else if cmp_reads && negb (list_eqb Nat.eqb mreads (s_reads s)) then 2
  else 0.

Definition verdict (c : case) : nat :=
  let '(e, expected, logged, cmp_reads, steps) := c in
  fold_left (fun acc s => if Nat.eqb acc 0 then step_verdict e expected logged cmp_reads s else acc) steps 0.

Definition st (env : list (nat * pyval)) (impl : nat) (reads : list nat) (ref : nat) : step :=
  {| s_env := env; s_impl := impl; s_reads := reads; s_ref := ref |}.

(* malformed inputs carry no model evaluation: the expected behaviour is InvalidDefinition at
   instantiation (inr 1 = that is what happened); a well-formed input on which the library could not
   even be constructed is inr 0 *)
Definition verdict_any (c : case + nat) : nat :=
  match c with
  | inl k => verdict k
  | inr 1 => 0
  | inr _ => 2
  end.

Definition wf (k : case) : case + nat := inl k.
Definition mal (n : nat) : case + nat := inr n.
