(* Evaluated by generated case files for C08.  A case: the expression (AST), whether it is attached as
   cond or unless, a list of environments (one per send), the names whose reads are logged, and per
   environment what happened: the library's outcome and read log, and CPython's own verdict on the
   canonical spelling.  0 = all equal, 2 = library differs from model, 4 = the model's reference
   semantics differs from CPython (a defect of the model, reported like a violation). *)
From Coq Require Import List Arith Bool ZArith.
Import ListNotations.
From PySM Require Export Impl.Guards Impl.Replace.

(* outcome codes: 0 transition not fired, 1 fired, 2 TypeError *)
Record step := { s_env : list (nat * pyval); s_impl : nat; s_reads : list nat; s_ref : nat }.

Definition env_of (l : list (nat * pyval)) : env :=
  fun n => match find (fun p => Nat.eqb (fst p) n) l with Some (_, v) => v | None => VNone end.

Definition code_of (r : option bool) : nat :=
  match r with Some true => 1 | Some false => 0 | None => 2 end.

Definition ref_code (rho : env) (e : expr) (expected : bool) : nat :=
  match fst (py_eval rho e) with
  | EV v => if Bool.eqb (truthy v) expected then 1 else 0
  | ETypeError => 2
  end.

(* a transition may carry several guard entries (cond entries first, then unless entries); the sync
   executor evaluates them in order and stops at the first one that does not hold, the async executor
   evaluates all of them *)
Definition case := (list (expr * bool) * list nat * bool * bool * list step)%type.

Fixpoint entries_sync (rho : env) (es : list (expr * bool)) : nat * list nat :=
  match es with
  | [] => (1, [])
  | (e, expected) :: r =>
      let rd := snd (eval_closure rho (build e)) in
      match guard_holds rho e expected with
      | None => (2, rd)
      | Some false => (0, rd)
      | Some true => let '(c, rd') := entries_sync rho r in (c, rd ++ rd')
      end
  end.

(* all evaluated; TypeError of any entry surfaces unless... (such cases are not generated) *)
Fixpoint entries_async (rho : env) (es : list (expr * bool)) : nat * list nat :=
  match es with
  | [] => (1, [])
  | (e, expected) :: r =>
      let rd := snd (eval_closure rho (build e)) in
      let '(c, rd') := entries_async rho r in
      match guard_holds rho e expected with
      | None => (2, rd ++ rd')
      | Some false => ((if Nat.eqb c 2 then 2 else 0), rd ++ rd')
      | Some true => (c, rd ++ rd')
      end
  end.

Definition ref_entries (rho : env) (es : list (expr * bool)) : nat :=
  fold_left (fun acc ee => match acc with
                           | 1 => ref_code rho (fst ee) (snd ee)
                           | n => n
                           end) es 1.

Definition step_verdict (es : list (expr * bool)) (logged : list nat) (is_async cmp_reads : bool) (s : step) : nat :=
  let rho := env_of (s_env s) in
  let '(m, rd) := if is_async then entries_async rho es else entries_sync rho es in
  let mreads := filter (fun n => existsb (Nat.eqb n) logged) rd in
  if negb is_async && negb (Nat.eqb (ref_entries rho es) (s_ref s)) then 4
  else if negb (Nat.eqb m (s_impl s)) then 2
  else if cmp_reads && negb (list_eqb Nat.eqb mreads (s_reads s)) then 2
  else 0.

Definition verdict (c : case) : nat :=
  let '(es, logged, is_async, cmp_reads, steps) := c in
  fold_left (fun acc s => if Nat.eqb acc 0 then step_verdict es logged is_async cmp_reads s else acc) steps 0.

Definition st (env : list (nat * pyval)) (impl : nat) (reads : list nat) (ref : nat) : step :=
  {| s_env := env; s_impl := impl; s_reads := reads; s_ref := ref |}.

(* malformed inputs carry no model evaluation: the expected behaviour is InvalidDefinition at
   instantiation (inr 1 = that is what happened); a well-formed input on which the library could not
   even be constructed is inr 0 *)
Definition verdict_any (c : case + nat) : nat :=
  match c with
  | inl k => verdict k
  | inr 1 => 0
  | inr _ => 2
  end.

Definition wf (k : case) : case + nat := inl k.
Definition mal (n : nat) : case + nat := inr n.

(* textual layer: the library's replace_operators on a text (character codes) against the model *)
Definition text_case (input output : list nat) : case + nat :=
  mal (if list_eqb Nat.eqb (replace_operators input) output then 1 else 0).
