(* Evaluated by generated case files for C07: a case is a signature, a call shape and what the real
   adapter + the real Python call produced.  0 = equal to the model, 2 = differs. *)
From Coq Require Import List Arith Bool.
Import ListNotations.
From PySM Require Export Impl.Signature Base.PyVal Spec.CallSpec.

Inductive ires := IBindTE | ICallTE | ITE (* a TypeError, raised by the binder or by the call *) | IAssigned (a : arguments).

Definition pr (n : nat) (k : pkind) (d : bool) : param := {| p_name := n; p_kind := k; p_default := d |}.

Definition pair_eqb (a b : nat * nat) : bool := Nat.eqb (fst a) (fst b) && Nat.eqb (snd a) (snd b).

Definition bval_eqb (a b : bval) : bool :=
  match a, b with
  | BOne x, BOne y => Nat.eqb x y
  | BTuple x, BTuple y => list_eqb Nat.eqb x y
  | BDict x, BDict y => perm_eqb pair_eqb x y
  | _, _ => false
  end.

Definition binding_eqb (a b : nat * bval) : bool := Nat.eqb (fst a) (fst b) && bval_eqb (snd a) (snd b).

(* an empty *args tuple / **kwargs dict is what Python passes when nothing is left over *)
Definition normalise (sig : list param) (a : arguments) : arguments :=
  a ++ flat_map (fun p => match p_kind p, arg_lookup (p_name p) a with
                          | VarPos, None => [(p_name p, BTuple [])]
                          | VarKw, None => [(p_name p, BDict [])]
                          | _, _ => []
                          end) sig.

(* a case: signature, positional values, keyword items, whether the call goes through a real machine
   (then the user's keywords pass Event.__call__'s filter and get the eight built-ins layered on top:
   built-in name 50+i carries the value 350+i), and what the callable received *)
Definition case := (list param * list nat * kwmap * bool * ires)%type.

Definition builtins : kwmap := map (fun i => (50 + i, 350 + i)) (seq 0 8).

Definition effective_kw (machine : bool) (kw : kwmap) : kwmap :=
  if machine then extended_kwargs kw builtins else kw.

Definition verdict (c : case) : nat :=
  let '(sig, args, kw0, machine, impl) := c in
  let kw := effective_kw machine kw0 in
  match adapter_call sig args kw, impl with
  | inr _, IBindTE => 0
  | inl (CallTypeError _), ICallTE => 0
  | inr _, ITE => 0
  | inl (CallTypeError _), ITE => 0
  | inl (Assigned a), IAssigned b => if perm_eqb binding_eqb (normalise sig a) b then 0 else 2
  | _, _ => 2
  end.

(* 1 when the model itself violates the stated contract on this input: the call raises although no
   required parameter is missing, or a declared non-positional-only parameter named in the event's
   kwargs does not receive that value (used to classify known deviations) *)
Definition named_ok (sig : list param) (kw : kwmap) (a : arguments) : bool :=
  forallb (fun nv => match find_param (fst nv) sig with
                     | Some p => match p_kind p with
                                 | PosOrKw | KwOnly =>
                                     match arg_lookup (fst nv) a with
                                     | Some (BOne v) => Nat.eqb v (snd nv)
                                     | _ => false
                                     end
                                 | _ => true
                                 end
                     | None => true
                     end) kw.

Definition deviates (c : case) : nat :=
  let '(sig, args, kw0, machine, _) := c in
  let kw := effective_kw machine kw0 in
  match adapter_call sig args kw with
  | inr _ => 1
  | inl (CallTypeError 4) => 0
  | inl (CallTypeError _) => 1
  | inl (Assigned a) => if named_ok sig kw a then 0 else 1
  end.

(* the statement of Properties/C07.v (C07_callable_receives_declared_parameters) evaluated on this
   input: the call fails only with "missing required argument" and exactly when the declarative
   assignment leaves a parameter without default unbound; otherwise every declared parameter
   receives what [spec_bind] assigns to it *)
Definition obval_eqb (a b : option bval) : bool :=
  match a, b with
  | Some x, Some y => bval_eqb x y
  | None, None => true
  | _, _ => false
  end.

Definition spec_ok (c : case) : bool :=
  let '(sig, args, kw0, machine, _) := c in
  let kw := effective_kw machine kw0 in
  let B := spec_bind sig args kw in
  match adapter_call sig args kw with
  | inr _ => false
  | inl (CallTypeError w) => Nat.eqb w 4 && missing sig B
  | inl (Assigned a) => negb (missing sig B)
                        && forallb (fun p => obval_eqb (arg_lookup (p_name p) a) (received p B)) sig
  end.

(* 0 = implementation equals model and the contract holds on this input; 1 = implementation equals
   model but the model (hence the code) breaks the contract here (a known deviation, to be matched
   against known_findings.json); 2 = implementation differs from the model *)
Definition verdict3 (c : case) : nat :=
  match verdict c with
  | 0 => if spec_ok c then deviates c else 1
  | n => n
  end.
