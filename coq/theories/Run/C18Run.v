(* Evaluated by generated case files for C18: the machine, the current state (None for a class) and
   what the real pydot graph contains.  0 = equal to the model, 2 = differs. *)
From Coq Require Import List Arith Bool.
Import ListNotations.
From PySM Require Export Impl.Diagram Base.PyVal.

Definition mkt (s t : nat) (evs : list nat) (i : bool) (g : list (nat * bool)) : dtrans :=
  {| dt_src := s; dt_tgt := t; dt_events := evs; dt_internal := i; dt_guards := g |}.
Definition mkm (f : list bool) (i : nat) (ts : list dtrans) : dmachine :=
  {| dm_final := f; dm_initial := i; dm_trans := ts |}.

(* observed node: id (None = "i"), peripheries, highlighted, events of the internal lines *)
Definition inode := (option nat * nat * bool * list (list nat))%type.
(* observed edge: source, target (None = "i"), events, guards *)
Definition iedge := (option nat * option nat * list nat * list (nat * bool))%type.

Definition id_eqb (a : node_id) (b : option nat) : bool :=
  match a, b with NInitial, None => true | NState s, Some t => Nat.eqb s t | _, _ => false end.

Definition guard_eqb (a b : nat * bool) : bool := Nat.eqb (fst a) (fst b) && Bool.eqb (snd a) (snd b).

Definition node_eqb (m : dnode) (i : inode) : bool :=
  let '(id, per, hl, lines) := i in
  id_eqb (dn_id m) id && Nat.eqb (dn_peripheries m) per && Bool.eqb (dn_highlighted m) hl
  && perm_eqb (list_eqb Nat.eqb) (dn_internal_lines m) lines.

Definition edge_eqb (m : dedge) (i : iedge) : bool :=
  let '(s, t, evs, gs) := i in
  id_eqb (de_src m) s && id_eqb (de_tgt m) t && list_eqb Nat.eqb (de_events m) evs
  && list_eqb guard_eqb (de_guards m) gs.

Fixpoint remove_first2 {A B} (eqb : A -> B -> bool) (x : A) (l : list B) : option (list B) :=
  match l with
  | [] => None
  | y :: r => if eqb x y then Some r
              else match remove_first2 eqb x r with Some r' => Some (y :: r') | None => None end
  end.
Fixpoint perm2 {A B} (eqb : A -> B -> bool) (l1 : list A) (l2 : list B) : bool :=
  match l1 with
  | [] => match l2 with [] => true | _ => false end
  | x :: r => match remove_first2 eqb x l2 with Some l2' => perm2 eqb r l2' | None => false end
  end.

Definition case := (dmachine * option nat * list inode * list iedge)%type.

(* nodes and edges are compared as multisets (the order in the DOT text is not part of the property) *)
Definition verdict (c : case) : nat :=
  let '(m, cur, ns, es) := c in
  if perm2 node_eqb (graph_nodes m cur) ns && perm2 edge_eqb (graph_edges m) es then 0 else 2.
