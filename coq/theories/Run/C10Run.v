(* Evaluated by generated case files for C10. 0 = observations equal the model, 2 = differ. *)
From Coq Require Import List Arith Bool ZArith.
Import ListNotations.
From PySM Require Export Impl.Storage.

Record iso := { i_res : nat;              (* 0 ok, 1 InvalidStateValue, 2 TransitionNotAllowed, 9 other *)
                i_store : store; i_current : option nat; i_active : option (list bool);
                i_kept : bool }.          (* sm.model is the object the user supplied *)

Definition io (r : nat) (st : store) (cur : option nat) (act : option (list bool)) (kept : bool) : iso :=
  {| i_res := r; i_store := st; i_current := cur; i_active := act; i_kept := kept |}.
Definition mk (vs : list pyval) (init : nat) (ts : list (nat * nat * nat)) : smach :=
  {| sm_values := vs; sm_initial := init; sm_trans := ts |}.

Definition res_code (r : sres) : nat := match r with SOk => 0 | SInvalidStateValue => 1 | SNotAllowed => 2 end.

(* stored values are compared structurally (the harness encodes what it finds in the model) *)
Definition obs_eqb (m : sobs) (i : iso) : bool :=
  Nat.eqb (res_code (so_res m)) (i_res i)
  && option_eqb pyval_eqb (so_store m) (i_store i)
  && option_eqb Nat.eqb (so_current m) (i_current i)
  && option_eqb (list_eqb Bool.eqb) (so_active m) (i_active i)
  && i_kept i.

Fixpoint all2 {A B} (f : A -> B -> bool) (l1 : list A) (l2 : list B) : bool :=
  match l1, l2 with
  | [], [] => true
  | x :: r, y :: s => f x y && all2 f r s
  | _, _ => false
  end.

Definition case := (smach * option pyval * store * list sop * list iso)%type.

Definition verdict (c : case) : nat :=
  let '(m, sv, st0, ops, impl) := c in
  if negb (distinct_values (sm_values m)) then 9
  else if all2 obs_eqb (srun_all m sv st0 ops) impl then 0 else 2.
