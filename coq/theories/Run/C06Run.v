(* Evaluated by generated case files for C06: the plan (events per sender), the granularity, the
   schedule of protocol steps reconstructed from the real execution (one thread id per step: put,
   try-lock, emptiness test / pop, end of callbacks, release), and what the real execution showed:
   the order in which events were popped (with the popping thread), the queue left at the end, and
   which senders had returned.
   0 = model and implementation agree and nothing is stranded; 1 = they agree and an event is
   stranded although all senders returned (the property fails on this schedule: known finding D12 at
   thread granularity); 2 = they differ, or the model's log is not a sequence of non-overlapping
   blocks. *)
From Coq Require Import List Arith Bool.
Import ListNotations.
From PySM Require Export Impl.Conc Impl.ConcFail Base.PyVal.

Definition ev_eqb (a b : event) : bool := Nat.eqb (fst a) (fst b) && Nat.eqb (snd a) (snd b).

Definition begun_by (l : list marker) : list (event * nat) :=
  flat_map (fun m => match m with Begin e t => [(e, t)] | End _ _ => [] end) l.

Definition evt_eqb (a b : event * nat) : bool := ev_eqb (fst a) (fst b) && Nat.eqb (snd a) (snd b).

Definition plan_of (l : list nat) : nat -> nat := fun t => nth t l 0.

(* mode 0 = threads (Line), 1 = asyncio (Await), 2 = threads, the callbacks of event (0, 0) fail (ConcFail, the
   code after fix 894918f: the drainer looks at the queue once more after releasing the lock on that path) *)
Definition case := (nat * list nat * list nat * list (event * nat) * list event * list bool)%type.

Definition ffinishedb (w : fworld) (t : nat) : bool :=
  match f_pc (fw_threads w t), f_todo (fw_threads w t) with FIdle, [] => true | _, _ => false end.

Definition agree_then (ok : bool) (leftover : list event) (returned : list bool) : nat :=
  if ok
  then (if forallb (fun b => b) returned && negb (match leftover with [] => true | _ => false end) then 1 else 0)
  else 2.

Definition verdict (c : case) : nat :=
  let '(mode, plan, sched, popped, leftover, returned) := c in
  match mode with
  | 2 =>
      let w := frun (fun e => ev_eqb e (0, 0)) true sched (finit (plan_of plan)) in
      let fin := map (ffinishedb w) (seq 0 (length plan)) in
      agree_then (list_eqb evt_eqb (begun_by (fw_log w)) popped
                  && list_eqb ev_eqb (fw_queue w) leftover
                  && list_eqb Bool.eqb fin returned
                  && bracketed (fw_log w)) leftover returned
  | _ =>
      let g := match mode with 0 => Line | _ => Await end in
      let w := run g sched (init (plan_of plan)) in
      let fin := map (finished w) (seq 0 (length plan)) in
      agree_then (list_eqb evt_eqb (begun_by (w_log w)) popped
                  && list_eqb ev_eqb (w_queue w) leftover
                  && list_eqb Bool.eqb fin returned
                  && bracketed (w_log w)) leftover returned
  end.

Definition mk6 (line : bool) (plan sched : list nat) (popped : list (event * nat)) (leftover : list event)
  (returned : list bool) : case := ((if line then 0 else 1), plan, sched, popped, leftover, returned).
Definition mk6f (plan sched : list nat) (popped : list (event * nat)) (leftover : list event)
  (returned : list bool) : case := (2, plan, sched, popped, leftover, returned).
