(* Evaluated by generated case files for C06: the plan (events per sender), the granularity, the
   schedule of protocol steps reconstructed from the real execution (one thread id per step: put,
   try-lock, emptiness test / pop, end of callbacks, release), and what the real execution showed:
   the order in which events were popped (with the popping thread), the queue left at the end, and
   which senders had returned.
   0 = model and implementation agree and nothing is stranded; 1 = they agree and an event is
   stranded although all senders returned (the property fails on this schedule: known finding D12 at
   thread granularity); 2 = they differ, or the model's log is not a sequence of non-overlapping
   blocks. *)
From Coq Require Import List Arith Bool.
Import ListNotations.
From PySM Require Export Impl.Conc Base.PyVal.

Definition ev_eqb (a b : event) : bool := Nat.eqb (fst a) (fst b) && Nat.eqb (snd a) (snd b).

Definition begun_by (l : list marker) : list (event * nat) :=
  flat_map (fun m => match m with Begin e t => [(e, t)] | End _ _ => [] end) l.

Definition evt_eqb (a b : event * nat) : bool := ev_eqb (fst a) (fst b) && Nat.eqb (snd a) (snd b).

Definition plan_of (l : list nat) : nat -> nat := fun t => nth t l 0.

Definition case := (bool * list nat * list nat * list (event * nat) * list event * list bool)%type.

Definition verdict (c : case) : nat :=
  let '(line, plan, sched, popped, leftover, returned) := c in
  let g := if line then Line else Await in
  let w := run g sched (init (plan_of plan)) in
  let fin := map (finished w) (seq 0 (length plan)) in
  if list_eqb evt_eqb (begun_by (w_log w)) popped
     && list_eqb ev_eqb (w_queue w) leftover
     && list_eqb Bool.eqb fin returned
     && bracketed (w_log w)
  then (if forallb (fun b => b) returned && negb (match leftover with [] => true | _ => false end) then 1 else 0)
  else 2.

Definition mk6 (line : bool) (plan sched : list nat) (popped : list (event * nat)) (leftover : list event)
  (returned : list bool) : case := (line, plan, sched, popped, leftover, returned).
