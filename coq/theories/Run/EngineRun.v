(* Evaluated by generated case files for the engine family (C01 C02 C03 C04 C11 C14 ...): a case is
   a scenario plus what the real library did on it; Coq computes one verdict digit per case:
     0 = the implementation's observables (projected on what the property names) equal the model's
     2 = they differ
     9 = the scenario is outside the comparable region (in-group callback order would show, or the
         model ran out of fuel): counted by the harness, never an alarm *)
From Coq Require Import List Arith Bool ZArith.
Import ListNotations.
From PySM Require Export Impl.History.

(* ---------- what the Python driver recorded ---------- *)
Inductive inested := INReturned (v : pyval) | INRaised (x : exn).
Inductive ientry :=
| IC (prov kind k : nat) (isg : bool) (ev src : option nat) (tgt : option nat) (st csv : option nat) (tag dep : nat)
| IN (r : inested).

Inductive ioutcome := IVal (v : pyval) | IExn (x : exn).
Record iobs := { i_out : ioutcome; i_field : option nat; i_allowed : option (list nat); i_log : list ientry }.

Definition cbname_of_code (kind k : nat) : cbname :=
  match kind with
  | 0 => NUser k | 1 => NBeforeTransition | 2 => NOnTransition | 3 => NAfterTransition
  | 4 => NBeforeEv k | 5 => NOnEv k | 6 => NAfterEv k | 7 => NEnterState | 8 => NExitState
  | 9 => NEnterS k | _ => NExitS k
  end.

(* ---------- constructors used by the generated literals ---------- *)
Definition cb (p kind k : nat) : cbref := {| cb_prov := p; cb_name := cbname_of_code kind k |}.
Definition nm := cbname_of_code.
Definition sc (a : list action) (r : pyval) : script := {| acts := a; ret := r |}.
Definition mkT (s t : nat) (evs : list nat) (i : bool) (v : list cbname) (c : list (cbname * bool))
  (b o a : list cbname) : tdecl :=
  {| d_src := s; d_tgt := t; d_events := evs; d_internal := i; d_validators := v; d_cond := c;
     d_before := b; d_on := o; d_after := a |}.
Definition mkS (en ex : list cbname) : sdecl := {| sd_enter := en; sd_exit := ex |}.
Definition mkM (ss : list sdecl) (ts : list tdecl) (start : nat) (rtc allow : bool)
  (ps : list provider) (coro : list cbref) (rounds : list (list nat)) : mdecl :=
  {| md_states := ss; md_trans := ts; md_start := start; md_rtc := rtc; md_allow := allow;
     md_providers := ps; md_coro := coro; md_rounds := rounds; md_erounds := 1 |}.
Definition mkSc (m : mdecl) (t : btable) (f : option nat) (ops : list op) (fuel : nat) : scenario :=
  {| sc_md := m; sc_tbl := t; sc_field0 := f; sc_ops := ops; sc_fuel := fuel |}.
Definition mkO (r : ioutcome) (f : option nat) (al : option (list nat)) (l : list ientry) : iobs :=
  {| i_out := r; i_field := f; i_allowed := al; i_log := l |}.

(* ---------- equality tests ---------- *)
Definition onat_eqb := option_eqb Nat.eqb.

Definition exn_eqb (a b : exn) : bool :=
  match a, b with
  | XUser x, XUser y => Nat.eqb x y
  | XNotAllowed e s, XNotAllowed e' s' => Nat.eqb e e' && Nat.eqb s s'
  | XNoState, XNoState => true
  | XInvalidDef, XInvalidDef => true
  | XIndex, XIndex => true
  | _, _ => false
  end.

(* which parts of an observation a property compares *)
Record flags := {
  f_val : bool;       (* returned values *)
  f_exn : bool;       (* raised or not, and which exception *)
  f_field : bool;     (* stored state *)
  f_allowed : bool;   (* allowed_events *)
  f_ids : bool;       (* which callbacks ran, in which group order *)
  f_ctx : bool;       (* event / source / target / state / current_state_value / tag seen by callbacks *)
  f_nested : bool;    (* what a nested send returned or raised *)
  f_depth : bool }.   (* engine depth at which callbacks ran *)

(* the value Python got for (before results, on results): None / the value / the list, where the
   order inside each of the two groups is left open *)
Definition val_matches (r : pyres) (w : pyval) : bool :=
  match fst r ++ snd r with
  | [] | [_] => pyval_eqb (res_val r) w
  | _ => match w with
         | VList l => let n := length (fst r) in
                      perm_eqb pyval_eqb (fst r) (firstn n l) && perm_eqb pyval_eqb (snd r) (skipn n l)
         | _ => false
         end
  end.

Definition nested_eqb (a : nested_outcome) (b : inested) : bool :=
  match a, b with
  | NReturned v, INReturned w => val_matches v w
  | NRaised x, INRaised y => exn_eqb x y
  | _, _ => false
  end.

Definition out_eqb (fl : flags) (a : outcome) (b : ioutcome) : bool :=
  match a, b with
  | RVal v, IVal w => negb (f_val fl) || val_matches v w
  | RExn x, IExn y => negb (f_exn fl) || exn_eqb x y
  | RVal _, IExn _ | RExn _, IVal _ => negb (f_exn fl) && negb (f_val fl)
  | _, _ => false
  end.

Definition entry_eqb (fl : flags) (m : entry) (i : ientry) : bool :=
  match m, i with
  | ECall _ g c ev src tgt st csv tag dep, IC p kind k _ ev' src' tgt' st' csv' tag' dep' =>
      (negb (f_ids fl) || cbref_eqb c (cb p kind k))
      && (negb (f_ctx fl)
          || (onat_eqb ev ev' && onat_eqb src src' && onat_eqb (Some tgt) tgt' && onat_eqb st st'
              && onat_eqb csv csv' && Nat.eqb tag tag'))
      && (negb (f_depth fl) || match g with GCond => true | _ => Nat.eqb dep dep' end)
  | ENested r, IN r' => negb (f_nested fl) || nested_eqb r r'
  | _, _ => false
  end.

(* ---------- log comparison: equal up to the order inside one group execution ---------- *)
Definition ekey (e : entry) : option (nat * nat) :=
  match e with ECall act g _ _ _ _ _ _ _ _ => Some (act, group_idx g) | ENested _ => None end.

Definition key_eqb (a b : nat * nat) : bool := Nat.eqb (fst a) (fst b) && Nat.eqb (snd a) (snd b).

(* split the model log into blocks of one (activation, group) each; nested-send outcomes stay with
   the call before them *)
Fixpoint blocks (cur : option (nat * nat)) (acc : list entry) (l : list entry) : list (list entry) :=
  match l with
  | [] => match acc with [] => [] | _ => [rev acc] end
  | e :: r =>
      match ekey e with
      | None => blocks cur (e :: acc) r
      | Some k =>
          match cur with
          | Some k0 => if key_eqb k k0 then blocks cur (e :: acc) r
                       else (rev acc) :: blocks (Some k) [e] r
          | None => match acc with
                    | [] => blocks (Some k) [e] r
                    | _ => (rev acc) :: blocks (Some k) [e] r
                    end
          end
      end
  end.

Fixpoint remove_first2 {A B} (eqb : A -> B -> bool) (x : A) (l : list B) : option (list B) :=
  match l with
  | [] => None
  | y :: r => if eqb x y then Some r
              else match remove_first2 eqb x r with Some r' => Some (y :: r') | None => None end
  end.

Fixpoint perm2 {A B} (eqb : A -> B -> bool) (l1 : list A) (l2 : list B) : bool :=
  match l1 with
  | [] => match l2 with [] => true | _ => false end
  | x :: r => match remove_first2 eqb x l2 with Some l2' => perm2 eqb r l2' | None => false end
  end.

Fixpoint blocks_match (fl : flags) (bs : list (list entry)) (il : list ientry) : bool :=
  match bs with
  | [] => match il with [] => true | _ => false end
  | b :: r =>
      let n := length b in
      perm2 (entry_eqb fl) b (firstn n il) && blocks_match fl r (skipn n il)
  end.

Definition is_guard_entry (e : entry) : bool :=
  match e with ECall _ GCond _ _ _ _ _ _ _ _ => true | _ => false end.
Definition is_guard_ientry (e : ientry) : bool :=
  match e with IC _ _ _ isg _ _ _ _ _ _ _ => isg | _ => false end.

(* names u500.. are plain attributes of their provider (read with getattr, no call to observe): the
   model treats them as callbacks, the driver cannot log them *)
Definition is_silent_entry (e : entry) : bool :=
  match e with
  | ECall _ _ c _ _ _ _ _ _ _ => match cb_name c with NUser k => Nat.leb 500 k | _ => false end
  | _ => false
  end.

Definition log_eqb (fl : flags) (ambc : bool) (ml0 : list entry) (il : list ientry) : bool :=
  if negb (f_ids fl || f_ctx fl || f_nested fl || f_depth fl) then true else
  let ml := filter (fun e => negb (is_silent_entry e)) ml0 in
  let ml' := if ambc then filter (fun e => negb (is_guard_entry e)) ml else ml in
  let il' := if ambc then filter (fun e => negb (is_guard_ientry e)) il else il in
  blocks_match fl (blocks None [] ml') il'.

Definition olist_eqb := option_eqb (list_eqb Nat.eqb).

Definition obs_eqb (fl : flags) (m : obs) (i : iobs) : bool :=
  out_eqb fl (o_out m) (i_out i)
  && (negb (f_field fl) || onat_eqb (o_field m) (i_field i))
  && (negb (f_allowed fl) || olist_eqb (o_allowed m) (i_allowed i))
  && log_eqb fl (o_ambc m) (o_log m) (i_log i).

Fixpoint all2 {A B} (f : A -> B -> bool) (l1 : list A) (l2 : list B) : bool :=
  match l1, l2 with
  | [], [] => true
  | x :: r, y :: s => f x y && all2 f r s
  | _, _ => false
  end.

Definition case := (scenario * list iobs)%type.

Definition out_of_scope (os : list obs) : bool :=
  existsb (fun o => o_amb o || match o_out o with RFuel => true | _ => false end) os.

Definition verdict_with (fl : flags) (c : case) : nat :=
  let os := run_scenario (fst c) in
  if out_of_scope os then 9
  else if all2 (obs_eqb fl) os (snd c) then 0 else 2.

Definition fl_all := {| f_val := true; f_exn := true; f_field := true; f_allowed := true;
                        f_ids := true; f_ctx := true; f_nested := true; f_depth := true |}.
(* C01: state after each send, outcome class and TransitionNotAllowed payload, allowed_events *)
Definition fl_C01 := {| f_val := false; f_exn := true; f_field := true; f_allowed := true;
                        f_ids := false; f_ctx := false; f_nested := false; f_depth := false |}.
(* C02: order of callback invocations, injected state/source/target/event, current state seen *)
Definition fl_C02 := {| f_val := false; f_exn := false; f_field := false; f_allowed := false;
                        f_ids := true; f_ctx := true; f_nested := false; f_depth := false |}.
(* C03: callback order across events, results of nested and outer sends, depth *)
Definition fl_C03 := {| f_val := true; f_exn := true; f_field := false; f_allowed := false;
                        f_ids := true; f_ctx := false; f_nested := true; f_depth := true |}.
(* C04: escaping exception, state after the failure, callbacks run by the next sends *)
Definition fl_C04 := {| f_val := false; f_exn := true; f_field := true; f_allowed := false;
                        f_ids := true; f_ctx := false; f_nested := false; f_depth := false |}.
(* C11: callback log during construction / activation, model field *)
Definition fl_C11 := {| f_val := false; f_exn := true; f_field := true; f_allowed := false;
                        f_ids := true; f_ctx := true; f_nested := false; f_depth := false |}.
(* C14: the value returned by each call *)
Definition fl_C14 := {| f_val := true; f_exn := false; f_field := false; f_allowed := false;
                        f_ids := false; f_ctx := false; f_nested := false; f_depth := false |}.

(* C13: results / exceptions of each calling style, stored state, allowed_events, callbacks run *)
Definition fl_C13 := {| f_val := true; f_exn := true; f_field := true; f_allowed := true;
                        f_ids := true; f_ctx := false; f_nested := false; f_depth := false |}.
Definition verdict_C13 := verdict_with fl_C13.
(* a direct assertion made by the driver (1 = it held) *)
Definition verdict_C13_any (c : case + nat) : nat :=
  match c with inl k => verdict_C13 k | inr 1 => 0 | inr _ => 2 end.
Definition wfc (k : case) : case + nat := inl k.
Definition asserted (n : nat) : case + nat := inr n.
(* a scenario compared with the model, or a direct assertion made by a probe of the driver (1 = it held) *)
Definition any_of (v : case -> nat) (c : case + nat) : nat :=
  match c with inl k => v k | inr 1 => 0 | inr _ => 2 end.
(* C05: states, callback phases and arguments, results and exceptions of the (a)sync twin *)
Definition fl_C05 := {| f_val := true; f_exn := true; f_field := true; f_allowed := true;
                        f_ids := true; f_ctx := true; f_nested := true; f_depth := false |}.
Definition verdict_C05 := verdict_with fl_C05.
Definition verdict_C05_any (c : case + nat) : nat :=
  match c with inl k => verdict_C05 k | inr 1 => 0 | inr _ => 2 end.
(* C12: per-provider callback logs with their arguments, whether guarded transitions fire *)
Definition fl_C12 := {| f_val := false; f_exn := true; f_field := true; f_allowed := false;
                        f_ids := true; f_ctx := true; f_nested := false; f_depth := false |}.
Definition verdict_C12 := verdict_with fl_C12.
Definition verdict_C12_any (c : case + nat) : nat :=
  match c with inl k => verdict_C12 k | inr 1 => 0 | inr _ => 2 end.
(* C17: the clone's (and the original's) trace on the suffix: everything but depth *)
Definition fl_C17 := {| f_val := true; f_exn := true; f_field := true; f_allowed := true;
                        f_ids := true; f_ctx := true; f_nested := true; f_depth := false |}.
Definition verdict_C17 := verdict_with fl_C17.
Definition verdict_C17_any (c : case + nat) : nat :=
  match c with inl k => verdict_C17 k | inr 1 => 0 | inr _ => 2 end.
(* C16: A's whole trace *)
Definition verdict_C16_any (c : case + nat) : nat :=
  match c with inl k => verdict_with fl_C17 k | inr 1 => 0 | inr _ => 2 end.
Definition verdict_all := verdict_with fl_all.
Definition verdict_C01 := verdict_with fl_C01.
Definition verdict_C02 := verdict_with fl_C02.
Definition verdict_C03 := verdict_with fl_C03.
(* C04 enumerates every crash point, also those where a sibling callback of the same group exists
   (then which siblings ran before the failure is left open): from such an operation on, only the
   escaping exception and the stored state are compared, and later operations not at all *)
Definition fl_C04_weak := {| f_val := false; f_exn := true; f_field := true; f_allowed := false;
                             f_ids := false; f_ctx := false; f_nested := false; f_depth := false |}.
Fixpoint c04_walk (l1 : list obs) (l2 : list iobs) : nat :=
  match l1, l2 with
  | [], [] => 0
  | m :: r, i :: s =>
      match o_out m with
      | RFuel => 9
      | _ => if o_amb m && o_ambc m then 0   (* a raising guard next to other guards: whether it is
                                                 reached at all is left open (short-circuit) *)
             else if o_amb m then (if obs_eqb fl_C04_weak m i then 0 else 2)
             else if obs_eqb fl_C04 m i then c04_walk r s else 2
      end
  | _, _ => 2
  end.
Definition verdict_C04 (c : case) : nat := c04_walk (run_scenario (fst c)) (snd c).
(* C11 additionally checks the model's own outcome against the property: IndexError (popping an empty
   queue) is never what resuming or re-activating may do; 1 = implementation equals the model and
   both break the property there *)
Definition verdict_C11 (c : case) : nat :=
  match verdict_with fl_C11 c with
  | 0 => if existsb (fun o => match o_out o with RExn XIndex => true | _ => false end) (run_scenario (fst c))
         then 1 else 0
  | n => n
  end.
Definition verdict_C14 := verdict_with fl_C14.

(* diagnostics for replay files: per operation, which component differs (out, field, allowed, log) *)
Definition diag_obs (fl : flags) (m : obs) (i : iobs) : list nat :=
  (if out_eqb fl (o_out m) (i_out i) then [] else [1])
  ++ (if negb (f_field fl) || onat_eqb (o_field m) (i_field i) then [] else [2])
  ++ (if negb (f_allowed fl) || olist_eqb (o_allowed m) (i_allowed i) then [] else [3])
  ++ (if log_eqb fl (o_ambc m) (o_log m) (i_log i) then [] else [4]).

Fixpoint diag_list (fl : flags) (k : nat) (l1 : list obs) (l2 : list iobs) : list (nat * list nat * option obs) :=
  match l1, l2 with
  | [], [] => []
  | x :: r, y :: s => match diag_obs fl x y with
                      | [] => diag_list fl (S k) r s
                      | d => [(k, d, Some x)]
                      end
  | x :: _, [] => [(k, [5], Some x)]
  | [], _ :: _ => [(k, [6], None)]
  end.

Definition diag (fl : flags) (c : case) := diag_list fl 0 (run_scenario (fst c)) (snd c).

Definition why9 (c : case) : nat :=
  let os := run_scenario (fst c) in
  if existsb (fun o => match o_out o with RFuel => true | _ => false end) os then 1
  else if existsb o_amb os then 2 else 0.
