(* Evaluated by generated case files: one verdict digit per scenario.
   0 = implementation observable equals the model (and hence, by Properties/C09.v, the Spec)
   2 = differs: the property fails on this input *)
From Coq Require Import List Arith Bool.
Import ListNotations.
From PySM Require Export Impl.Graph.

Definition mkS (i f : bool) : gstate := {| g_initial := i; g_final := f |}.
Definition mkT (s t : nat) (i e : bool) : gtrans :=
  {| g_src := s; g_tgt := t; g_internal := i; g_hasev := e |}.
Definition mkA (t : nat) (i : bool) : gany := {| a_tgt := t; a_internal := i |}.
Definition mkC (ss : list gstate) (ts : list gtrans) (ys : list gany) (strict : bool) : classdef :=
  {| cd_states := ss; cd_trans := ts; cd_any := ys; cd_strict := strict |}.

(* a case: the declaration and what the real class statement did (0 silent, 1 warned, 2 InvalidDefinition,
   3 any other exception) *)
Definition case := (classdef * nat)%type.

Definition verdict (c : case) : nat :=
  let '(cd, impl) := c in
  if Nat.eqb (obs_of (accepts cd)) impl then 0 else 2.

Definition model_obs (c : case) : nat := obs_of (accepts (fst c)).
