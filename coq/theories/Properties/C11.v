(* C11 - Initial activation happens once; a stored state is resumed untouched.  Statements only. *)
From Coq Require Import List Arith Bool.
Import ListNotations.
From PySM Require Import Impl.Engine Proofs.EngineFrame Proofs.EngineProofs.

(* the `__initial__` pseudo-transition has no callbacks but the enter group of the start state *)
Theorem C11_initial_transition_shape :
  forall rm,
    a_validators (initial_atrans rm) = [] /\ a_cond (initial_atrans rm) = [] /\
    a_before (initial_atrans rm) = [] /\ a_exit (initial_atrans rm) = [] /\ a_on (initial_atrans rm) = [] /\
    a_after (initial_atrans rm) = [] /\ a_enter (initial_atrans rm) = state_enter rm (rm_start rm) /\
    a_tgt (initial_atrans rm) = rm_start rm /\ a_src (initial_atrans rm) = None.
Proof. exact initial_atrans_only_enter. Qed.
Print Assumptions C11_initial_transition_shape.

(* activating it = store the start state, then run exactly that enter group (the callbacks see the
   start state as `state` and no source), nothing else; its result never becomes a caller's result *)
Theorem C11_initial_activation :
  forall beh nested rm td c,
    activate beh nested rm (initial_atrans rm) td c =
      (do (c1, _n) <- call_group beh nested rm GEnter
                        (with_state (act_ctx (initial_atrans rm) td c) (Some (rm_start rm)))
                        (state_enter rm (rm_start rm))
                        (set_field (set_nact c (S (nact c))) (Some (rm_start rm)));
       Ok c1 (true, no_res)).
Proof. exact activate_initial. Qed.
Print Assumptions C11_initial_activation.

Theorem C11_initial_never_the_result :
  forall beh nested rm tag c c' r,
    trigger beh nested rm {| td_ev := None; td_tag := tag |} c = Ok c' r -> r = None.
Proof. exact trigger_initial_is_sentinel. Qed.
Print Assumptions C11_initial_never_the_result.

(* sync engine, run-to-completion: constructing over a model that already stores a state runs no
   callback (log and call counters unchanged), leaves the stored value untouched and ends idle *)
Theorem C11_resume_untouched :
  forall beh rm f c s,
    rm_rtc rm = true -> rm_async rm = false -> idle c -> field c = Some s ->
    exists c', construct beh rm (S f) c = Ok c' no_res /\
               field c' = Some s /\ log c' = log c /\ calls c' = calls c /\ idle c'.
Proof. exact construct_resume_noop. Qed.
Print Assumptions C11_resume_untouched.

(* activating again is a no-op *)
Theorem C11_reactivate_noop :
  forall beh rm f c,
    rm_rtc rm = true -> idle c ->
    exists c', run_loop beh rm (S f) c = Ok c' no_res /\
               field c' = field c /\ log c' = log c /\ calls c' = calls c /\ idle c' /\ nact c' = nact c.
Proof. exact run_loop_idle_noop. Qed.
Print Assumptions C11_reactivate_noop.

(* async engine: nothing is processed by the constructor; with no stored state exactly one
   `__initial__` trigger waits at the head of the queue, so it is processed before the first event *)
Theorem C11_async_defers_activation :
  forall beh rm f c,
    rm_async rm = true -> rm_rtc rm = true ->
    construct beh rm f c =
      Ok (match field c with None => enqueue {| td_ev := None; td_tag := 0 |} c | Some _ => c end) no_res.
Proof. exact construct_async. Qed.
Print Assumptions C11_async_defers_activation.

(* rtc=False: re-activation / resume find nothing queued and change nothing (repaired defect D3) *)
Theorem C11_nonrtc_reactivate_noop :
  forall beh rm f c,
    rm_rtc rm = false -> rm_async rm = false -> queue c = [] -> run_loop beh rm f c = Ok c no_res.
Proof. exact run_loop_nonrtc_empty. Qed.
Print Assumptions C11_nonrtc_reactivate_noop.

(* non-vacuity: a fresh model gets the start state stored and the enter callback logged once *)
Definition wE : wrapper :=
  {| w_cbs := [{| cb_prov := 0; cb_name := NEnterState |}]; w_evcond := None; w_expected := None |}.
Definition ex_rm : rmachine :=
  {| rm_states := [ {| rs_enter := [wE]; rs_exit := [] |} ];
     rm_trans := [ {| rt_src := 0; rt_tgt := 0; rt_events := [0]; rt_internal := false; rt_validators := [];
                      rt_cond := []; rt_before := []; rt_on := []; rt_after := [] |} ];
     rm_start := 0; rm_rtc := true; rm_allow := false; rm_async := false |}.
Definition ex_beh : behaviour := fun _ _ => {| acts := []; ret := VNone |}.
Example C11_nonvacuous :
  match construct ex_beh ex_rm 5 (init_cfg None) with
  | Ok c _ => (field c, length (log c))
  | _ => (None, 0)
  end = (Some 0, 1)
  /\ match construct ex_beh ex_rm 5 (init_cfg (Some 0)) with
     | Ok c _ => (field c, length (log c))
     | _ => (None, 9)
     end = (Some 0, 0).
Proof. vm_compute. split; reflexivity. Qed.
