(* C12 - Listeners and the model are first-class callback providers, attached once.  Statements only. *)
From Coq Require Import List Arith Bool.
Import ListNotations.
From PySM Require Import Impl.Engine Impl.Registry Impl.History Impl.Process Proofs.EngineProofs Proofs.RegistryProofs Proofs.ProcessProofs Proofs.RegroupRefuted Proofs.RegistryParity.

(* parity: an action / validator name gets exactly one wrapper per provider of the resolution round
   that has the attribute, with the spec's event filter and expected value - machine, model,
   constructor listeners and late listeners are not distinguished; the callbacks then run in the
   phases and with the arguments of C02 / C07 *)
Theorem C12_one_wrapper_per_provider :
  forall provs g round sp, g <> GCond ->
    resolve_spec provs g round sp =
      map (fun p => mkw sp [{| cb_prov := p; cb_name := sp_name sp |}])
          (filter (fun p => has_attr provs p (sp_name sp)) round).
Proof. exact one_wrapper_per_provider. Qed.
Print Assumptions C12_one_wrapper_per_provider.

(* attachment time does not matter for actions and validators: the wrappers of every group but the
   guard list are exactly one per (callback spec, provider that has the attribute) over all providers
   attached so far, however they were spread over resolution rounds (constructor, add_listener calls) *)
Theorem C12_callbacks_independent_of_attachment_time :
  forall provs t g rounds1 rounds2,
    g <> GCond ->
    (forall p, In p (concat rounds1) <-> In p (concat rounds2)) ->
    forall w, In w (resolve_group provs g (trans_specs t g) rounds1) <->
              In w (resolve_group provs g (trans_specs t g) rounds2).
Proof. exact transition_wrappers_independent_of_rounds. Qed.
Print Assumptions C12_callbacks_independent_of_attachment_time.

Theorem C12_state_callbacks_independent_of_attachment_time :
  forall provs s sd g rounds1 rounds2,
    g <> GCond ->
    (forall p, In p (concat rounds1) <-> In p (concat rounds2)) ->
    forall w, In w (resolve_group provs g (state_specs s sd g) rounds1) <->
              In w (resolve_group provs g (state_specs s sd g) rounds2).
Proof. exact state_wrappers_independent_of_rounds. Qed.
Print Assumptions C12_state_callbacks_independent_of_attachment_time.

(* a guard name provided by several objects is one entry over all of them ... *)
Theorem C12_guard_over_all_providers :
  forall provs round sp,
    resolve_spec provs GCond round sp =
      match filter (fun p => has_attr provs p (sp_name sp)) round with
      | [] => []
      | ps => [mkw sp (map (fun p => {| cb_prov := p; cb_name := sp_name sp |}) ps)]
      end.
Proof. exact guard_over_all_providers. Qed.
Print Assumptions C12_guard_over_all_providers.

(* ... whose value is truthy iff it is truthy on all of them *)
Theorem C12_guard_must_hold_on_all :
  forall beh cbs, truthy (chain_val beh cbs) = forallb (fun cb => truthy (ret (beh cb 0))) cbs.
Proof. exact chain_val_truthy. Qed.
Print Assumptions C12_guard_must_hold_on_all.

(* ... which for an `unless` entry is NOT "the guard holds on all of them" (deviation D25, known finding):
   a machine constructed with a listener on which `blocked` is true fires the transition guarded by
   unless="blocked" (the same listener attached later is a separate entry and blocks it) *)
Theorem C12_unless_over_providers_of_one_round_refuted :
  exists md, md_rounds md = [[0; 1; 2]] /\
             truthy (ret (says {| cb_prov := 2; cb_name := blocked |} 0)) = true /\
             outcome_of md [open_] = [RVal no_res].
Proof. exact unless_over_round_providers_refuted. Qed.
Print Assumptions C12_unless_over_providers_of_one_round_refuted.

(* attaching the same listeners again never duplicates a call: resolving a round twice in a row, or
   again after any number of other attachments, leaves the executor as it was *)
Theorem C12_attach_twice_is_once :
  forall provs g round specs ex,
    resolve_round provs g specs (resolve_round provs g specs ex round) round
    = resolve_round provs g specs ex round.
Proof. exact attach_twice_is_once. Qed.
Print Assumptions C12_attach_twice_is_once.

Theorem C12_reattach_later_is_noop :
  forall provs g specs round others ex,
    resolve_round provs g specs
      (fold_left (resolve_round provs g specs) others (resolve_round provs g specs ex round)) round
    = fold_left (resolve_round provs g specs) others (resolve_round provs g specs ex round).
Proof. exact reattach_later_is_noop. Qed.
Print Assumptions C12_reattach_later_is_noop.

(* non-vacuity: `on_x` (user name 1) on the machine and on two listeners: three wrappers; the same
   name as guard: one wrapper over the three; attaching listener 3 twice adds one wrapper *)
Definition provs3 : list provider := [[NUser 1]; []; [NUser 1]; [NUser 1]].
(* listeners attached to one instance are never invoked by another: in a process of several machine
   objects - each with its own providers - driven in any interleaving, the callback log (and every
   other observation) of object i is its log when driven alone; adding a listener to another object
   (an OAdd addressed to it) is one of "the other objects' operations" *)
Theorem C12_other_instances_listeners_never_invoked :
  forall fuel h p i m, nth_error p i = Some m ->
    own_obs i (snd (prun fuel p h)) = snd (mrun fuel m (own_ops i h)).
Proof. exact process_obs_projection. Qed.
Print Assumptions C12_other_instances_listeners_never_invoked.

Example C12_nonvacuous :
  length (resolve_spec provs3 GOn [0; 1; 2; 3] (inline (NUser 1))) = 3
  /\ map (fun w => length (w_cbs w)) (resolve_spec provs3 GCond [0; 1; 2; 3] (guard (NUser 1, true))) = [3]
  /\ length (resolve_group provs3 GOn [inline (NUser 1)] [[0; 1; 2]; [3]; [3]]) = 3.
Proof. vm_compute. repeat split. Qed.
