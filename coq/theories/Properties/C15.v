(* C15 - Every declaration style of the same machine yields the same machine.  Statements only.
   An abstract machine is the list of its transitions in creation order (source, target, events, the
   other keyword arguments); what the library keeps per state is the sub-list with that source, in
   that order ([per_state]), which with C01/C02 determines allowed events and behaviour.  Each
   rendering is a class body (a list of calls); [eval_body] is what executing it creates. *)
From Coq Require Import List Arith Bool.
Import ListNotations.
From PySM Require Import Impl.Engine Impl.Registry Impl.History Impl.Decl Proofs.DeclProofs Proofs.DeclBehaviour.

Theorem C15_to_style : forall m, eval_body (render_to m) = m.
Proof. exact to_style. Qed.
Print Assumptions C15_to_style.

Theorem C15_from_style : forall m, eval_body (render_from m) = m.
Proof. exact from_style. Qed.
Print Assumptions C15_from_style.

Theorem C15_itself_style : forall m, eval_body (render_itself m) = m.
Proof. exact itself_style. Qed.
Print Assumptions C15_itself_style.

Theorem C15_multi_target_style : forall m, eval_body (render_multi_to m) = m.
Proof. exact multi_to_style. Qed.
Print Assumptions C15_multi_target_style.

Theorem C15_multi_source_style : forall m, eval_body (render_multi_from m) = m.
Proof. exact multi_from_style. Qed.
Print Assumptions C15_multi_source_style.

(* hence any two of these renderings give every state the same ordered list of transitions *)
Theorem C15_styles_agree_per_state :
  forall b1 b2, eval_body b1 = eval_body b2 -> forall s, per_state (eval_body b1) s = per_state (eval_body b2) s.
Proof. exact same_machine_per_state. Qed.
Print Assumptions C15_styles_agree_per_state.

(* events attached by class attributes (`ev = tl_a | tl_b`, Event(tl, ...)): transition j ends up
   bound to exactly the events the abstract machine gives it *)
Theorem C15_attribute_style :
  forall all_events m j t e,
    nth_error m j = Some t -> (forall x, In x (a_events t) -> In x all_events) ->
    (In e (attach (render_attrs all_events m) j) <-> In e (a_events t)).
Proof. exact attribute_style. Qed.
Print Assumptions C15_attribute_style.

(* from_.any() = one explicit transition from every non-final state, written after everything else
   (hypothesis made visible, deviation D14: the expansion comes after all transitions the class body
   created, and covers the states known when the attribute is processed) *)
Theorem C15_any_style :
  forall m nonfinal x e kw,
    expand_any m nonfinal x e kw
    = eval_body (render_to m ++ map (fun s => stmt_to {| a_src := s; a_tgt := x; a_events := [e]; a_kw := kw |}) nonfinal).
Proof. exact any_style. Qed.
Print Assumptions C15_any_style.

(* inheritance from a base class: the base class executes one part of the body, the subclass the rest
   (from the inherited states); for any split and any calling styles the machine is the one of the
   single class whose body is the two parts in sequence - same transitions, same order, per state *)
Theorem C15_base_plus_subclass_style :
  forall b1 b2, eval_body (b1 ++ b2) = eval_body b1 ++ eval_body b2.
Proof. exact base_plus_subclass_style. Qed.
Print Assumptions C15_base_plus_subclass_style.

Theorem C15_base_plus_subclass_per_state :
  forall b1 b2 s,
    per_state (eval_body (b1 ++ b2)) s = per_state (eval_body b1) s ++ per_state (eval_body b2) s.
Proof. exact split_per_state. Qed.
Print Assumptions C15_base_plus_subclass_per_state.


(* ---- "the same behaviour on every event sequence" ---- *)
(* the engine reads a declaration only through the ordered transition list of each source state:
   two class bodies that agree on those lists - in whatever global order the calls created the
   transitions - give the same observations (results, exceptions, stored state, allowed events,
   callback log) on every history of operations, for every meaning of the keyword arguments, every
   set of states, providers and options, every behaviour of the callbacks *)
Theorem C15_per_state_lists_determine_behaviour :
  forall kw md b1 b2,
    (forall s, per_state (eval_body b1) s = per_state (eval_body b2) s) ->
    forall beh fuel ops c,
      run_ops beh (with_trans md (map (to_tdecl kw) (eval_body b1))) fuel ops c =
      run_ops beh (with_trans md (map (to_tdecl kw) (eval_body b2))) fuel ops c.
Proof. exact same_per_state_same_behaviour. Qed.
Print Assumptions C15_per_state_lists_determine_behaviour.

(* a rendering that really changes the global creation order: the body written state by state *)
Theorem C15_regrouped_by_state_keeps_per_state_lists :
  forall m ss, NoDup ss -> (forall t, In t m -> In (Decl.a_src t) ss) ->
  forall s, per_state (regroup m ss) s = per_state m s.
Proof. exact regroup_per_state. Qed.
Print Assumptions C15_regrouped_by_state_keeps_per_state_lists.

Theorem C15_statement_order_across_states_irrelevant :
  forall kw md m ss, NoDup ss -> (forall t, In t m -> In (Decl.a_src t) ss) ->
  forall beh fuel ops c,
    run_ops beh (with_trans md (map (to_tdecl kw) (eval_body (render_to (regroup m ss))))) fuel ops c =
    run_ops beh (with_trans md (map (to_tdecl kw) (eval_body (render_to m)))) fuel ops c.
Proof. exact statement_order_across_states_irrelevant. Qed.
Print Assumptions C15_statement_order_across_states_irrelevant.


Definition ex_m : amachine :=
  [ {| a_src := 0; a_tgt := 1; a_events := [0]; a_kw := 7 |}; {| a_src := 0; a_tgt := 2; a_events := [0]; a_kw := 7 |};
    {| a_src := 1; a_tgt := 1; a_events := [1]; a_kw := 0 |}; {| a_src := 2; a_tgt := 0; a_events := [0; 1]; a_kw := 0 |} ].
Example C15_nonvacuous :
  length (render_multi_to ex_m) = 3 /\ eval_body (render_multi_to ex_m) = eval_body (render_from ex_m)
  /\ per_state (eval_body (render_itself ex_m)) 0 = firstn 2 ex_m.
Proof. vm_compute. repeat split. Qed.

(* the state-by-state body is another creation order, the hypotheses of the theorem hold for it *)
Example C15_regroup_nonvacuous :
  regroup ex_m [2; 0; 1] <> ex_m /\ NoDup [2; 0; 1] /\ (forall t, In t ex_m -> In (Decl.a_src t) [2; 0; 1]).
Proof.
  split; [vm_compute; discriminate|]. split.
  - repeat constructor; simpl; intuition discriminate.
  - intros t Ht. simpl in Ht. destruct Ht as [<-|[<-|[<-|[<-|[]]]]]; simpl; auto.
Qed.
