(* C18 - The generated diagram is a faithful picture of the machine.  Statements only. *)
From Coq Require Import List Arith Bool Permutation.
Import ListNotations.
From PySM Require Import Impl.Diagram Proofs.DiagramProofs Proofs.DiagramCount.

(* exactly one node per state plus the initial pseudo-node, no identifier twice *)
Theorem C18_one_node_per_state :
  forall m cur, map dn_id (graph_nodes m cur) = NInitial :: map NState (seq 0 (nstates m)).
Proof. exact nodes_ids. Qed.
Print Assumptions C18_one_node_per_state.

Theorem C18_node_ids_distinct : forall m cur, NoDup (map dn_id (graph_nodes m cur)).
Proof. exact node_ids_nodup. Qed.
Print Assumptions C18_node_ids_distinct.

(* exactly one edge leaves the initial pseudo-node: the one pointing at the initial state *)
Theorem C18_one_initial_edge :
  forall m, filter (fun e => match de_src e with NInitial => true | _ => false end) (graph_edges m) = [initial_edge m].
Proof. exact one_initial_edge. Qed.
Print Assumptions C18_one_initial_edge.

(* every external transition is drawn as an edge from its source to its target carrying its events
   and guards, and every other edge is such a transition; internal transitions yield no edge *)
Theorem C18_external_transitions_are_edges :
  forall m t, well_formed m -> In t (dm_trans m) -> dt_internal t = false -> In (trans_edge t) (tl (graph_edges m)).
Proof. exact edge_of_external_transition. Qed.
Print Assumptions C18_external_transitions_are_edges.

Theorem C18_edges_are_external_transitions :
  forall m e, In e (tl (graph_edges m)) -> exists t, In t (dm_trans m) /\ dt_internal t = false /\ e = trans_edge t.
Proof. exact every_edge_is_an_external_transition. Qed.
Print Assumptions C18_edges_are_external_transitions.

(* ... with multiplicity: the transition edges are, up to order, exactly the list of external
   transitions - none is dropped and none is drawn twice, however many transitions connect the same
   two states *)
Theorem C18_one_edge_per_external_transition :
  forall m, well_formed m ->
    Permutation (tl (graph_edges m)) (map trans_edge (filter external (dm_trans m))).
Proof. exact edges_exactly_external. Qed.
Print Assumptions C18_one_edge_per_external_transition.

Theorem C18_edge_count :
  forall m, well_formed m -> length (graph_edges m) = S (length (filter external (dm_trans m))).
Proof. exact edge_count. Qed.
Print Assumptions C18_edge_count.

(* internal transitions are listed inside their state *)
Theorem C18_internal_inside_state :
  forall m cur s, dn_internal_lines (state_node m cur s) = map dt_events (filter dt_internal (outs m s)).
Proof. exact internal_listed_in_state. Qed.
Print Assumptions C18_internal_inside_state.

(* a double border exactly on final states *)
Theorem C18_double_border_iff_final :
  forall m cur s, dn_peripheries (state_node m cur s) = 2 <-> nth s (dm_final m) false = true.
Proof. exact double_border_iff_final. Qed.
Print Assumptions C18_double_border_iff_final.

(* for an instance exactly the current state is highlighted; for a class none *)
Theorem C18_exactly_current_highlighted :
  forall m c, c < nstates m -> filter dn_highlighted (graph_nodes m (Some c)) = [state_node m (Some c) c].
Proof. exact exactly_one_highlighted. Qed.
Print Assumptions C18_exactly_current_highlighted.

Theorem C18_class_has_no_highlight :
  forall m n, In n (graph_nodes m None) -> dn_highlighted n = false.
Proof. exact class_has_no_highlight. Qed.
Print Assumptions C18_class_has_no_highlight.

Definition ex_m : dmachine :=
  {| dm_final := [false; true]; dm_initial := 0;
     dm_trans := [ {| dt_src := 0; dt_tgt := 1; dt_events := [0]; dt_internal := false; dt_guards := [(1, false)] |};
                   {| dt_src := 0; dt_tgt := 0; dt_events := [1]; dt_internal := true; dt_guards := [] |} ] |}.
Example C18_nonvacuous :
  length (graph_nodes ex_m (Some 1)) = 3 /\ length (graph_edges ex_m) = 2
  /\ map dn_highlighted (graph_nodes ex_m (Some 1)) = [false; false; true]
  /\ map dn_peripheries (graph_nodes ex_m None) = [1; 1; 2].
Proof. vm_compute. repeat split. Qed.
