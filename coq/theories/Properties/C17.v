(* C17 - deepcopy / pickle clones are equivalent and independent.  Statements only.
   In the model a clone is a new engine (empty queue, free lock, depth 0) started over the copied
   model state, with the registry rebuilt from machine, model and all listeners attached so far; the
   model is functional, so original and clone share nothing by construction - that the Python objects
   share nothing is checked by the correspondence (identity tests, alternating suffixes). *)
From Coq Require Import List Arith Bool.
Import ListNotations.
From PySM Require Import Impl.Engine Impl.Registry Impl.History Impl.Process Proofs.EngineProofs Proofs.CopyProofs Proofs.ProcessProofs Proofs.RegroupRefuted Proofs.RegistryParity.

(* a clone taken at any idle point of a sync machine that has a state IS the original's
   configuration: same stored state, same call history, nothing queued, lock free *)
Theorem C17_clone_keeps_configuration :
  forall beh rm f c s,
    rm_rtc rm = true -> rm_async rm = false -> idle c -> depth c = 0 -> field c = Some s ->
    construct beh rm (S f) (new_engine c) = Ok c no_res.
Proof. exact clone_keeps_configuration. Qed.
Print Assumptions C17_clone_keeps_configuration.

Theorem C17_clone_keeps_configuration_nonrtc :
  forall beh rm f c s,
    rm_rtc rm = false -> rm_async rm = false -> idle c -> depth c = 0 -> field c = Some s ->
    construct beh rm f (new_engine c) = Ok c no_res.
Proof. exact clone_keeps_configuration_nonrtc. Qed.
Print Assumptions C17_clone_keeps_configuration_nonrtc.

(* a machine with async callbacks cloned before its initial activation still activates: exactly one
   `__initial__` trigger waits in the clone's queue *)
Theorem C17_clone_before_activation :
  forall beh rm f c,
    rm_async rm = true -> rm_rtc rm = true -> idle c -> depth c = 0 ->
    construct beh rm f (new_engine c) =
      Ok (match field c with None => enqueue {| td_ev := None; td_tag := 0 |} c | Some _ => c end) no_res.
Proof. exact clone_async_keeps_pending_activation. Qed.
Print Assumptions C17_clone_before_activation.

(* the clone's registry is the original's: __setstate__ replays the registration rounds (the constructor's,
   then one per add_listener call) - whatever they were *)
Theorem C17_clone_registry_is_original :
  forall md, clone_md md = md.
Proof. exact clone_md_id. Qed.
Print Assumptions C17_clone_registry_is_original.

(* ... hence, after any history (any idle configuration [c]), going on with the clone gives exactly
   the observations of going on with the original, for every suffix of operations *)
Theorem C17_clone_responds_like_original :
  forall beh md f c s ops,
    rm_rtc (resolve md) = true -> rm_async (resolve md) = false ->
    idle c -> depth c = 0 -> field c = Some s -> log c = [] -> amb c = false -> ambc c = false ->
    tl (run_ops beh md (S f) (OClone :: ops) c) = run_ops beh md (S f) ops c.
Proof. exact clone_then_suffix_equals_suffix_any_rounds. Qed.
Print Assumptions C17_clone_responds_like_original.

(* whatever rounds the original was resolved in, for every group but the guard list the clone's
   executors hold exactly the wrappers of the original's (listeners attached later included) *)
Theorem C17_clone_has_the_callbacks_of_its_original :
  forall md t g, g <> GCond ->
  forall w, In w (resolve_group (md_providers (clone_md md)) g (trans_specs t g) (md_rounds (clone_md md))) <->
            In w (resolve_group (md_providers md) g (trans_specs t g) (md_rounds md)).
Proof. exact clone_has_the_callbacks_of_its_original. Qed.
Print Assumptions C17_clone_has_the_callbacks_of_its_original.

(* until the repair D30 the theorem above carried the hypothesis "one resolution round" and was refuted without it
   (an `unless` guard name provided by the model and by a listener attached later regrouped on the clone, which
   then fired an event its original refuses - the C17 half of deviation D25); the witness of that refutation now
   behaves: the clone of the door with the late blocking listener refuses the event as its original does *)
Theorem C17_clone_of_the_late_listener_door_refuses_too :
  tl (map o_out (run_ops says (door [[0; 1]; [2]]) 10 [OClone; open_] at_closed))
  = map o_out (run_ops says (door [[0; 1]; [2]]) 10 [open_] at_closed).
Proof. exact clone_of_the_door_refuses_too. Qed.
Print Assumptions C17_clone_of_the_late_listener_door_refuses_too.

(* independence: original and clone are two objects of the process; driving one - any operations, in
   any interleaving with the other's - never changes what the other returns, raises, stores or logs,
   nor the object it ends as *)
Theorem C17_driving_one_never_affects_the_other :
  forall fuel h1 h2 p1 p2 i m,
    nth_error p1 i = Some m -> nth_error p2 i = Some m -> own_ops i h1 = own_ops i h2 ->
    own_obs i (snd (prun fuel p1 h1)) = own_obs i (snd (prun fuel p2 h2))
    /\ nth_error (fst (prun fuel p1 h1)) i = nth_error (fst (prun fuel p2 h2)) i.
Proof. exact process_isolation. Qed.
Print Assumptions C17_driving_one_never_affects_the_other.

Example C17_nonvacuous :
  clone_md {| md_states := []; md_trans := []; md_start := 0; md_rtc := true; md_allow := true;
              md_providers := [[]; []; []; []]; md_coro := []; md_rounds := [[0; 1; 2]; [3]; [3]]; md_erounds := 1 |}
  = {| md_states := []; md_trans := []; md_start := 0; md_rtc := true; md_allow := true;
       md_providers := [[]; []; []; []]; md_coro := []; md_rounds := [[0; 1; 2]; [3]; [3]]; md_erounds := 1 |}.
Proof. vm_compute. reflexivity. Qed.
