(* C14 - Event results come only from before/on return values, by the documented rule.
   Statements only.  An executed transition's result is kept in the model as the pair
   (before results, on results); what Python code receives is [res_val] of it. *)
From Coq Require Import List Arith Bool ZArith.
Import ListNotations.
From PySM Require Import Impl.Engine Proofs.EngineFrame Proofs.EngineProofs Proofs.EngineResults.

Theorem C14_none_when_no_results : res_val no_res = VNone.
Proof. exact res_val_none. Qed.
Print Assumptions C14_none_when_no_results.

Theorem C14_single_value_unwrapped : forall v, res_val ([v], []) = v /\ res_val ([], [v]) = v.
Proof. exact (fun v => conj (res_val_single_before v) (res_val_single_on v)). Qed.
Print Assumptions C14_single_value_unwrapped.

Theorem C14_list_before_first : forall rb ro, 2 <= length (rb ++ ro) -> res_val (rb, ro) = VList (rb ++ ro).
Proof. exact res_val_many. Qed.
Print Assumptions C14_list_before_first.

(* the pair consists of the values of the `before` group and of the `on` group of that transition -
   no other group contributes *)
Theorem C14_only_before_and_on :
  forall beh nested rm t td c c' rb ro,
    activate beh nested rm t td c = Ok c' (true, (rb, ro)) ->
    exists c2 c3 c4 c5,
      call_group beh nested rm GBefore (act_ctx t td c) (a_before t) c2 = Ok c3 rb /\
      call_group beh nested rm GOn (act_ctx t td c) (a_on t) c4 = Ok c5 ro.
Proof. exact activate_result. Qed.
Print Assumptions C14_only_before_and_on.

(* one value per callback admitted for the triggering event - a callback that returns nothing
   contributes an explicit None, callbacks of other events (filtered out) contribute nothing *)
Theorem C14_one_value_per_admitted_callback :
  forall beh nested rm g x ws c c' vs,
    call_group beh nested rm g x ws c = Ok c' vs -> length vs = length (filter (admitted x) ws).
Proof. exact call_group_length. Qed.
Print Assumptions C14_one_value_per_admitted_callback.

(* an event that fires no transition (tolerated) returns None *)
Theorem C14_no_transition_none :
  forall beh nested rm e td cands s c c1,
    Skipped beh nested rm e td cands c c1 -> rm_allow rm = true ->
    exists r, try_candidates beh nested rm cands e s td c = Ok c1 (Some r) /\ res_val r = VNone.
Proof.
  exact (fun beh nested rm e td cands s c c1 H A =>
           ex_intro _ no_res (conj (eq_trans (none_qualifies beh nested rm e td cands s c c1 H)
                                             (f_equal (fun b : bool => if b then Ok c1 (Some no_res) else Exn c1 (XNotAllowed e s)) A))
                                   eq_refl)).
Qed.
Print Assumptions C14_no_transition_none.

(* guards' callers aside, the values returned by validators, exit, enter and after callbacks never
   matter: two behaviours that act alike everywhere and return the same values from every callback
   occurring in a before / on / guard list give, for every send, the same result and the same
   configuration ([fine_machine Sx rm]: no callback of the set Sx, whose return values may differ,
   occurs in such a list) *)
Theorem C14_other_groups_never_contribute :
  forall b1 b2 Sx rm,
    (forall cb n, acts (b1 cb n) = acts (b2 cb n)) ->
    (forall cb n, Sx cb = false -> ret (b1 cb n) = ret (b2 cb n)) ->
    fine_machine Sx rm ->
    forall fuel td c, send_rtc b1 rm fuel td c = send_rtc b2 rm fuel td c.
Proof. exact results_ignore_other_groups. Qed.
Print Assumptions C14_other_groups_never_contribute.

Example C14_nonvacuous :
  res_val ([VNone], [VInt 0%Z]) = VList [VNone; VInt 0%Z] /\ res_val ([], [VInt 0%Z]) = VInt 0%Z
  /\ res_val ([VList []], []) = VList [].
Proof. repeat split. Qed.
