(* C10 - The current state is exactly what the user's model stores.  Statements only. *)
From Coq Require Import List Arith Bool ZArith.
Import ListNotations.
From PySM Require Import Proofs.WritesLocal Impl.Storage Proofs.StorageProofs Impl.Engine Proofs.EngineFrame Proofs.EngineProofs.

(* whatever valid value the model stores - written by the machine or from outside, of any kind of
   value, falsy ones included - current_state is the state with that value and is_active holds for
   exactly that state (state values pairwise different, as dict keys) *)
Theorem C10_reflects_any_valid_value :
  forall m s, distinct_values (sm_values m) = true -> s < length (sm_values m) ->
    current_state m (Some (value_of m s)) = Some s /\
    active_flags m (Some (value_of m s)) = Some (map (fun i => Nat.eqb i s) (seq 0 (length (sm_values m)))).
Proof. exact reflects_store. Qed.
Print Assumptions C10_reflects_any_valid_value.

Theorem C10_exactly_one_active :
  forall m st l, active_flags m st = Some l -> length (filter (fun b : bool => b) l) = 1.
Proof. exact exactly_one_active. Qed.
Print Assumptions C10_exactly_one_active.

(* after every fired transition the field holds the target's value and the target is current *)
Theorem C10_field_is_target :
  forall m st e s tgt,
    distinct_values (sm_values m) = true -> tgt < length (sm_values m) ->
    current_state m st = Some s -> fire m s e = Some tgt ->
    sstep m st (SSend e) = (Some (value_of m tgt), SOk) /\
    current_state m (Some (value_of m tgt)) = Some tgt.
Proof. exact field_is_target. Qed.
Print Assumptions C10_field_is_target.

(* the same fact on the full engine model (with callbacks): a fired transition stores exactly its
   target, whatever the callbacks do (run-to-completion) *)
Theorem C10_engine_stores_target :
  forall beh nested rm, (forall td c, Rres grows c (nested td c)) -> no_writes beh ->
  forall t td c, act_effect t c (activate beh nested rm t td c).
Proof. exact activate_effect. Qed.
Print Assumptions C10_engine_stores_target.

Theorem C10_engine_stores_target_local :
  forall beh nested rm, (forall td c, Rres grows c (nested td c)) ->
  forall t td c, quiet beh (all_cbs t) -> act_effect t c (activate beh nested rm t td c).
Proof. exact activate_effect_local. Qed.
Print Assumptions C10_engine_stores_target_local.

(* an unmapped value through the setter raises InvalidStateValue and nothing is stored *)
Theorem C10_invalid_value_rejected :
  forall m st v, lookup_state m v = None -> sstep m st (SSet v) = (st, SInvalidStateValue).
Proof. exact setter_rejects_unmapped. Qed.
Print Assumptions C10_invalid_value_rejected.

Theorem C10_valid_value_stored_as_is :
  forall m st v s, lookup_state m v = Some s -> sstep m st (SSet v) = (Some v, SOk).
Proof. exact setter_stores_mapped. Qed.
Print Assumptions C10_valid_value_stored_as_is.

Theorem C10_rejection_stores_nothing :
  forall m st o st' r, sstep m st o = (st', r) -> r <> SOk -> st' = st.
Proof. exact nothing_stored_on_rejection. Qed.
Print Assumptions C10_rejection_stores_nothing.

(* start: a stored value is left alone; otherwise start_value (falsy values included) selects the
   start state; otherwise the initial state *)
Theorem C10_stored_value_kept : forall m sv v, sconstruct m sv (Some v) = (Some v, SOk).
Proof. exact construct_keeps_stored. Qed.
Print Assumptions C10_stored_value_kept.

Theorem C10_start_value_selects :
  forall m v s, lookup_state m v = Some s -> sconstruct m (Some v) None = (Some (value_of m s), SOk).
Proof. exact construct_start_value. Qed.
Print Assumptions C10_start_value_selects.

Theorem C10_default_is_initial :
  forall m, sconstruct m None None = (Some (value_of m (sm_initial m)), SOk).
Proof. exact construct_default_initial. Qed.
Print Assumptions C10_default_is_initial.

(* non-vacuity: values 0, "", (1,) and a string; start_value 0 is honoured; writing "" externally
   makes state 1 the only active one *)
Definition ex_m : smach :=
  {| sm_values := [VInt 0; VStr 0; VTuple [VInt 1]; VStr 3]; sm_initial := 3; sm_trans := [(0, 0, 2)] |}.
Example C10_nonvacuous :
  fst (sconstruct ex_m (Some (VInt 0)) None) = Some (VInt 0)
  /\ active_flags ex_m (Some (VStr 0)) = Some [false; true; false; false]
  /\ fst (sstep ex_m (Some (VInt 0)) (SSend 0)) = Some (VTuple [VInt 1]).
Proof. vm_compute. repeat split. Qed.
