(* C08 - Guards: cond/unless conjunction and Python-faithful boolean expressions.  Statements only. *)
From Coq Require Import List Arith Bool ZArith.
Import ListNotations.
From PySM Require Import Impl.Engine Impl.Guards Proofs.EngineProofs Proofs.GuardsProofs Proofs.GuardsValue Proofs.GuardsChain Impl.Replace Proofs.ReplaceProofs.

(* ---- the guard list of a transition is a conjunction, evaluated in order ---- *)
(* [AllHold g x ws c c']: evaluating the entries [ws] in order from [c], every one holds *)
Theorem C08_enabled_iff_every_entry_holds :
  forall beh nested g x ws c c',
    all_list beh nested g x ws c = Ok c' true <-> AllHold beh nested g x ws c c'.
Proof. exact all_list_true_iff. Qed.
Print Assumptions C08_enabled_iff_every_entry_holds.

Theorem C08_disabled_iff_some_entry_fails :
  forall beh nested g x ws c c',
    all_list beh nested g x ws c = Ok c' false ->
    exists pre w post c1 v, ws = pre ++ w :: post /\ AllHold beh nested g x pre c c1 /\
                            run_wrapper beh nested g x w c1 = Ok c' v /\ truthy v = false.
Proof. exact all_list_false_inv. Qed.
Print Assumptions C08_disabled_iff_some_entry_fails.

Theorem C08_first_failing_entry_disables :
  forall beh nested g x pre w post c c1 c2 v,
    AllHold beh nested g x pre c c1 -> run_wrapper beh nested g x w c1 = Ok c2 v -> truthy v = false ->
    all_list beh nested g x (pre ++ w :: post) c = Ok c2 false.
Proof. exact all_list_false_at. Qed.
Print Assumptions C08_first_failing_entry_disables.

(* a `cond` entry holds iff its value is truthy, an `unless` entry iff its value is falsy; the
   comparison is made on bool(value), so any type of value is accepted *)
Theorem C08_entry_expected_value :
  forall beh nested g x w c c' v b,
    run_wrapper beh nested g x w c = Ok c' v -> w_expected w = Some b ->
    exists u, run_chain beh nested g x (w_cbs w) c = Ok c' u /\ v = VBool (Bool.eqb (truthy u) b).
Proof. exact wrapper_expected. Qed.
Print Assumptions C08_entry_expected_value.

Theorem C08_cond_truthy_unless_falsy :
  forall u, truthy (VBool (Bool.eqb (truthy u) true)) = truthy u
            /\ truthy (VBool (Bool.eqb (truthy u) false)) = negb (truthy u).
Proof. exact (fun u => conj (cond_holds_iff u) (unless_holds_iff u)). Qed.
Print Assumptions C08_cond_truthy_unless_falsy.

(* ---- boolean expressions: the closure tree built from the AST evaluates exactly as Python
   evaluates the expression: same value, same TypeError, same sequence of name reads (left to
   right, short-circuit), reading the current values at every evaluation.  For every expression of
   the grammar whose comparisons are not chained, every environment. ---- *)
Theorem C08_build_is_python :
  forall rho e, chain_free e = true -> eval_closure rho (build e) = py_eval rho e.
Proof. exact build_is_python_chain_free. Qed.
Print Assumptions C08_build_is_python.

Theorem C08_guard_expression_is_python :
  forall rho e expected, chain_free e = true ->
    guard_holds rho e expected =
      match fst (py_eval rho e) with
      | EV v => Some (Bool.eqb (truthy v) expected)
      | ETypeError => None
      end.
Proof. exact guard_is_python. Qed.
Print Assumptions C08_guard_expression_is_python.

(* chained comparisons included: for EVERY expression of the grammar and every environment the
   closure tree has Python's value and raises TypeError exactly when Python does (a chain a < b < c
   is built as (a < b) and (b < c): the middle operand is read once per comparison it takes part in,
   so only the read sequence differs, and only for chains) *)
Theorem C08_value_is_python_for_every_expression :
  forall rho e, fst (eval_closure rho (build e)) = fst (py_eval rho e).
Proof. exact build_value_is_python_fst. Qed.
Print Assumptions C08_value_is_python_for_every_expression.

Theorem C08_guard_entry_is_python_for_every_expression :
  forall rho e expected,
    guard_holds rho e expected =
      match fst (py_eval rho e) with
      | EV v => Some (Bool.eqb (truthy v) expected)
      | ETypeError => None
      end.
Proof. exact guard_is_python_all. Qed.
Print Assumptions C08_guard_entry_is_python_for_every_expression.

(* ---- chained comparisons, read sequence included ---- *)
(* for EVERY expression (chains of any length at any depth) the library's closure tree has the
   value, the TypeError and the sequence of name reads that Python has for the expression in which
   every chain  a op1 b op2 c ...  is written as the conjunction of its adjacent pairs
   (a op1 b) and (b op2 c) and ... ; without chains that is the expression itself *)
Theorem C08_chain_is_conjunction_of_adjacent_pairs :
  forall rho e, eval_closure rho (build e) = py_eval rho (desugar e).
Proof. exact build_is_python_of_desugared. Qed.
Print Assumptions C08_chain_is_conjunction_of_adjacent_pairs.

Theorem C08_nothing_rewritten_without_chains :
  forall e, chain_free e = true -> desugar e = e.
Proof. exact desugar_chain_free. Qed.
Print Assumptions C08_nothing_rewritten_without_chains.

Theorem C08_chain_reads_middle_operand_once_per_comparison :
  forall rho a b c op1 op2,
    py_cmp op1 (rho a) (rho b) = Some true ->
    snd (eval_closure rho (build (ECmp (EName a) [(op1, EName b); (op2, EName c)]))) = [a; b; b; c].
Proof. exact chain3_reads. Qed.
Print Assumptions C08_chain_reads_middle_operand_once_per_comparison.

Theorem C08_chain_stops_at_first_false_comparison :
  forall rho a b c op1 op2,
    py_cmp op1 (rho a) (rho b) = Some false ->
    eval_closure rho (build (ECmp (EName a) [(op1, EName b); (op2, EName c)])) = (EV (VBool false), [a; b]).
Proof. exact chain3_reads_short. Qed.
Print Assumptions C08_chain_stops_at_first_false_comparison.


(* ---- the textual layer: replace_operators (! ^ v -> not / and / or), on character codes ---- *)
(* names are never rewritten: any run of at least two word characters - valve, v2, not_v, 10 - is
   copied unchanged, whatever stands before and after it *)
Theorem C08_names_containing_v_untouched :
  forall p w post, forallb is_word w = true -> 2 <= length w ->
    replace_from p (w ++ post) = w ++ replace_from true post.
Proof. exact names_untouched. Qed.
Print Assumptions C08_names_containing_v_untouched.

(* a v standing alone is the disjunction *)
Theorem C08_lone_v_is_or :
  forall post, match post with d :: _ => is_word d = false | [] => True end ->
    replace_from false (vee :: post) = s_or ++ replace_from true post.
Proof. exact lone_v_is_or. Qed.
Print Assumptions C08_lone_v_is_or.

(* whatever the text: the result contains no ^ and no ! other than in != (what Python's parser then
   sees is Python's own spelling) *)
Theorem C08_output_has_only_python_operators :
  forall s p, existsb (Nat.eqb caret) (replace_from p s) = false /\ bangs_ok (replace_from p s) = true.
Proof. exact output_has_only_python_operators. Qed.
Print Assumptions C08_output_has_only_python_operators.

Theorem C08_and_short_circuits :
  forall rho x r v rd, py_eval rho x = (EV v, rd) -> truthy v = false -> py_eval rho (EAnd x r) = (EV v, rd).
Proof. exact and_short_circuit. Qed.
Print Assumptions C08_and_short_circuits.

Theorem C08_or_short_circuits :
  forall rho x r v rd, py_eval rho x = (EV v, rd) -> truthy v = true -> py_eval rho (EOr x r) = (EV v, rd).
Proof. exact or_short_circuit. Qed.
Print Assumptions C08_or_short_circuits.

(* non-vacuity: `a or b and c` with a=True, c=False is truthy and reads only a (precedence and
   short-circuit); a chained comparison 1 < x < 3 built by the library reads x twice *)
Definition rho0 : env := fun n => match n with 0 => VBool true | 1 => VBool true | 2 => VBool false | _ => VInt 2 end.
Example C08_nonvacuous :
  eval_closure rho0 (build (EOr (EName 0) [EAnd (EName 1) [EName 2]])) = (EV (VBool true), [0])
  /\ eval_closure rho0 (build (ECmp (EConst (VInt 1)) [(CLt, EName 3); (CLt, EConst (VInt 3))]))
     = (EV (VBool true), [3; 3])
  /\ py_eval rho0 (ECmp (EConst (VInt 1)) [(CLt, EName 3); (CLt, EConst (VInt 3))]) = (EV (VBool true), [3]).
Proof. vm_compute. repeat split. Qed.
