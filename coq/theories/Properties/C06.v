(* C06 - Concurrent senders: mutual exclusion, exactly-once, nothing stranded.  Statements only.
   [run g sched (init plan)] is the protocol of Event.__call__ / processing_loop executed by any
   number of senders (sender t sends the events (t,0) .. (t, plan t - 1)) under the schedule [sched]
   (any list of thread ids, any length); g = Line for OS threads (any thread may run between two
   steps), g = Await for asyncio tasks (no suspension point between the emptiness test and the
   release).  All statements hold for every plan and every schedule, by induction over the schedule. *)
From Coq Require Import List Arith Bool.
Import ListNotations.
From PySM Require Import Impl.Conc Impl.ConcNested Proofs.ConcProofs Proofs.ConcNestedProofs Impl.ConcFail Proofs.ConcFailProofs Proofs.ConcFailOrder.

(* the callback sequences of different events never overlap: the log is a sequence of complete
   Begin/End blocks, plus at most one block still open *)
Theorem C06_mutual_exclusion :
  forall g plan sched,
    let w := run g sched (init plan) in
    closed (w_log w) \/ exists e t, opened (w_log w) e t.
Proof. exact mutual_exclusion. Qed.
Print Assumptions C06_mutual_exclusion.

(* each sender's events are processed in the order it sent them: what was begun for sender t, then
   what is queued of t, then what t has still to send, is exactly t's plan - nothing lost, nothing
   invented, nothing reordered *)
Theorem C06_sender_order :
  forall g plan sched t,
    let w := run g sched (init plan) in
    of_sender t (begun (w_log w)) ++ of_sender t (w_queue w) ++ t_todo (w_threads w t) = sends t (plan t).
Proof. exact sender_order. Qed.
Print Assumptions C06_sender_order.

(* no event is processed twice *)
Theorem C06_at_most_once :
  forall g plan sched t, NoDup (of_sender t (begun (w_log (run g sched (init plan))))).
Proof. exact processed_at_most_once. Qed.
Print Assumptions C06_at_most_once.

(* once all senders have returned no event is left unprocessed - for OS threads (where any thread
   may run between the drainer's emptiness test and its release: the drainer looks at the queue once
   more after releasing) and for asyncio tasks alike ... *)
Theorem C06_nothing_stranded :
  forall g plan sched,
    let w := run g sched (init plan) in
    (forall t, finished w t = true) -> w_queue w = [].
Proof. exact nothing_stranded. Qed.
Print Assumptions C06_nothing_stranded.

(* ... and every sent event has been processed exactly once, in each sender's order *)
Theorem C06_all_processed :
  forall g plan sched t,
    let w := run g sched (init plan) in
    (forall t, finished w t = true) -> of_sender t (begun (w_log w)) = sends t (plan t).
Proof. exact all_processed. Qed.
Print Assumptions C06_all_processed.

(* the schedule that stranded an event on the pinned tree (repaired defect D12) now processes it *)
Theorem C06_race_schedule_processed :
  let w := run Line race_schedule (init (fun _ => 1)) in
  finished w 0 = true /\ finished w 1 = true /\ w_queue w = [] /\ begun (w_log w) = [(0, 0); (1, 0)].
Proof. exact race_schedule_no_longer_strands. Qed.
Print Assumptions C06_race_schedule_processed.

(* ---- callbacks that themselves send events (nested sends), Impl/ConcNested.v ----
   [children e] are the events the callbacks of e send while they run; every such send finds the lock
   taken by the thread running the callback and only enqueues.  For every family of nested sends,
   every plan and every schedule, both granularities: *)
Theorem C06_nested_mutual_exclusion :
  forall children g plan sched,
    let w := nrun children g sched (ninit plan) in
    closed (nw_log w) \/ exists e t, opened (nw_log w) e t.
Proof. exact nested_mutual_exclusion. Qed.
Print Assumptions C06_nested_mutual_exclusion.

(* what was begun, followed by what is queued, is exactly what was put, in put order - whoever put
   it: events are processed in the order they were sent, none lost, none invented *)
Theorem C06_nested_fifo :
  forall children g plan sched,
    let w := nrun children g sched (ninit plan) in begun (nw_log w) ++ nw_queue w = nw_puts w.
Proof. exact nested_fifo. Qed.
Print Assumptions C06_nested_fifo.

Theorem C06_nested_at_most_once :
  forall children g plan sched,
    let w := nrun children g sched (ninit plan) in NoDup (nw_puts w) -> NoDup (begun (nw_log w)).
Proof. exact nested_at_most_once. Qed.
Print Assumptions C06_nested_at_most_once.

Theorem C06_nested_nothing_stranded :
  forall children g plan sched,
    let w := nrun children g sched (ninit plan) in
    (forall t, nfinished w t) -> nw_queue w = [] /\ begun (nw_log w) = nw_puts w.
Proof. exact nested_nothing_stranded. Qed.
Print Assumptions C06_nested_nothing_stranded.

(* ---- callbacks that FAIL while other threads send (C04 meets C06) ---- *)
(* the drainer clears the queue, releases the lock, looks at the queue once more (fix 894918f) and
   re-raises: for every plan, every set of failing events and every schedule, once every sender has
   returned nothing is left in the queue and the lock is free *)
Theorem C06_nothing_stranded_when_callbacks_fail :
  forall fails plan sched,
    let w := frun fails true sched (finit plan) in
    (forall t, ffinished w t) -> fw_queue w = [].
Proof. exact nothing_stranded_with_failures. Qed.
Print Assumptions C06_nothing_stranded_when_callbacks_fail.

Theorem C06_lock_free_when_all_returned_with_failures :
  forall fails plan sched,
    let w := frun fails true sched (finit plan) in
    (forall t, ffinished w t) -> fw_holder w = None.
Proof. exact lock_free_when_all_returned. Qed.
Print Assumptions C06_lock_free_when_all_returned_with_failures.

Theorem C06_mutual_exclusion_with_failures :
  forall fails plan sched,
    let w := frun fails true sched (finit plan) in
    ConcProofs.closed (fw_log w) \/ exists e t, ConcProofs.opened (fw_log w) e t.
Proof. exact mutual_exclusion_with_failures. Qed.
Print Assumptions C06_mutual_exclusion_with_failures.

(* per sender, with failing callbacks: the events begun, in the order they were begun, are a subsequence of the
   sender's plan (some may have been dropped when a callback failed and the queue was cleared - C04 - but none is
   invented or reordered), and begun ++ queued ++ still-to-send never holds an event twice.  For every failing
   set, plan and schedule, before and after fix 894918f ([fixed]) *)
Theorem C06_sender_order_with_failures :
  forall fails fixed plan sched t,
    subseq (ConcProofs.of_sender t (begun (fw_log (frun fails fixed sched (finit plan))))) (sends t (plan t)).
Proof. exact sender_order_with_failures. Qed.
Print Assumptions C06_sender_order_with_failures.

Theorem C06_at_most_once_with_failures :
  forall fails fixed plan sched t,
    let w := frun fails fixed sched (finit plan) in
    NoDup (ConcProofs.of_sender t (begun (fw_log w)) ++ ConcProofs.of_sender t (fw_queue w)
           ++ f_todo (fw_threads w t)).
Proof. exact processed_at_most_once_with_failures. Qed.
Print Assumptions C06_at_most_once_with_failures.

(* without that second look on the failure path (the code before the fix) the statement is false: the
   schedule below - reproduced on the real engine by the scheduler, deviation D26 - strands (1, 0) *)
Theorem C06_stranded_without_recheck_on_failure_refuted :
  let w := frun d26_fails false d26_sched (finit d26_plan) in
  (forall t, ffinished w t) /\ fw_queue w = [(1, 0)].
Proof. exact stranded_without_the_recheck_refuted. Qed.
Print Assumptions C06_stranded_without_recheck_on_failure_refuted.

Example C06_nonvacuous :
  let w := run Line [0; 1; 0; 1; 0; 0; 0; 0; 0; 0; 0; 0] (init (fun _ => 1)) in
  begun (w_log w) = [(0, 0); (1, 0)] /\ w_queue w = [] /\ w_holder w = None.
Proof. vm_compute. repeat split. Qed.

(* non-vacuity with a failure: sender 0's callbacks fail while (1, 0) is queued - it is dropped; (1, 1), put
   afterwards, is processed: begun = [(0,0); (1,1)], a subsequence of the plans that is not a prefix of sender 1's *)
Example C06_nonvacuous_failure :
  let w := frun (fun e => Nat.eqb (fst e) 0) true [0; 0; 0; 1; 1; 0; 0; 0; 1; 1; 1; 1; 1; 1; 1]
                (finit (fun t => if Nat.eqb t 0 then 1 else 2)) in
  begun (fw_log w) = [(0, 0); (1, 1)] /\ fw_queue w = [] /\ fw_holder w = None.
Proof. vm_compute. repeat split. Qed.
