(* C05 - Async callbacks behave exactly like their synchronous counterparts.  Statements only.
   The model has ONE activation sequence, candidate loop and drain loop ([activate],
   [try_candidates], [drain]) used by both engines - every theorem of C01-C04, C11, C14 is stated
   for an arbitrary machine, [rm_async] included; the async engine differs in exactly three places
   (all guards of a list are evaluated, the constructor defers activation, rtc=False is refused),
   which are the subject of the statements below.  That the real AsyncEngine follows this model is
   what the twin correspondence checks. *)
From Coq Require Import List Arith Bool.
Import ListNotations.
From PySM Require Import Impl.Engine Proofs.EngineFrame Proofs.EngineProofs Proofs.EngineLog Proofs.AsyncStart.

(* guards that are pure and independent of how often they are asked: the sync executor (which stops
   at the first failing entry) and the async executor (which starts every guard coroutine and
   awaits them) reach the same verdict, the conjunction of the entries *)
Theorem C05_guard_verdicts_agree :
  forall beh nested g x ws c, all_pure beh ws ->
    exists c1 c2 b, all_list beh nested g x ws c = Ok c1 b /\ all_list_async beh nested g x ws c = Ok c2 b /\
                    b = forallb (fun w => truthy (wrapper_val beh w)) ws.
Proof. exact sync_and_async_guards_agree. Qed.
Print Assumptions C05_guard_verdicts_agree.

(* every callback of a group has run to completion when the group returns: one result per admitted
   callback (asyncio.gather awaited) - the next phase starts from the configuration this one ended in
   (C02_group_order) *)
Theorem C05_phase_completes_before_next :
  forall beh nested rm g x ws c c' vs,
    call_group beh nested rm g x ws c = Ok c' vs -> length vs = length (filter (admitted x) ws).
Proof. exact call_group_length. Qed.
Print Assumptions C05_phase_completes_before_next.

(* the initial state is activated before the first event is handled: the async constructor leaves
   exactly the `__initial__` trigger at the head of the queue (when no state is stored) ... *)
Theorem C05_activation_deferred_not_lost :
  forall beh rm f c, rm_async rm = true -> rm_rtc rm = true ->
    construct beh rm f c =
      Ok (match field c with None => enqueue {| td_ev := None; td_tag := 0 |} c | Some _ => c end) no_res.
Proof. exact construct_async. Qed.
Print Assumptions C05_activation_deferred_not_lost.

(* ... so the first event sent afterwards (through the documented engine, C03_engine_refines_flat)
   processes the activation first and the event itself second, each to completion, before anything
   their callbacks send *)
Theorem C05_first_event_runs_after_activation :
  forall beh rm fuel td c c' v,
    queue c = [] -> locked c = false ->
    send_flat beh rm fuel td (enqueue init_td c) = Ok c' v ->
    exists later,
      Drained beh rm (set_locked (enqueue td (enqueue init_td c)) true) (init_td :: td :: later) c'.
Proof. exact first_event_after_deferred_activation. Qed.
Print Assumptions C05_first_event_runs_after_activation.

(* ... and whatever is processed, the loop ends idle on both engines *)
Theorem C05_loop_ends_idle :
  forall beh nested rm fuel c first,
    match drain beh nested rm fuel c first with Ok c' _ | Exn c' _ => idle c' | Fuel => True end.
Proof. exact drain_idle. Qed.
Print Assumptions C05_loop_ends_idle.

(* non-vacuity: two guards, the first falsy: both executors say no; the async one asked both *)
Definition gw (k : nat) : wrapper :=
  {| w_cbs := [{| cb_prov := 0; cb_name := NUser k |}]; w_evcond := None; w_expected := Some true |}.
Definition gbeh : behaviour := fun cb _ => {| acts := []; ret := VBool (match cb_name cb with NUser 1 => false | _ => true end) |}.
Definition gx : ctx := {| x_act := 0; x_ev := Some 0; x_src := Some 0; x_tgt := 0; x_state := Some 0; x_tag := 0 |}.
Example C05_nonvacuous :
  (match all_list gbeh flat_nested GCond gx [gw 1; gw 2] (init_cfg (Some 0)) with Ok c b => (b, length (log c)) | _ => (true, 9) end) = (false, 1)
  /\ (match all_list_async gbeh flat_nested GCond gx [gw 1; gw 2] (init_cfg (Some 0)) with Ok c b => (b, length (log c)) | _ => (true, 9) end) = (false, 2).
Proof. vm_compute. split; reflexivity. Qed.
