(* C02 - Callback groups run in the documented order with the documented view of state.
   Statements only. *)
From Coq Require Import List Arith Bool.
Import ListNotations.
From PySM Require Import Impl.Engine Proofs.EngineFrame Proofs.EngineProofs Proofs.EngineLog Proofs.WritesLocal.

(* every executed transition is exactly this chain of group executions, each starting in the
   configuration where the previous one ended: validators, conditions (all hold), before,
   exit(source) unless internal, on, the single assignment of the state, enter(target) unless
   internal, after.  The first five groups are called with `state` = source ([act_ctx]), the last two
   with `state` = target ([with_state .. (Some target)]); internal transitions run neither exit nor
   enter.  For every machine, behaviour, engine wiring, trigger and configuration. *)
Theorem C02_group_order :
  forall beh nested rm t td c c' rb ro,
    activate beh nested rm t td c = Ok c' (true, (rb, ro)) ->
    let x := act_ctx t td c in
    let x' := with_state x (Some (a_tgt t)) in
    exists c1 c2 c3 c4 c5 c6 v1 v7,
      call_group beh nested rm GValidators x (a_validators t) (set_nact c (S (nact c))) = Ok c1 v1 /\
      all_group beh nested rm GCond x (a_cond t) c1 = Ok c2 true /\
      call_group beh nested rm GBefore x (a_before t) c2 = Ok c3 rb /\
      (if a_internal t then c4 = c3 else exists v, call_group beh nested rm GExit x (a_exit t) c3 = Ok c4 v) /\
      call_group beh nested rm GOn x (a_on t) c4 = Ok c5 ro /\
      (if a_internal t then c6 = set_field c5 (Some (a_tgt t))
       else exists v, call_group beh nested rm GEnter x' (a_enter t) (set_field c5 (Some (a_tgt t))) = Ok c6 v) /\
      call_group beh nested rm GAfter x' (a_after t) c6 = Ok c' v7.
Proof. exact activate_sequence. Qed.
Print Assumptions C02_group_order.

(* while the first five groups run the stored state is untouched (callbacks read the source as
   current state); after the assignment it is the target (run-to-completion; [no_writes]: no callback
   assigns the state itself through the low-level API `current_state_value = ...`) *)
Theorem C02_state_seen_before_assignment :
  forall beh nested rm, (forall td c, Rres grows c (nested td c)) -> no_writes beh ->
  forall t x c, Rres grows c (activate_pre beh nested rm t x c).
Proof. exact activate_pre_grows. Qed.
Print Assumptions C02_state_seen_before_assignment.

Theorem C02_state_seen_after_assignment :
  forall beh nested rm, (forall td c, Rres grows c (nested td c)) -> no_writes beh ->
  forall t x c, Rres grows (set_field c (Some (a_tgt t))) (activate_post beh nested rm t x c).
Proof. exact activate_post_grows. Qed.
Print Assumptions C02_state_seen_after_assignment.

(* with callbacks that do assign the state themselves ([AWrite], any behaviour): the engine's own
   assignment after `on` is unconditional, so the second half - enter(target) and after, or after alone
   for an internal transition - starts with the target stored, whatever the first half left there *)
Theorem C02_assignment_overrides_what_callbacks_stored :
  forall beh nested rm t x c f,
    activate_post beh nested rm t x (set_field c f) = activate_post beh nested rm t x c.
Proof. exact activate_post_overrides. Qed.
Print Assumptions C02_assignment_overrides_what_callbacks_stored.

Theorem C02_second_half_starts_from_target :
  forall beh nested rm t x c,
    activate_post beh nested rm t x c =
      (let c0 := set_field c (Some (a_tgt t)) in
       let x0 := with_state x (Some (a_tgt t)) in
       do (c1, _n) <- (if a_internal t then Ok c0 [] else call_group beh nested rm GEnter x0 (a_enter t) c0);
       do (c2, _a) <- call_group beh nested rm GAfter x0 (a_after t) c1; Ok c2 tt).
Proof. exact activate_post_starts_from_target. Qed.
Print Assumptions C02_second_half_starts_from_target.

(* hence: when the enter(target) / after callbacks of the transition do not assign the state themselves
   ([quiet], nothing assumed about any other callback - validators, guards, before, exit and on callbacks may
   store whatever they like), every one of them is called with the target stored, and the transition ends with
   the target stored (run-to-completion) *)
Theorem C02_second_half_sees_target_whatever_was_stored :
  forall beh rm t, quiet beh (second_half_cbs t) ->
  forall x c, Rres (sees (depth c) (Some (a_tgt t))) (set_field c (Some (a_tgt t)))
                   (activate_post beh flat_nested rm t x c).
Proof. exact second_half_sees_target. Qed.
Print Assumptions C02_second_half_sees_target_whatever_was_stored.

Theorem C02_transition_ends_in_target_whatever_was_stored :
  forall beh rm t, quiet beh (second_half_cbs t) ->
  forall x c c' u, activate_post beh flat_nested rm t x c = Ok c' u ->
    field c' = Some (a_tgt t) /\
    exists l, log c' = l ++ log c /\ Forall (entry_sees (depth c) (Some (a_tgt t))) l.
Proof. exact second_half_ends_in_target. Qed.
Print Assumptions C02_transition_ends_in_target_whatever_was_stored.

(* and the first half: when the validators, guards, before, exit(source) and on callbacks of the transition do
   not assign the state themselves - whatever the callbacks of other transitions and states do - each of them is
   called with the state stored when the half began (the source), which is still stored when `on` has ended *)
Theorem C02_first_half_sees_source_whatever_others_do :
  forall beh rm t, quiet beh (first_half_cbs t) ->
  forall d f x c, Rres (sees d f) c (activate_pre beh flat_nested rm t x c).
Proof. exact first_half_sees_source. Qed.
Print Assumptions C02_first_half_sees_source_whatever_others_do.

(* a rejected candidate runs its validators and conditions only - none of its actions *)
Theorem C02_rejected_runs_no_actions :
  forall beh nested rm t td c c' v,
    activate beh nested rm t td c = Ok c' (false, v) ->
    exists c1 v1,
      call_group beh nested rm GValidators (act_ctx t td c) (a_validators t) (set_nact c (S (nact c))) = Ok c1 v1 /\
      all_group beh nested rm GCond (act_ctx t td c) (a_cond t) c1 = Ok c' false.
Proof. exact activate_rejected. Qed.
Print Assumptions C02_rejected_runs_no_actions.

(* event-named callbacks run only for the triggering event *)
Theorem C02_event_scoped :
  forall x w, admitted x w = true <-> (w_evcond w = None \/ exists e, w_evcond w = Some e /\ x_ev x = Some e).
Proof. exact admitted_iff. Qed.
Print Assumptions C02_event_scoped.

Theorem C02_other_event_callbacks_skipped :
  forall beh nested rm g x w ws c, admitted x w = false ->
    call_group beh nested rm g x (w :: ws) c = call_group beh nested rm g x ws c.
Proof. exact call_group_skips_other_event. Qed.
Print Assumptions C02_other_event_callbacks_skipped.

(* every admitted callback of a group is run: one result per admitted callback *)
Theorem C02_each_admitted_callback_runs :
  forall beh nested rm g x ws c c' vs,
    call_group beh nested rm g x ws c = Ok c' vs -> length vs = length (filter (admitted x) ws).
Proof. exact call_group_length. Qed.
Print Assumptions C02_each_admitted_callback_runs.

(* exactly once: a group execution that completes has logged one invocation per admitted callback,
   in executor order, and no other invocation (run-to-completion; action / validator groups, whose
   wrappers hold one callback each) *)
Theorem C02_each_admitted_callback_exactly_once :
  forall beh rm g x ws c c' vs,
    (forall w, In w ws -> single w) ->
    call_group beh flat_nested rm g x ws c = Ok c' vs ->
    exists l, log c' = rev l ++ log c /\
              called l = map (fun cb => (g, cb)) (flat_map w_cbs (filter (admitted x) ws)).
Proof. exact call_group_calls_each_admitted_once. Qed.
Print Assumptions C02_each_admitted_callback_exactly_once.

(* what callbacks observe: every callback of the first half is logged with the stored state and engine
   depth the half started with (the source), every callback of the second half with the target *)
Theorem C02_callbacks_of_first_half_see_source :
  forall beh rm d f, no_writes beh -> forall t x c, Rres (sees d f) c (activate_pre beh flat_nested rm t x c).
Proof. exact sees_activate_pre. Qed.
Print Assumptions C02_callbacks_of_first_half_see_source.

Theorem C02_callbacks_of_second_half_see_target :
  forall beh rm d f, no_writes beh -> forall t x c,
    Rres (sees d f) c
      (do (c1, _n) <- (if a_internal t then Ok c [] else call_group beh flat_nested rm GEnter x (a_enter t) c);
       do (c2, _a) <- call_group beh flat_nested rm GAfter x (a_after t) c1; Ok c2 tt).
Proof. exact sees_activate_post_body. Qed.
Print Assumptions C02_callbacks_of_second_half_see_target.

(* initial activation: only the enter group of the start state, under the `__initial__` trigger *)
Theorem C02_initial_activation :
  forall beh nested rm td c,
    activate beh nested rm (initial_atrans rm) td c =
      (do (c1, _n) <- call_group beh nested rm GEnter
                        (with_state (act_ctx (initial_atrans rm) td c) (Some (rm_start rm)))
                        (state_enter rm (rm_start rm))
                        (set_field (set_nact c (S (nact c))) (Some (rm_start rm)));
       Ok c1 (true, no_res)).
Proof. exact activate_initial. Qed.
Print Assumptions C02_initial_activation.

(* non-vacuity: a transition with one callback in each of before / exit / on / enter / after logs
   them in that order, the first three seeing state 0 and the last two state 1 *)
Definition w (k : nat) : wrapper :=
  {| w_cbs := [{| cb_prov := 0; cb_name := NUser k |}]; w_evcond := None; w_expected := None |}.
Definition ex_rm : rmachine :=
  {| rm_states := [ {| rs_enter := []; rs_exit := [w 2] |}; {| rs_enter := [w 4]; rs_exit := [] |} ];
     rm_trans := [ {| rt_src := 0; rt_tgt := 1; rt_events := [0]; rt_internal := false; rt_validators := [];
                      rt_cond := []; rt_before := [w 1]; rt_on := [w 3]; rt_after := [w 5] |} ];
     rm_start := 0; rm_rtc := true; rm_allow := false; rm_async := false |}.
Definition ex_beh : behaviour := fun _ _ => {| acts := []; ret := VNone |}.
Definition seen (r : res pyres) : list (nat * option nat) :=
  match r with
  | Ok c _ => flat_map (fun e => match e with
                                 | ECall _ _ cb _ _ _ _ csv _ _ =>
                                     [(match cb_name cb with NUser k => k | _ => 0 end, csv)]
                                 | _ => [] end) (rev (log c))
  | _ => []
  end.
Example C02_nonvacuous :
  seen (send ex_beh ex_rm 5 {| td_ev := Some 0; td_tag := 0 |} (init_cfg (Some 0)))
  = [(1, Some 0); (2, Some 0); (3, Some 0); (4, Some 1); (5, Some 1)].
Proof. vm_compute. reflexivity. Qed.

(* non-vacuity with a writing callback: an internal transition 0 -> 0 whose `on` callback stores state 1
   through the low-level API; the `after` callback still sees the target 0 and the machine ends in 0 *)
Definition wr_rm : rmachine :=
  {| rm_states := [ {| rs_enter := []; rs_exit := [] |}; {| rs_enter := []; rs_exit := [] |} ];
     rm_trans := [ {| rt_src := 0; rt_tgt := 0; rt_events := [0]; rt_internal := true; rt_validators := [];
                      rt_cond := []; rt_before := []; rt_on := [w 3]; rt_after := [w 5] |} ];
     rm_start := 0; rm_rtc := true; rm_allow := false; rm_async := false |}.
Definition wr_beh : behaviour := fun cb _ =>
  match cb_name cb with
  | NUser 3 => {| acts := [AWrite 1]; ret := VNone |}
  | _ => {| acts := []; ret := VNone |}
  end.
Definition final_field (r : res pyres) : option nat := match r with Ok c _ => field c | _ => None end.
Example C02_nonvacuous_write :
  let r := send wr_beh wr_rm 5 {| td_ev := Some 0; td_tag := 0 |} (init_cfg (Some 0)) in
  seen r = [(3, Some 0); (5, Some 0)] /\ final_field r = Some 0.
Proof. vm_compute. split; reflexivity. Qed.
Example C02_nonvacuous_write_quiet :
  forall t, In t (rm_trans wr_rm) -> quiet wr_beh (second_half_cbs (atrans_of wr_rm t)).
Proof. intros t [<-|[]] cb n [<-|[]]. reflexivity. Qed.
