(* C09 — Class-definition validation accepts exactly the well-formed machines.
   This file holds statements only; every proof is `exact <lemma from Proofs/>`. *)
From Coq Require Import List Arith Bool.
Import ListNotations.
From PySM Require Import Impl.Graph Spec.GraphSpec Proofs.GraphProofs.

(* the breadth-first visit of graph.py computes exactly graph reachability, for every edge list
   (any size, cycles, self-loops, duplicates) ... *)
Theorem C09_visit_correct :
  forall (es : list gtrans) (a b : nat), In b (visit es a) <-> R es a b.
Proof. exact visit_spec. Qed.
Print Assumptions C09_visit_correct.

(* ... never yields a state twice ... *)
Theorem C09_visit_nodup : forall (es : list gtrans) (a : nat), NoDup (visit es a).
Proof. exact visit_nodup. Qed.
Print Assumptions C09_visit_nodup.

(* ... and the fuel of the model's loop is never exhausted (so the fuel never shows) *)
Theorem C09_visit_fuel :
  forall (es : list gtrans) (a : nat), exists l, visit_loop es (visit_fuel es) [a] [] = Some l.
Proof. exact visit_fuel_enough. Qed.
Print Assumptions C09_visit_fuel.

(* the class statement succeeds iff the declaration is WellFormed (>= 1 state, >= 1 event, exactly
   one initial state, no transition out of a final state, internal => self transition, every state
   reachable from the initial one) and, under strict_states, has no trap state and no non-final
   state without a path to a final state *)
Theorem C09_accepts_iff :
  forall cd, idx_ok cd -> 0 < nstates cd ->
    ((exists w, accepts cd = Accepted w) <-> WellFormed cd /\ StrictOk cd).
Proof. exact accepts_iff. Qed.
Print Assumptions C09_accepts_iff.

(* otherwise the class statement raises InvalidDefinition *)
Theorem C09_rejects_otherwise :
  forall cd, idx_ok cd -> 0 < nstates cd -> ~ (WellFormed cd /\ StrictOk cd) ->
    exists k, accepts cd = Rejected k.
Proof. exact rejects_otherwise. Qed.
Print Assumptions C09_rejects_otherwise.

(* an accepted class emits a warning iff it has a trap state or (final states exist and) a
   non-final state without a path to a final state *)
Theorem C09_warning :
  forall cd w, accepts cd = Accepted w ->
    (w = true <-> (exists s, Trap cd s) \/ (exists s, NoPathToFinal cd s)).
Proof. exact accepts_warning. Qed.
Print Assumptions C09_warning.

(* non-vacuity: a 3-state machine with a cycle, a final state and a from_.any() is accepted
   silently; dropping its only path to the final state makes it warn; strict rejects that *)
Definition ex_states :=
  [ {| g_initial := true; g_final := false |}; {| g_initial := false; g_final := false |};
    {| g_initial := false; g_final := true |} ].
Definition ex_ok := {| cd_states := ex_states;
  cd_trans := [ {| g_src := 0; g_tgt := 1; g_internal := false; g_hasev := true |};
                {| g_src := 1; g_tgt := 0; g_internal := false; g_hasev := true |};
                {| g_src := 1; g_tgt := 1; g_internal := true; g_hasev := true |} ];
  cd_any := [ {| a_tgt := 2; a_internal := false |} ]; cd_strict := true |}.
Definition ex_warn (strict : bool) := {| cd_states := ex_states;
  cd_trans := [ {| g_src := 0; g_tgt := 1; g_internal := false; g_hasev := true |};
                {| g_src := 0; g_tgt := 2; g_internal := false; g_hasev := true |};
                {| g_src := 1; g_tgt := 1; g_internal := false; g_hasev := true |} ];
  cd_any := []; cd_strict := strict |}.
Example C09_nonvacuous :
  accepts ex_ok = Accepted false /\ accepts (ex_warn false) = Accepted true
  /\ accepts (ex_warn true) = Rejected ENoPathToFinalStrict.
Proof. vm_compute. repeat split. Qed.
