(* C04 - A failing callback leaves a consistent, usable machine.  Statements only. *)
From Coq Require Import List Arith Bool.
Import ListNotations.
From PySM Require Import Proofs.WritesLocal Impl.Engine Proofs.EngineFrame Proofs.EngineProofs Proofs.EngineRefine Proofs.NonRtcProofs.

(* a failure in validators / conditions / before / exit / on: the exception escapes _activate and the
   stored state is still the one before the transition (the source) *)
Theorem C04_failure_before_assignment :
  forall beh nested rm, (forall td c, Rres grows c (nested td c)) -> no_writes beh ->
  forall t td c c' e,
    activate_pre beh nested rm t (act_ctx t td c) (set_nact c (S (nact c))) = Exn c' e ->
    activate beh nested rm t td c = Exn c' e /\ field c' = field c.
Proof. exact activate_fails_in_pre. Qed.
Print Assumptions C04_failure_before_assignment.

(* a failure in enter / after: the exception escapes and the stored state is the target *)
Theorem C04_failure_after_assignment :
  forall beh nested rm, (forall td c, Rres grows c (nested td c)) -> no_writes beh ->
  forall t td c c1 v c' e,
    let x := act_ctx t td c in
    activate_pre beh nested rm t x (set_nact c (S (nact c))) = Ok c1 (Some v) ->
    activate_post beh nested rm t x c1 = Exn c' e ->
    activate beh nested rm t td c = Exn c' e /\ field c' = Some (a_tgt t).
Proof. exact activate_fails_in_post. Qed.
Print Assumptions C04_failure_after_assignment.

(* the same two under local hypotheses: only the callbacks of that half of this transition are required not to
   assign the state themselves through the low-level API; any other callback of the machine may *)
Theorem C04_failure_before_assignment_local :
  forall beh nested rm, (forall td c, Rres grows c (nested td c)) ->
  forall t td c c' e, quiet beh (first_half_cbs t) ->
    activate_pre beh nested rm t (act_ctx t td c) (set_nact c (S (nact c))) = Exn c' e ->
    activate beh nested rm t td c = Exn c' e /\ field c' = field c.
Proof. exact activate_fails_in_pre_local. Qed.
Print Assumptions C04_failure_before_assignment_local.

Theorem C04_failure_after_assignment_local :
  forall beh nested rm, (forall td c, Rres grows c (nested td c)) ->
  forall t td c c1 v c' e, quiet beh (second_half_cbs t) ->
    activate_pre beh nested rm t (act_ctx t td c) (set_nact c (S (nact c))) = Ok c1 (Some v) ->
    activate_post beh nested rm t (act_ctx t td c) c1 = Exn c' e ->
    activate beh nested rm t td c = Exn c' e /\ field c' = Some (a_tgt t).
Proof. exact activate_fails_in_post_local. Qed.
Print Assumptions C04_failure_after_assignment_local.

Theorem C04_activate_outcomes_local :
  forall beh nested rm, (forall td c, Rres grows c (nested td c)) ->
  forall t td c, quiet beh (all_cbs t) -> act_effect t c (activate beh nested rm t td c).
Proof. exact activate_effect_local. Qed.
Print Assumptions C04_activate_outcomes_local.

(* never anything else: every outcome of one _activate call is one of: rejected (state, lock
   untouched), fired (target stored), failed before the assignment, failed after it *)
Theorem C04_activate_outcomes :
  forall beh nested rm, (forall td c, Rres grows c (nested td c)) -> no_writes beh ->
  forall t td c, act_effect t c (activate beh nested rm t td c).
Proof. exact activate_effect. Qed.
Print Assumptions C04_activate_outcomes.

(* whatever happens inside the drain loop - any number of events, any failure at any point - it ends
   with the queue empty and the lock released: events still waiting are dropped, the machine is not
   wedged.  For every engine wiring, machine, behaviour and fuel. *)
Theorem C04_drain_ends_idle :
  forall beh nested rm fuel c first,
    match drain beh nested rm fuel c first with
    | Ok c' _ => idle c'
    | Exn c' _ => idle c'
    | Fuel => True
    end.
Proof. exact drain_idle. Qed.
Print Assumptions C04_drain_ends_idle.

(* hence every send on an idle run-to-completion machine ends idle, returning or raising; by
   induction this holds after any history, in particular after repeated failures in a row *)
Theorem C04_send_ends_idle :
  forall beh rm f td c, rm_rtc rm = true -> locked c = false ->
    match send beh rm f td c with Ok c' _ | Exn c' _ => idle c' | Fuel => True end.
Proof. exact send_idle. Qed.
Print Assumptions C04_send_ends_idle.

Theorem C04_activate_again_ends_idle :
  forall beh rm f c, rm_rtc rm = true -> locked c = false ->
    match run_loop beh rm f c with Ok c' _ | Exn c' _ => idle c' | Fuel => True end.
Proof. exact run_loop_idle. Qed.
Print Assumptions C04_activate_again_ends_idle.

(* rtc=False: on an idle machine every send - returning or raising, whatever its callbacks send in
   turn, to any nesting - ends with an empty queue and the lock untouched (it is never taken in this
   mode): nothing is left to run later and the next event is processed normally *)
Theorem C04_nonrtc_send_ends_idle :
  forall beh rm f td c, queue c = [] ->
    match send_nonrtc beh rm f td c with
    | Ok c' _ | Exn c' _ => queue c' = [] /\ locked c' = locked c
    | Fuel => True
    end.
Proof. exact nonrtc_send_ends_idle. Qed.
Print Assumptions C04_nonrtc_send_ends_idle.

(* non-vacuity: an `on` callback sends event 0 again and then an `after` callback raises: the
   exception escapes, the state is the target, the queued event is gone and the lock is free *)
Definition w0 (k : nat) : wrapper :=
  {| w_cbs := [{| cb_prov := 0; cb_name := NUser k |}]; w_evcond := None; w_expected := None |}.
Definition ex_rm : rmachine :=
  {| rm_states := [ {| rs_enter := []; rs_exit := [] |}; {| rs_enter := []; rs_exit := [] |} ];
     rm_trans := [ {| rt_src := 0; rt_tgt := 1; rt_events := [0]; rt_internal := false; rt_validators := [];
                      rt_cond := []; rt_before := []; rt_on := [w0 1]; rt_after := [w0 2] |} ];
     rm_start := 0; rm_rtc := true; rm_allow := false; rm_async := false |}.
Definition ex_beh : behaviour :=
  fun cb _ => match cb_name cb with
              | NUser 1 => {| acts := [ASend 0 7]; ret := VNone |}
              | _ => {| acts := [ARaise 3]; ret := VNone |}
              end.
Example C04_nonvacuous :
  match send ex_beh ex_rm 5 {| td_ev := Some 0; td_tag := 0 |} (init_cfg (Some 0)) with
  | Exn c (XUser 3) => (field c, queue c, locked c)
  | _ => (None, [], true)
  end = (Some 1, [], false).
Proof. vm_compute. reflexivity. Qed.
