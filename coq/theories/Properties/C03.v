(* C03 - Run-to-completion: nested events are queued, FIFO, never interleaved.  Statements only. *)
From Coq Require Import List Arith Bool ZArith.
Import ListNotations.
From PySM Require Import Proofs.WritesLocal Impl.Engine Proofs.EngineFrame Proofs.EngineProofs Proofs.EngineRefine Proofs.EngineLog Proofs.NonRtcProofs.

(* while a transition is in progress (the lock is held) a send from any callback, at any phase and
   depth, only appends the event at the back of the queue and returns None *)
Theorem C03_nested_send_is_queued :
  forall beh rm f td c, locked c = true -> send_rtc beh rm (S f) td c = Ok (enqueue td c) no_res.
Proof. exact send_rtc_locked. Qed.
Print Assumptions C03_nested_send_is_queued.

(* hence the faithful engine equals the documented one, in which callbacks cannot start an event *)
Theorem C03_engine_refines_flat :
  forall beh rm f td c, send_rtc beh rm (S (S f)) td c = send_flat beh rm (S f) td c.
Proof. exact send_rtc_is_flat. Qed.
Print Assumptions C03_engine_refines_flat.

(* nothing a callback does (sends included) releases or takes the lock *)
Theorem C03_lock_held_throughout :
  forall beh nested rm, (forall td c, Rres same_lock c (nested td c)) ->
  forall td c, Rres same_lock c (trigger beh nested rm td c).
Proof. exact sl_trigger. Qed.
Print Assumptions C03_lock_held_throughout.

(* during one event the queue only grows at the back (FIFO: the drain loop pops at the front) and the
   stored state changes only by the single assignment of the fired transition *)
Theorem C03_queue_only_grows_while_skipping :
  forall beh nested rm, (forall td c, Rres grows c (nested td c)) -> no_writes beh ->
  forall e td cands c c1, Skipped beh nested rm e td cands c c1 ->
    field c1 = field c /\ locked c1 = locked c /\ exists q, queue c1 = queue c ++ q.
Proof. exact skipped_grows. Qed.
Print Assumptions C03_queue_only_grows_while_skipping.

Theorem C03_queue_only_grows_in_activate :
  forall beh nested rm, (forall td c, Rres grows c (nested td c)) -> no_writes beh ->
  forall t td c, act_effect t c (activate beh nested rm t td c).
Proof. exact activate_effect. Qed.
Print Assumptions C03_queue_only_grows_in_activate.

(* the same under a local hypothesis: only the callbacks this _activate call can run are required not to assign
   the state themselves *)
Theorem C03_queue_only_grows_while_skipping_local :
  forall beh nested rm, (forall td c, Rres grows c (nested td c)) ->
  forall e td cands c c1,
    (forall t, In t cands -> quiet beh (all_cbs (atrans_of rm t))) ->
    Skipped beh nested rm e td cands c c1 ->
    field c1 = field c /\ locked c1 = locked c /\ exists q, queue c1 = queue c ++ q.
Proof. exact skipped_grows_local. Qed.
Print Assumptions C03_queue_only_grows_while_skipping_local.

Theorem C03_queue_only_grows_in_activate_local :
  forall beh nested rm, (forall td c, Rres grows c (nested td c)) ->
  forall t td c, quiet beh (all_cbs t) -> act_effect t c (activate beh nested rm t td c).
Proof. exact activate_effect_local. Qed.
Print Assumptions C03_queue_only_grows_in_activate_local.

(* the outermost call returns the result of the first event it processes, whatever later events
   return; the `__initial__` trigger never counts *)
Theorem C03_outer_result_is_first :
  forall beh nested rm f c td q c1 r c' v,
    queue c = td :: q -> trigger beh nested rm td (set_queue c q) = Ok c1 (Some r) ->
    drain beh nested rm (S f) c None = Ok c' v -> v = r.
Proof. exact drain_first_result. Qed.
Print Assumptions C03_outer_result_is_first.

Theorem C03_first_result_kept :
  forall beh nested rm fuel c v c' v', drain beh nested rm fuel c (Some v) = Ok c' v' -> v' = v.
Proof. exact drain_keeps_first. Qed.
Print Assumptions C03_first_result_kept.

Theorem C03_initial_is_sentinel :
  forall beh nested rm tag c c' r,
    trigger beh nested rm {| td_ev := None; td_tag := tag |} c = Ok c' r -> r = None.
Proof. exact trigger_initial_is_sentinel. Qed.
Print Assumptions C03_initial_is_sentinel.

(* FIFO, never interleaved: a completed run of the loop processed a list of triggers one after the other,
   each to completion ([Drained]); what was already queued comes first, in queue order, and everything
   else was put later by callbacks - so every trigger is processed before any trigger put after it *)
Theorem C03_loop_processes_one_at_a_time :
  forall beh rm fuel c first c' v,
    drain beh flat_nested rm fuel c first = Ok c' v -> exists tds, Drained beh rm c tds c'.
Proof. exact drain_drained. Qed.
Print Assumptions C03_loop_processes_one_at_a_time.

Theorem C03_fifo :
  forall beh rm c tds c', Drained beh rm c tds c' -> exists later, tds = queue c ++ later.
Proof. exact drained_fifo. Qed.
Print Assumptions C03_fifo.

(* constant depth: whatever the number of events one call ends up processing (self-triggering chains
   of any length), every callback runs at engine depth (depth c) + 1 and the depth is restored *)
Theorem C03_constant_depth :
  forall beh rm fuel c first, Rres drain_log c (drain beh flat_nested rm fuel c first).
Proof. exact drain_depth. Qed.
Print Assumptions C03_constant_depth.

(* non-vacuity: an `on` callback sends event 0 twice; under RTC the sends return None and both run
   afterwards at depth 1; under rtc=False the first nested send runs at depth 2 *)
Definition w1 : wrapper :=
  {| w_cbs := [{| cb_prov := 0; cb_name := NUser 1 |}]; w_evcond := None; w_expected := None |}.
Definition ex_rm (rtc : bool) : rmachine :=
  {| rm_states := [ {| rs_enter := []; rs_exit := [] |} ];
     rm_trans := [ {| rt_src := 0; rt_tgt := 0; rt_events := [0]; rt_internal := false; rt_validators := [];
                      rt_cond := []; rt_before := []; rt_on := [w1]; rt_after := [] |} ];
     rm_start := 0; rm_rtc := rtc; rm_allow := false; rm_async := false |}.
Definition ex_beh : behaviour :=
  fun _ n => {| acts := match n with 0 => [ASend 0 1; ASend 0 2] | _ => [] end; ret := VInt (Z.of_nat n) |}.
Definition depths (r : res pyres) : list nat :=
  match r with
  | Ok c _ => flat_map (fun e => match e with ECall _ _ _ _ _ _ _ _ _ d => [d] | _ => [] end) (rev (log c))
  | _ => []
  end.
(* ---- rtc=False ---- *)
(* on an idle queue a send IS the processing of its own trigger, at once and before it returns, and
   its value is that trigger's own result (the callback that sent it gets the result) *)
Theorem C03_nonrtc_send_processes_its_trigger_at_once :
  forall beh rm f td c, queue c = [] ->
    send_nonrtc beh rm (S f) td c =
      match trigger beh (send_nonrtc beh rm f) rm td (set_queue (enqueue td c) []) with
      | Ok c2 r => Ok c2 (match r with Some v => v | None => no_res end)
      | Exn c2 x => Exn c2 x
      | Fuel => Fuel
      end.
Proof. exact nonrtc_send_processes_its_trigger_at_once. Qed.
Print Assumptions C03_nonrtc_send_processes_its_trigger_at_once.

(* depth first: everything a send issued at depth d runs - its own callbacks and those of the sends
   they issue, to any nesting - is logged at depth >= d + 1 (so a chain of nested sends runs at growing
   depth, unlike run-to-completion), and the depth is d again when it returns *)
Theorem C03_nonrtc_runs_deeper :
  forall beh rm f td c,
    Rres (fun c c' => depth c' = depth c
                      /\ exists l, log c' = l ++ log c /\ Forall (depth_ge (S (depth c))) l)
         c (send_nonrtc beh rm f td c).
Proof. exact nonrtc_runs_deeper. Qed.
Print Assumptions C03_nonrtc_runs_deeper.

Example C03_nonvacuous :
  depths (send ex_beh (ex_rm true) 9 {| td_ev := Some 0; td_tag := 0 |} (init_cfg (Some 0))) = [1; 1; 1]
  /\ depths (send ex_beh (ex_rm false) 9 {| td_ev := Some 0; td_tag := 0 |} (init_cfg (Some 0))) = [1; 2; 2].
Proof. vm_compute. split; reflexivity. Qed.
