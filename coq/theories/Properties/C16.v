(* C16 - Machines are isolated from other instances, classes and definitions.  Statements only.
   Every theorem of C01-C14 and C17 is about ONE machine: its model takes the machine's own
   declaration, providers, behaviour and configuration and nothing else, so in the model no other
   instance or class can influence it; Impl/Process.v makes that explicit for a process of several
   objects driven in any interleaving (theorems below).  The two places where the library shares state between
   machines are (1) the process-wide signature cache, modelled in Impl/World.v and treated here, and
   (2) State objects shared between a class and its subclasses (deviation D13, a known finding
   exhibited by the correspondence probe).  That nothing else is shared is what the metamorphic
   correspondence (A alone = A interleaved with unrelated activity) checks. *)
From Coq Require Import List Arith Bool.
Import ListNotations.
From PySM Require Import Impl.World Impl.Process Proofs.WorldProofs Proofs.ProcessProofs.

(* a consistent cache is transparent: when the key computed from a callable separates callables
   with different signatures / asyncness, every callable is bound with its own adapter whatever
   other machines, classes or definitions bound before - for any number and order of other bindings *)
Theorem C16_signature_cache_transparent :
  forall universe others f,
    key_separates universe -> In f universe -> (forall g, In g others -> In g universe) ->
    bind_after others f = own f.
Proof. exact cache_is_transparent. Qed.
Print Assumptions C16_signature_cache_transparent.

(* pinned tree: the key (qualified name, class name, variable names) does not separate - two
   same-named callables with the same variable names and different kinds collide (D7) *)
Theorem C16_cache_collision_refuted : bind_after [f_sync] f_async <> own f_async.
Proof. exact cache_collision_refuted. Qed.
Print Assumptions C16_cache_collision_refuted.

(* a process of several machine objects (instances of the same or of different classes), driven in ANY
   interleaving: what object i returns, raises, stores and logs, and the object it ends as, are what it
   returns, raises, stores, logs and ends as when it alone is given its own operations - for every
   process, every interleaved history, every object *)
Theorem C16_object_in_a_process_behaves_as_alone :
  forall fuel h p i m, nth_error p i = Some m ->
    nth_error (fst (prun fuel p h)) i = Some (fst (mrun fuel m (own_ops i h)))
    /\ own_obs i (snd (prun fuel p h)) = snd (mrun fuel m (own_ops i h)).
Proof. exact process_projection. Qed.
Print Assumptions C16_object_in_a_process_behaves_as_alone.

(* hence the other objects, what they are asked to do, and the interleaving do not matter *)
Theorem C16_other_objects_do_not_matter :
  forall fuel h1 h2 p1 p2 i m,
    nth_error p1 i = Some m -> nth_error p2 i = Some m -> own_ops i h1 = own_ops i h2 ->
    own_obs i (snd (prun fuel p1 h1)) = own_obs i (snd (prun fuel p2 h2))
    /\ nth_error (fst (prun fuel p1 h1)) i = nth_error (fst (prun fuel p2 h2)) i.
Proof. exact process_isolation. Qed.
Print Assumptions C16_other_objects_do_not_matter.

Example C16_nonvacuous :
  key_separates [f_sync] /\ bind_after [f_sync; f_sync] f_sync = own f_sync.
Proof.
  split; [intros f g [<-|[]] [<-|[]] _; reflexivity|vm_compute; reflexivity].
Qed.
