(* C16 - Machines are isolated from other instances, classes and definitions.  Statements only.
   Every theorem of C01-C14 and C17 is about ONE machine: its model takes the machine's own
   declaration, providers, behaviour and configuration and nothing else, so in the model no other
   instance or class can influence it.  The two places where the library shares state between
   machines are (1) the process-wide signature cache, modelled in Impl/World.v and treated here, and
   (2) State objects shared between a class and its subclasses (deviation D13, a known finding
   exhibited by the correspondence probe).  That nothing else is shared is what the metamorphic
   correspondence (A alone = A interleaved with unrelated activity) checks. *)
From Coq Require Import List Arith Bool.
Import ListNotations.
From PySM Require Import Impl.World Proofs.WorldProofs.

(* a consistent cache is transparent: when the key computed from a callable separates callables
   with different signatures / asyncness, every callable is bound with its own adapter whatever
   other machines, classes or definitions bound before - for any number and order of other bindings *)
Theorem C16_signature_cache_transparent :
  forall universe others f,
    key_separates universe -> In f universe -> (forall g, In g others -> In g universe) ->
    bind_after others f = own f.
Proof. exact cache_is_transparent. Qed.
Print Assumptions C16_signature_cache_transparent.

(* pinned tree: the key (qualified name, class name, variable names) does not separate - two
   same-named callables with the same variable names and different kinds collide (D7) *)
Theorem C16_cache_collision_refuted : bind_after [f_sync] f_async <> own f_async.
Proof. exact cache_collision_refuted. Qed.
Print Assumptions C16_cache_collision_refuted.

Example C16_nonvacuous :
  key_separates [f_sync] /\ bind_after [f_sync; f_sync] f_sync = own f_sync.
Proof.
  split; [intros f g [<-|[]] [<-|[]] _; reflexivity|vm_compute; reflexivity].
Qed.
