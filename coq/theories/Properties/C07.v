(* C07 - Callbacks receive exactly the parameters they declare.  Statements only. *)
From Coq Require Import List Arith Bool.
Import ListNotations.
From PySM Require Import Impl.Signature Proofs.SignatureProofs.

(* whatever the event carries, the binder binds declared parameters only: undeclared positional
   or keyword data is dropped by the adapter (for every signature, any number of parameters, every
   call shape) *)
Theorem C07_only_declared_parameters_bound :
  forall sig args kw a, bind_expected sig args kw = Bound a ->
    forall n v, In (n, v) a -> In n (map p_name sig).
Proof. exact bind_only_declared. Qed.
Print Assumptions C07_only_declared_parameters_bound.

(* the binder itself raises TypeError in exactly one situation: a positional-only parameter, reached
   when the positional values are exhausted, whose name is also an event keyword (deviation D15,
   behaviour copied from inspect and pinned by the test-suite); never for surplus positional values,
   unknown keywords, or missing values *)
Theorem C07_binder_type_error_only_posonly_keyword :
  forall sig args kw acc, pos_phase sig args kw acc = BindTypeError ->
    exists p v, In p sig /\ p_kind p = PosOnly /\ lookup (p_name p) kw = Some v.
Proof. exact bind_type_error_only_posonly_keyword. Qed.
Print Assumptions C07_binder_type_error_only_posonly_keyword.

(* reserved names: what a callback finds under a built-in name is the library's value for the event
   being processed, whatever the user (or a parent event forwarding its kwargs) passed; under any
   other name it finds the user's value untouched *)
Theorem C07_builtins_win :
  forall user builtins n, distinct_keys builtins = true ->
    lookup n (extended_kwargs user builtins) =
      match lookup n builtins with
      | Some v => Some v
      | None => if reserved n then None else lookup n (trigger_kwargs user)
      end.
Proof. exact builtins_win. Qed.
Print Assumptions C07_builtins_win.

(* and the trigger data itself never carries a reserved name (no leak through user kwargs) *)
Theorem C07_no_reserved_name_in_trigger :
  forall user n v, In (n, v) (trigger_kwargs user) -> reserved n = false.
Proof. exact trigger_data_has_no_reserved_name. Qed.
Print Assumptions C07_no_reserved_name_in_trigger.

(* the defect repaired by the fix: commit (a keyword-only parameter after surplus positionals) -
   the repaired binder delivers k: def cb(a, *, k=None), called with (1, 2, 3, k=5) *)
Example C07_kwonly_after_surplus_positionals :
  adapter_call [ {| p_name := 1; p_kind := PosOrKw; p_default := false |};
                 {| p_name := 2; p_kind := KwOnly; p_default := true |} ] [100; 101; 102] [(2, 5)]
  = inl (Assigned [(1, BOne 100); (2, BOne 5)]).
Proof. vm_compute. reflexivity. Qed.

(* pinned-tree deviation D15, kept as a known finding *)
Example C07_posonly_default_refuted :
  adapter_call [ {| p_name := 1; p_kind := PosOnly; p_default := true |};
                 {| p_name := 2; p_kind := VarKw; p_default := false |} ] [] [(1, 7)] = inr tt
  /\ py_call [ {| p_name := 1; p_kind := PosOnly; p_default := true |};
               {| p_name := 2; p_kind := VarKw; p_default := false |} ] [] [(1, 7)]
     = Assigned [(2, BDict [(1, 7)])].
Proof. vm_compute. split; reflexivity. Qed.

(* non-vacuity of the built-in layering: the user tries to override `source` (56) *)
Example C07_nonvacuous :
  lookup 56 (extended_kwargs [(56, 1); (3, 2)] [(56, 356)]) = Some 356
  /\ lookup 3 (extended_kwargs [(56, 1); (3, 2)] [(56, 356)]) = Some 2.
Proof. vm_compute. split; reflexivity. Qed.
