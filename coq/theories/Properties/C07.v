(* C07 - Callbacks receive exactly the parameters they declare.  Statements only. *)
From Coq Require Import List Arith Bool.
Import ListNotations.
From PySM Require Import Impl.Signature Spec.CallSpec Proofs.SignatureProofs Proofs.CallProofs Proofs.CallRoundTrip Proofs.CallContract.

(* whatever the event carries, the binder binds declared parameters only: undeclared positional
   or keyword data is dropped by the adapter (for every signature, any number of parameters, every
   call shape) *)
Theorem C07_only_declared_parameters_bound :
  forall sig args kw a, bind_expected sig args kw = Bound a ->
    forall n v, In (n, v) a -> In n (map p_name sig).
Proof. exact bind_only_declared. Qed.
Print Assumptions C07_only_declared_parameters_bound.

(* the binder itself raises TypeError in exactly one situation: a positional-only parameter, reached
   when the positional values are exhausted, whose name is also an event keyword (deviation D15,
   behaviour copied from inspect and pinned by the test-suite); never for surplus positional values,
   unknown keywords, or missing values *)
Theorem C07_binder_type_error_only_posonly_keyword :
  forall sig args kw acc, pos_phase sig args kw acc = BindTypeError ->
    exists p v, In p sig /\ p_kind p = PosOnly /\ lookup (p_name p) kw = Some v.
Proof. exact bind_type_error_only_posonly_keyword. Qed.
Print Assumptions C07_binder_type_error_only_posonly_keyword.

(* reserved names: what a callback finds under a built-in name is the library's value for the event
   being processed, whatever the user (or a parent event forwarding its kwargs) passed; under any
   other name it finds the user's value untouched *)
Theorem C07_builtins_win :
  forall user builtins n, distinct_keys builtins = true ->
    lookup n (extended_kwargs user builtins) =
      match lookup n builtins with
      | Some v => Some v
      | None => if reserved n then None else lookup n (trigger_kwargs user)
      end.
Proof. exact builtins_win. Qed.
Print Assumptions C07_builtins_win.

(* and the trigger data itself never carries a reserved name (no leak through user kwargs) *)
Theorem C07_no_reserved_name_in_trigger :
  forall user n v, In (n, v) (trigger_kwargs user) -> reserved n = false.
Proof. exact trigger_data_has_no_reserved_name. Qed.
Print Assumptions C07_no_reserved_name_in_trigger.

(* ---------- the contract, slot by slot ---------- *)
(* [spec_bind] (Spec/CallSpec.v) is the declarative reading of "exactly the parameters it declares":
   one pass over the declared parameters.  For every signature `def` accepts ([shape]), every list of
   positional values and every keyword map in which no positional-only parameter is named (that
   region is deviation D15 below), the binder computes exactly that assignment ... *)
Theorem C07_binder_is_declarative_assignment :
  forall sig args kw, shape sig = true -> no_posonly_named sig kw ->
    bind_expected sig args kw = Bound (spec_bind sig args kw).
Proof. exact bind_is_spec. Qed.
Print Assumptions C07_binder_is_declarative_assignment.

(* ... and the whole adapter (binder, then CPython's own binding of the call made with
   BoundArguments.args / .kwargs) either raises "missing required argument" - exactly when the
   assignment leaves a parameter without default unbound - or calls the callable with every declared
   parameter receiving exactly its assigned value (star parameters: the assigned tuple / dict or an
   empty one).  Undeclared data never causes a TypeError: no other error is possible. *)
Theorem C07_callable_receives_declared_parameters :
  forall sig args kw,
    shape sig = true -> names_distinct sig = true -> distinct_keys kw = true -> no_posonly_named sig kw ->
    let B := spec_bind sig args kw in
    (missing sig B = true /\ adapter_call sig args kw = inl (CallTypeError 4))
    \/ (missing sig B = false /\ exists A, adapter_call sig args kw = inl (Assigned A)
          /\ forall p, In p sig -> arg_lookup (p_name p) A = received p B).
Proof. exact adapter_contract. Qed.
Print Assumptions C07_callable_receives_declared_parameters.

(* the second half on its own, for any well-formed bound arguments (not only the binder's): handing
   BoundArguments.args / .kwargs to a call re-creates the bound arguments *)
Theorem C07_bound_arguments_round_trip :
  forall B sig, shape sig = true -> names_distinct sig = true -> WB sig B ->
    (missing sig B = true /\ py_call sig (ba_args sig B) (ba_kwargs sig B false) = CallTypeError 4)
    \/ (missing sig B = false /\ exists A, py_call sig (ba_args sig B) (ba_kwargs sig B false) = Assigned A
          /\ forall p, In p sig -> arg_lookup (p_name p) A = received p B).
Proof. exact round_trip. Qed.
Print Assumptions C07_bound_arguments_round_trip.

(* what the assignment gives each kind of parameter *)
Theorem C07_named_parameter_gets_keyword :
  forall sig args kw p v, shape sig = true -> names_distinct sig = true -> In p sig ->
    (p_kind p = PosOrKw \/ p_kind p = KwOnly) -> lookup (p_name p) kw = Some v ->
    arg_lookup (p_name p) (spec_bind sig args kw) = Some (BOne v).
Proof. exact named_parameter_gets_keyword. Qed.
Print Assumptions C07_named_parameter_gets_keyword.

Theorem C07_positional_parameters_in_order :
  forall P T args kw,
    (forall p, In p P -> is_positional p = true /\ lookup (p_name p) kw = None) ->
    names_distinct (P ++ T) = true ->
    forall i p a, nth_error P i = Some p -> nth_error args i = Some a ->
      arg_lookup (p_name p) (spec_bind (P ++ T) args kw) = Some (BOne a).
Proof. exact positional_parameters_in_order. Qed.
Print Assumptions C07_positional_parameters_in_order.

Theorem C07_star_args_gets_surplus :
  forall P vp T args kw,
    (forall p, In p P -> is_positional p = true) -> p_kind vp = VarPos ->
    names_distinct (P ++ vp :: T) = true -> length P < length args ->
    arg_lookup (p_name vp) (spec_bind (P ++ vp :: T) args kw) = Some (BTuple (skipn (length P) args)).
Proof. exact varpos_gets_surplus. Qed.
Print Assumptions C07_star_args_gets_surplus.

Theorem C07_star_kwargs_gets_leftovers :
  forall ps args kw vk,
    shape ps = true -> names_distinct ps = true -> distinct_keys kw = true -> In vk ps -> p_kind vk = VarKw ->
    arg_lookup (p_name vk) (spec_bind ps args kw) =
      match filter (unconsumed ps) kw with [] => None | d => Some (BDict d) end.
Proof. exact varkw_gets_leftovers. Qed.
Print Assumptions C07_star_kwargs_gets_leftovers.

(* non-vacuity: def cb(a, /, b, c=0, *rest, k, m=None, **others) called with (1, 2, 3, 4, 5) and
   {b: 20, k: 7, zz: 9, 50: 350}: hypotheses hold, the callable is called, and receives
   a=1, b=20, c=3, rest=(4, 5), k=7, others={zz: 9, 50: 350}, m unbound (its default) *)
Example C07_contract_nonvacuous :
  let sig := [ {| p_name := 1; p_kind := PosOnly; p_default := false |};
               {| p_name := 2; p_kind := PosOrKw; p_default := false |};
               {| p_name := 3; p_kind := PosOrKw; p_default := true |};
               {| p_name := 4; p_kind := VarPos; p_default := false |};
               {| p_name := 5; p_kind := KwOnly; p_default := false |};
               {| p_name := 6; p_kind := KwOnly; p_default := true |};
               {| p_name := 7; p_kind := VarKw; p_default := false |} ] in
  let kw := [(2, 20); (5, 7); (99, 9); (50, 350)] in
  shape sig = true /\ names_distinct sig = true /\ distinct_keys kw = true
  /\ (forall p, In p sig -> p_kind p = PosOnly -> lookup (p_name p) kw = None)
  /\ missing sig (spec_bind sig [1; 2; 3; 4; 5] kw) = false
  /\ adapter_call sig [1; 2; 3; 4; 5] kw
     = inl (Assigned [(1, BOne 1); (2, BOne 20); (3, BOne 3); (4, BTuple [4; 5]); (5, BOne 7); (7, BDict [(99, 9); (50, 350)])]).
Proof.
  cbv zeta. repeat split; try (vm_compute; reflexivity).
  intros p Hp K. simpl in Hp. repeat (destruct Hp as [<-|Hp]; [try discriminate K; vm_compute; reflexivity|]). contradiction.
Qed.

(* the defect repaired by the fix: commit (a keyword-only parameter after surplus positionals) -
   the repaired binder delivers k: def cb(a, *, k=None), called with (1, 2, 3, k=5) *)
Example C07_kwonly_after_surplus_positionals :
  adapter_call [ {| p_name := 1; p_kind := PosOrKw; p_default := false |};
                 {| p_name := 2; p_kind := KwOnly; p_default := true |} ] [100; 101; 102] [(2, 5)]
  = inl (Assigned [(1, BOne 100); (2, BOne 5)]).
Proof. vm_compute. reflexivity. Qed.

(* pinned-tree deviation D15, kept as a known finding *)
Example C07_posonly_default_refuted :
  adapter_call [ {| p_name := 1; p_kind := PosOnly; p_default := true |};
                 {| p_name := 2; p_kind := VarKw; p_default := false |} ] [] [(1, 7)] = inr tt
  /\ py_call [ {| p_name := 1; p_kind := PosOnly; p_default := true |};
               {| p_name := 2; p_kind := VarKw; p_default := false |} ] [] [(1, 7)]
     = Assigned [(2, BDict [(1, 7)])].
Proof. vm_compute. split; reflexivity. Qed.

(* non-vacuity of the built-in layering: the user tries to override `source` (56) *)
Example C07_nonvacuous :
  lookup 56 (extended_kwargs [(56, 1); (3, 2)] [(56, 356)]) = Some 356
  /\ lookup 3 (extended_kwargs [(56, 1); (3, 2)] [(56, 356)]) = Some 2.
Proof. vm_compute. split; reflexivity. Qed.
