(* C01 - Transition selection follows the declared machine.
   Statements only; every proof is `exact <lemma from Proofs/>`.
   The candidate loop of _trigger ([try_candidates]) is characterised completely, for every resolved
   machine, behaviour of the user callbacks, trigger and configuration, and for any engine wiring
   ([nested] = what a send from inside a callback does).  [Skipped e td pre c c1] says: walking the
   candidates [pre] in declaration order fires none of them - each is either not bound to [e] or
   rejected by its guards - and leads from configuration [c] to [c1]. *)
From Coq Require Import List Arith Bool.
Import ListNotations.
From PySM Require Import Impl.Engine Proofs.EngineFrame Proofs.EngineProofs Proofs.EngineRefine Proofs.WritesLocal.

(* the first candidate, in declaration order, that is bound to the event and whose activation
   executes (guards hold) is the one that fires, with its result *)
Theorem C01_first_enabled_fires :
  forall beh nested rm e td pre t post s c c1 c2 v,
    Skipped beh nested rm e td pre c c1 -> matches t e = true ->
    activate beh nested rm (atrans_of rm t) td c1 = Ok c2 (true, v) ->
    try_candidates beh nested rm (pre ++ t :: post) e s td c = Ok c2 (Some v).
Proof. exact first_enabled_fires. Qed.
Print Assumptions C01_first_enabled_fires.

(* a validator (or any callback of the candidate) that raises aborts the whole event with that
   exception: the candidates after it are never tried *)
Theorem C01_validator_abort :
  forall beh nested rm e td pre t post s c c1 c2 x,
    Skipped beh nested rm e td pre c c1 -> matches t e = true ->
    activate beh nested rm (atrans_of rm t) td c1 = Exn c2 x ->
    try_candidates beh nested rm (pre ++ t :: post) e s td c = Exn c2 x.
Proof. exact candidate_failure_aborts. Qed.
Print Assumptions C01_validator_abort.

(* if no transition qualifies: TransitionNotAllowed carrying the event and the state, or nothing
   happens when allow_event_without_transition is set *)
Theorem C01_none_qualifies :
  forall beh nested rm e td cands s c c1,
    Skipped beh nested rm e td cands c c1 ->
    try_candidates beh nested rm cands e s td c =
      if rm_allow rm then Ok c1 (Some no_res) else Exn c1 (XNotAllowed e s).
Proof. exact none_qualifies. Qed.
Print Assumptions C01_none_qualifies.

(* these shapes are exhaustive: every run of the candidate loop either skips all candidates or
   skips a prefix and then fires / fails on the next candidate bound to the event *)
Theorem C01_cases :
  forall beh nested rm e td cands c,
    (exists c1, Skipped beh nested rm e td cands c c1) \/
    (exists pre t post c1, cands = pre ++ t :: post /\ Skipped beh nested rm e td pre c c1 /\
        matches t e = true /\
        match activate beh nested rm (atrans_of rm t) td c1 with
        | Ok _ (false, _) => False
        | _ => True
        end).
Proof. exact candidates_cases. Qed.
Print Assumptions C01_cases.

(* in run-to-completion mode (a send from a callback only appends to the queue) skipping rejected
   candidates leaves the stored state and the lock unchanged and only appends to the queue ... *)
Theorem C01_rejected_keep_state :
  forall beh nested rm, (forall td c, Rres grows c (nested td c)) -> no_writes beh ->
  forall e td cands c c1, Skipped beh nested rm e td cands c c1 ->
    field c1 = field c /\ locked c1 = locked c /\ exists q, queue c1 = queue c ++ q.
Proof. exact skipped_grows. Qed.
Print Assumptions C01_rejected_keep_state.

(* ... and after the event the stored state is the target of a candidate bound to the event (the one
   that fired) or is unchanged; TransitionNotAllowed carries the event and the state and leaves the
   stored state unchanged unless a nested failure is being reported *)
Theorem C01_state_after_event :
  forall beh nested rm, (forall td c, Rres grows c (nested td c)) -> no_writes beh ->
  forall cands e s td c,
    match try_candidates beh nested rm cands e s td c with
    | Ok c' _ => field c' = field c \/ exists t, In t cands /\ matches t e = true /\ field c' = Some (rt_tgt t)
    | Exn c' (XNotAllowed e' s') => e' = e /\ s' = s /\ field c' = field c
                                    \/ (exists t, In t cands /\ (field c' = field c \/ field c' = Some (rt_tgt t)))
    | Exn c' _ => exists t, In t cands /\ matches t e = true /\ (field c' = field c \/ field c' = Some (rt_tgt t))
    | Fuel => True
    end.
Proof. exact try_candidates_field. Qed.
Print Assumptions C01_state_after_event.

(* a fired transition stores exactly its target (RTC) *)
Theorem C01_fired_stores_target :
  forall beh nested rm, (forall td c, Rres grows c (nested td c)) -> no_writes beh ->
  forall t td c, act_effect t c (activate beh nested rm t td c).
Proof. exact activate_effect. Qed.
Print Assumptions C01_fired_stores_target.

(* the same two statements under LOCAL hypotheses: only the callbacks the candidates themselves can run are
   required not to assign the state through the low-level API ([quiet]); every other callback of the machine may *)
Theorem C01_rejected_keep_state_local :
  forall beh nested rm, (forall td c, Rres grows c (nested td c)) ->
  forall e td cands c c1,
    (forall t, In t cands -> quiet beh (all_cbs (atrans_of rm t))) ->
    Skipped beh nested rm e td cands c c1 ->
    field c1 = field c /\ locked c1 = locked c /\ exists q, queue c1 = queue c ++ q.
Proof. exact skipped_grows_local. Qed.
Print Assumptions C01_rejected_keep_state_local.

Theorem C01_state_after_event_local :
  forall beh nested rm, (forall td c, Rres grows c (nested td c)) ->
  forall cands e s td c,
    (forall t, In t cands -> quiet beh (all_cbs (atrans_of rm t))) ->
    match try_candidates beh nested rm cands e s td c with
    | Ok c' _ => field c' = field c \/ exists t, In t cands /\ matches t e = true /\ field c' = Some (rt_tgt t)
    | Exn c' (XNotAllowed e' s') => e' = e /\ s' = s /\ field c' = field c
                                    \/ (exists t, In t cands /\ (field c' = field c \/ field c' = Some (rt_tgt t)))
    | Exn c' _ => exists t, In t cands /\ matches t e = true /\ (field c' = field c \/ field c' = Some (rt_tgt t))
    | Fuel => True
    end.
Proof. exact try_candidates_field_local. Qed.
Print Assumptions C01_state_after_event_local.

Theorem C01_fired_stores_target_local :
  forall beh nested rm, (forall td c, Rres grows c (nested td c)) ->
  forall t td c, quiet beh (all_cbs t) -> act_effect t c (activate beh nested rm t td c).
Proof. exact activate_effect_local. Qed.
Print Assumptions C01_fired_stores_target_local.

(* the faithful entry point (put, try-lock, drain; re-entrant sends lose the try-lock) computes
   exactly what the documented run-to-completion engine computes, so the theorems above, stated for
   [flat_nested], hold for it *)
Theorem C01_faithful_engine_is_flat :
  forall beh rm f td c, send_rtc beh rm (S (S f)) td c = send_flat beh rm (S f) td c.
Proof. exact send_rtc_is_flat. Qed.
Print Assumptions C01_faithful_engine_is_flat.

Theorem C01_flat_nested_grows : forall td c, Rres grows c (flat_nested td c).
Proof. exact grows_flat. Qed.
Print Assumptions C01_flat_nested_grows.

(* non-vacuity: two candidates for event 0 in state 0; the first one's guard is falsy, the second
   fires; with both guards falsy TransitionNotAllowed(0, 0) is raised and the state stays 0 *)
Definition ex_w (k : nat) : wrapper :=
  {| w_cbs := [{| cb_prov := 0; cb_name := NUser k |}]; w_evcond := None; w_expected := Some true |}.
Definition ex_t (tgt k : nat) : rtrans :=
  {| rt_src := 0; rt_tgt := tgt; rt_events := [0]; rt_internal := false; rt_validators := [];
     rt_cond := [ex_w k]; rt_before := []; rt_on := []; rt_after := [] |}.
Definition ex_rm : rmachine :=
  {| rm_states := [ {| rs_enter := []; rs_exit := [] |}; {| rs_enter := []; rs_exit := [] |};
                    {| rs_enter := []; rs_exit := [] |} ];
     rm_trans := [ex_t 1 1; ex_t 2 2]; rm_start := 0; rm_rtc := true; rm_allow := false; rm_async := false |}.
Definition ex_beh (second : bool) : behaviour :=
  fun cb _ => {| acts := []; ret := match cb_name cb with NUser 2 => VBool second | _ => VBool false end |}.
Example C01_nonvacuous :
  (match send (ex_beh true) ex_rm 5 {| td_ev := Some 0; td_tag := 0 |} (init_cfg (Some 0)) with
   | Ok c _ => field c | _ => None end) = Some 2
  /\ (match send (ex_beh false) ex_rm 5 {| td_ev := Some 0; td_tag := 0 |} (init_cfg (Some 0)) with
      | Exn c (XNotAllowed 0 0) => field c | _ => None end) = Some 0.
Proof. vm_compute. split; reflexivity. Qed.
