(* C13 - send(), event methods and bound events are one and the same entry point.  Statements only. *)
From Coq Require Import List Arith Bool.
Import ListNotations.
From PySM Require Import Impl.Engine Impl.History Proofs.EngineFrame Proofs.EngineProofs Proofs.OrderProofs.

Theorem C13_styles_interchangeable :
  forall st1 st2 beh rm fuel td c, enter st1 beh rm fuel td c = enter st2 beh rm fuel td c.
Proof. exact styles_equal. Qed.
Print Assumptions C13_styles_interchangeable.

(* allowed_events lists each event once ... *)
Theorem C13_allowed_events_no_duplicates : forall rm s, NoDup (allowed_events rm s).
Proof. exact allowed_events_nodup. Qed.
Print Assumptions C13_allowed_events_no_duplicates.

(* ... and exactly the events that have a transition leaving the current state *)
Theorem C13_allowed_events_exact :
  forall rm s e, In e (allowed_events rm s) <-> exists t, In t (outs rm s) /\ In e (rt_events t).
Proof. exact allowed_events_iff. Qed.
Print Assumptions C13_allowed_events_exact.

(* ... in declaration order: cut the sequence of (transition, event) declarations leaving the state
   anywhere; the events of the first part are listed first (as the first part alone would list them),
   followed by exactly the events that occur in the second part only *)
Theorem C13_allowed_events_in_declaration_order :
  forall rm s l1 l2, flat_map rt_events (outs rm s) = l1 ++ l2 ->
    exists rest, allowed_events rm s = uniq [] l1 ++ rest
                 /\ forall e, In e rest <-> In e l2 /\ ~ In e l1.
Proof. exact allowed_events_in_declaration_order. Qed.
Print Assumptions C13_allowed_events_in_declaration_order.

Theorem C13_earlier_declared_event_listed_first :
  forall rm s l1 l2 e1 e2,
    flat_map rt_events (outs rm s) = l1 ++ l2 -> In e1 l1 -> In e2 l2 -> ~ In e2 l1 ->
    exists a b c, allowed_events rm s = a ++ e1 :: b ++ e2 :: c.
Proof. exact earlier_declared_event_listed_first. Qed.
Print Assumptions C13_earlier_declared_event_listed_first.

(* a name bound to no transition leaving the current state - in particular every name that is not a
   declared event, such as an attribute of the machine - is an unknown event: TransitionNotAllowed
   carrying the name and the state, or nothing when tolerated; the configuration (state, queue,
   lock, call counters, callback log) is returned unchanged: nothing else was invoked *)
Theorem C13_unknown_name_touches_nothing :
  forall beh nested rm e td cands s c,
    (forall t, In t cands -> ~ In e (rt_events t)) ->
    try_candidates beh nested rm cands e s td c =
      if rm_allow rm then Ok c (Some no_res) else Exn c (XNotAllowed e s).
Proof. exact unknown_event_touches_nothing. Qed.
Print Assumptions C13_unknown_name_touches_nothing.

Definition ex_rm : rmachine :=
  {| rm_states := [ {| rs_enter := []; rs_exit := [] |}; {| rs_enter := []; rs_exit := [] |} ];
     rm_trans := [ {| rt_src := 0; rt_tgt := 1; rt_events := [2; 0]; rt_internal := false; rt_validators := [];
                      rt_cond := []; rt_before := []; rt_on := []; rt_after := [] |};
                   {| rt_src := 0; rt_tgt := 0; rt_events := [0; 1]; rt_internal := false; rt_validators := [];
                      rt_cond := []; rt_before := []; rt_on := []; rt_after := [] |};
                   {| rt_src := 1; rt_tgt := 0; rt_events := [3]; rt_internal := false; rt_validators := [];
                      rt_cond := []; rt_before := []; rt_on := []; rt_after := [] |} ];
     rm_start := 0; rm_rtc := true; rm_allow := false; rm_async := false |}.
Example C13_nonvacuous : allowed_events ex_rm 0 = [2; 0; 1] /\ allowed_events ex_rm 1 = [3].
Proof. vm_compute. split; reflexivity. Qed.
