(* Impl layer: spec_parser.replace_operators - the textual preprocessing of guard expressions:
     pattern = re.compile(r"\!(?!=)|\^|\bv\b");  "!" -> "not ", "^" -> " and ", "v" -> " or "
   on texts as lists of character codes.  A word character is what the regex engine's \w is for ASCII
   (letters, digits, underscore) and for the letters of Latin-1; \b holds between a word and a non-word character (or a text end).
   No proofs here. *)
From Coq Require Import List Arith Bool.
Import ListNotations.

Definition is_word (c : nat) : bool :=
  (Nat.leb 48 c && Nat.leb c 57)          (* 0-9 *)
  || (Nat.leb 65 c && Nat.leb c 90)       (* A-Z *)
  || (Nat.leb 97 c && Nat.leb c 122)      (* a-z *)
  || Nat.eqb c 95                         (* _ *)
  (* the pattern is a str pattern: \w is Unicode-aware; of the non-ASCII characters the letters of Latin-1
     are modelled (À-ÿ without the two signs × and ÷) *)
  || (Nat.leb 192 c && Nat.leb c 255 && negb (Nat.eqb c 215) && negb (Nat.eqb c 247)).

Definition bang := 33.   Definition eq_sign := 61.   Definition caret := 94.   Definition vee := 118.
Definition s_not : list nat := [110; 111; 116; 32].            (* "not " *)
Definition s_and : list nat := [32; 97; 110; 100; 32].         (* " and " *)
Definition s_or : list nat := [32; 111; 114; 32].              (* " or " *)

(* [prev_word]: the character before the current position is a word character *)
Fixpoint replace_from (prev_word : bool) (s : list nat) : list nat :=
  match s with
  | [] => []
  | c :: r =>
      let next_word := match r with d :: _ => is_word d | [] => false end in
      let next_eq := match r with d :: _ => Nat.eqb d eq_sign | [] => false end in
      if Nat.eqb c bang && negb next_eq then s_not ++ replace_from false r
      else if Nat.eqb c caret then s_and ++ replace_from false r
      else if Nat.eqb c vee && negb prev_word && negb next_word then s_or ++ replace_from true r
      else c :: replace_from (is_word c) r
  end.

Definition replace_operators (s : list nat) : list nat := replace_from false s.
