(* Impl layer: model of statemachine/spec_parser.py build_expression (AST -> tree of closures:
   custom_and / custom_or / custom_not / comparison closures / constants / variable hooks) and, as
   the reference the property is stated against, of Python's own evaluation of the same expression.
   The AST is what ast.parse returns for the documented grammar.  No proofs here. *)
From Coq Require Import List Arith Bool ZArith.
Import ListNotations.
From PySM Require Export Base.PyVal.

Inductive cmpop := CEq | CNe | CLt | CLe | CGt | CGe.

(* n-ary BoolOp nodes are kept as (first operand, rest) so that they are never empty *)
Inductive expr :=
| EName (n : nat)
| EConst (v : pyval)
| ENot (e : expr)
| EAnd (e : expr) (r : list expr)
| EOr (e : expr) (r : list expr)
| ECmp (e : expr) (r : list (cmpop * expr)).

(* ---------- Python values: ==, <, truthiness ---------- *)
Definition num (v : pyval) : option Z :=
  match v with VBool b => Some (if b then 1 else 0)%Z | VInt z => Some z | _ => None end.

(* Python's == on the value kinds used in guards (bool is an int; different kinds are unequal) *)
Fixpoint py_eq (a b : pyval) : bool :=
  let fix go (l1 l2 : list pyval) : bool :=
    match l1, l2 with
    | [], [] => true
    | x :: xs, y :: ys => py_eq x y && go xs ys
    | _, _ => false
    end in
  match num a, num b with
  | Some x, Some y => Z.eqb x y
  | _, _ =>
      match a, b with
      | VNone, VNone => true
      | VStr x, VStr y => Nat.eqb x y
      | VList x, VList y => go x y
      | VTuple x, VTuple y => go x y
      | VOpaque i _, VOpaque j _ => Nat.eqb i j
      | _, _ => false
      end
  end.

(* Python's < : numbers with numbers, strings with strings (string n of the harness table sorts by
   n), anything else is a TypeError *)
Definition py_lt (a b : pyval) : option bool :=
  match num a, num b with
  | Some x, Some y => Some (Z.ltb x y)
  | _, _ => match a, b with
            | VStr x, VStr y => Some (Nat.ltb x y)
            | _, _ => None
            end
  end.

Definition py_cmp (op : cmpop) (a b : pyval) : option bool :=
  match op with
  | CEq => Some (py_eq a b)
  | CNe => Some (negb (py_eq a b))
  | CLt => py_lt a b
  | CGt => py_lt b a
  | CLe => match py_lt b a with Some r => Some (negb r) | None => None end
  | CGe => match py_lt a b with Some r => Some (negb r) | None => None end
  end.

(* evaluation result: a value or TypeError, plus the names read (oldest first) *)
Inductive eres := EV (v : pyval) | ETypeError.
Definition env := nat -> pyval.

(* the n-ary / chained parts of Python's evaluation, over any evaluator of the operands *)
Section Rest.
  Variable ev : expr -> eres * list nat.

  (* `v and x1 and x2 ...` : v is the value of what stands before *)
  Fixpoint and_rest (v : pyval) (l : list expr) : eres * list nat :=
    match l with
    | [] => (EV v, [])
    | x :: r => if truthy v then
                  match ev x with
                  | (EV w, rd) => let '(res, rd') := and_rest w r in (res, rd ++ rd')
                  | (ETypeError, rd) => (ETypeError, rd)
                  end
                else (EV v, [])
    end.

  Fixpoint or_rest (v : pyval) (l : list expr) : eres * list nat :=
    match l with
    | [] => (EV v, [])
    | x :: r => if truthy v then (EV v, [])
                else match ev x with
                     | (EV w, rd) => let '(res, rd') := or_rest w r in (res, rd ++ rd')
                     | (ETypeError, rd) => (ETypeError, rd)
                     end
    end.

  (* a < b < c : each operand evaluated once; stops at the first false comparison *)
  Fixpoint cmp_rest (left : pyval) (l : list (cmpop * expr)) : eres * list nat :=
    match l with
    | [] => (EV (VBool true), [])
    | (op, x) :: r =>
        match ev x with
        | (EV w, rd) =>
            match py_cmp op left w with
            | None => (ETypeError, rd)
            | Some false => (EV (VBool false), rd)
            | Some true => let '(res, rd') := cmp_rest w r in (res, rd ++ rd')
            end
        | (ETypeError, rd) => (ETypeError, rd)
        end
    end.
End Rest.

Section Eval.
  Variable rho : env.

  (* ---------- Python's own semantics ---------- *)
  Fixpoint py_eval (e : expr) : eres * list nat :=
    match e with
    | EName n => (EV (rho n), [n])
    | EConst v => (EV v, [])
    | ENot x => match py_eval x with
                | (EV v, rd) => (EV (VBool (negb (truthy v))), rd)
                | r => r
                end
    | EAnd x r => match py_eval x with
                  | (EV v, rd) => let '(res, rd') := and_rest py_eval v r in (res, rd ++ rd')
                  | r0 => r0
                  end
    | EOr x r => match py_eval x with
                 | (EV v, rd) => let '(res, rd') := or_rest py_eval v r in (res, rd ++ rd')
                 | r0 => r0
                 end
    | ECmp x r => match py_eval x with
                  | (EV v, rd) => match r with
                                  | [] => (EV v, rd)
                                  | _ => let '(res, rd') := cmp_rest py_eval v r in (res, rd ++ rd')
                                  end
                  | r0 => r0
                  end
    end.

  (* ---------- the library's closure tree ---------- *)
  Inductive closure :=
  | KVar (n : nat)                       (* variable_hook(name) *)
  | KConst (v : pyval)                   (* build_constant *)
  | KNot (k : closure)                   (* custom_not *)
  | KAnd (a b : closure)                 (* custom_and *)
  | KOr (a b : closure)                  (* custom_or *)
  | KCmp (op : cmpop) (a b : closure).   (* build_custom_operator(op)(left, right) *)

  Fixpoint eval_closure (k : closure) : eres * list nat :=
    match k with
    | KVar n => (EV (rho n), [n])
    | KConst v => (EV v, [])
    | KNot a => match eval_closure a with
                | (EV v, rd) => (EV (VBool (negb (truthy v))), rd)
                | r => r
                end
    | KAnd a b => match eval_closure a with
                  | (EV v, rd) => if truthy v then
                                    let '(res, rd') := eval_closure b in (res, rd ++ rd')
                                  else (EV v, rd)
                  | r => r
                  end
    | KOr a b => match eval_closure a with
                 | (EV v, rd) => if truthy v then (EV v, rd)
                                 else let '(res, rd') := eval_closure b in (res, rd ++ rd')
                 | r => r
                 end
    | KCmp op a b =>
        match eval_closure a with
        | (EV v, rd) =>
            match eval_closure b with
            | (EV w, rd') => match py_cmp op v w with
                             | Some r => (EV (VBool r), rd ++ rd')
                             | None => (ETypeError, rd ++ rd')
                             end
            | (ETypeError, rd') => (ETypeError, rd ++ rd')
            end
        | r => r
        end
    end.
End Eval.

(* build_expression *)
Section BuildRest.
  Variable bld : expr -> closure.
  Fixpoint fold_and (acc : closure) (l : list expr) : closure :=
    match l with [] => acc | x :: r => fold_and (KAnd acc (bld x)) r end.
  Fixpoint fold_or (acc : closure) (l : list expr) : closure :=
    match l with [] => acc | x :: r => fold_or (KOr acc (bld x)) r end.
  (* comparisons pairwise (the middle operand's closure is shared by two comparisons) *)
  Fixpoint pairs (left : closure) (l : list (cmpop * expr)) : list closure :=
    match l with
    | [] => []
    | (op, x) :: r => let kx := bld x in KCmp op left kx :: pairs kx r
    end.
End BuildRest.

Fixpoint build (e : expr) : closure :=
  match e with
  | EName n => KVar n
  | EConst v => KConst v
  | ENot x => KNot (build x)
  | EAnd x r => fold_and build (build x) r
  | EOr x r => fold_or build (build x) r
  | ECmp x r => match pairs build (build x) r with
                | [] => build x
                | c :: cs => fold_left KAnd cs c      (* reduce(custom_and, expressions) *)
                end
  end.

(* a guard entry: bool(value) == expected, an exception propagates *)
Definition guard_holds (rho : env) (e : expr) (expected : bool) : option bool :=
  match fst (eval_closure rho (build e)) with
  | EV v => Some (Bool.eqb (truthy v) expected)
  | ETypeError => None
  end.
