(* Impl layer: model of how callbacks get attached - Transition.__init__/_setup, State.__init__/_setup
   (which specs exist), CallbackSpecList._add (spec de-duplication by (func, group)),
   dispatcher.Listeners.resolve/build/search_name/_take_callback (which providers supply a name; a
   guard name supplied by several providers of one resolution round becomes ONE conjunction),
   CallbacksExecutor.add (de-duplication by unique key) and CallbacksRegistry.check
   (a non-convention name nobody provides => InvalidDefinition at instantiation).
   Order inside an executor (priorities) is not modelled: the properties leave it unconstrained. *)
From Coq Require Import List Arith Bool.
Import ListNotations.
From PySM Require Export Impl.Engine.

(* ---------- the declared (abstract) machine ---------- *)
Record tdecl := {
  d_src : nat; d_tgt : nat; d_events : list nat; d_internal : bool;
  d_validators : list cbname;
  d_cond : list (cbname * bool);          (* (name, true) = cond, (name, false) = unless; cond entries first *)
  d_before : list cbname; d_on : list cbname; d_after : list cbname }.

Record sdecl := { sd_enter : list cbname; sd_exit : list cbname }.

(* a provider is known by the callback-relevant attribute names it has *)
Definition provider := list cbname.

Record mdecl := {
  md_states : list sdecl;
  md_trans : list tdecl;
  md_start : nat;
  md_rtc : bool;
  md_allow : bool;
  md_providers : list provider;           (* index 0 = machine, 1 = model, 2.. = listeners *)
  md_coro : list cbref;                   (* the callbacks written as `async def` *)
  md_rounds : list (list nat);            (* resolution rounds: head = constructor (machine, model,
                                             constructor listeners), then one per add_listener call *)
  md_erounds : nat }.                     (* how many of the rounds were resolved when the engine was chosen
                                             (1 for a constructed machine, 2 for a clone) *)

Record spec := { sp_name : cbname; sp_conv : bool; sp_evcond : option nat; sp_expected : option bool }.

Definition inline (n : cbname) : spec :=
  {| sp_name := n; sp_conv := false; sp_evcond := None; sp_expected := None |}.
Definition conv (n : cbname) (e : option nat) : spec :=
  {| sp_name := n; sp_conv := true; sp_evcond := e; sp_expected := None |}.
Definition guard (nb : cbname * bool) : spec :=
  {| sp_name := fst nb; sp_conv := false; sp_evcond := None; sp_expected := Some (snd nb) |}.

(* CallbackSpecList._add: `if spec in self.items: return` with __eq__ on (func, group) *)
Fixpoint dedup_specs (seen : list cbname) (l : list spec) : list spec :=
  match l with
  | [] => []
  | s :: r =>
      if existsb (cbname_eqb (sp_name s)) seen then dedup_specs seen r
      else s :: dedup_specs (sp_name s :: seen) r
  end.

Definition trans_specs (t : tdecl) (g : group) : list spec :=
  dedup_specs []
    match g with
    | GValidators => map inline (d_validators t)
    | GCond => map guard (d_cond t)
    | GBefore => map inline (d_before t) ++ [conv NBeforeTransition None]
                 ++ map (fun e => conv (NBeforeEv e) (Some e)) (d_events t)
    | GOn => map inline (d_on t) ++ [conv NOnTransition None]
             ++ map (fun e => conv (NOnEv e) (Some e)) (d_events t)
    | GAfter => map inline (d_after t)
                ++ map (fun e => conv (NAfterEv e) (Some e)) (d_events t)
                ++ [conv NAfterTransition None]
    | GExit | GEnter => []
    end.

Definition state_specs (s : nat) (sd : sdecl) (g : group) : list spec :=
  dedup_specs []
    match g with
    | GEnter => map inline (sd_enter sd) ++ [conv NEnterState None; conv (NEnterS s) None]
    | GExit => map inline (sd_exit sd) ++ [conv NExitState None; conv (NExitS s) None]
    | _ => []
    end.

Section Resolve.
  Variable provs : list provider.

  Definition has_attr (p : nat) (n : cbname) : bool :=
    match nth_error provs p with Some attrs => existsb (cbname_eqb n) attrs | None => false end.

  Definition mkw (sp : spec) (cbs : list cbref) : wrapper :=
    {| w_cbs := cbs; w_evcond := sp_evcond sp; w_expected := sp_expected sp |}.

  (* Listeners.build for one spec against the providers of one round *)
  Definition resolve_spec (g : group) (round : list nat) (sp : spec) : list wrapper :=
    let have := filter (fun p => has_attr p (sp_name sp)) round in
    match g with
    | GCond =>
        match have with
        | [] => []
        | _ => [mkw sp (map (fun p => {| cb_prov := p; cb_name := sp_name sp |}) have)]
        end
    | _ => map (fun p => mkw sp [{| cb_prov := p; cb_name := sp_name sp |}]) have
    end.

  Definition same_key (a b : wrapper) : bool := list_eqb cbref_eqb (w_cbs a) (w_cbs b).

  (* CallbacksExecutor.add *)
  Definition executor_add (ex : list wrapper) (w : wrapper) : list wrapper :=
    if existsb (same_key w) ex then ex else ex ++ [w].

  Definition resolve_round (g : group) (specs : list spec) (ex : list wrapper) (round : list nat)
    : list wrapper :=
    fold_left (fun ex sp => fold_left executor_add (resolve_spec g round sp) ex) specs ex.

  Definition resolve_group (g : group) (specs : list spec) (rounds : list (list nat)) : list wrapper :=
    fold_left (resolve_round g specs) rounds [].

  (* CallbacksRegistry.check after the constructor round *)
  Definition check_group (g : group) (specs : list spec) (rounds : list (list nat)) : bool :=
    let ex := resolve_round g specs [] (hd [] rounds) in
    forallb (fun sp => sp_conv sp
                       || existsb (fun w => match w_cbs w with
                                            | cb :: _ => cbname_eqb (cb_name cb) (sp_name sp)
                                            | [] => false end) ex) specs.
End Resolve.

Definition all_groups : list group := [GValidators; GCond; GBefore; GExit; GOn; GEnter; GAfter].

Definition resolve_trans (md : mdecl) (t : tdecl) : rtrans :=
  let r g := resolve_group (md_providers md) g (trans_specs t g) (md_rounds md) in
  {| rt_src := d_src t; rt_tgt := d_tgt t; rt_events := d_events t; rt_internal := d_internal t;
     rt_validators := r GValidators; rt_cond := r GCond; rt_before := r GBefore; rt_on := r GOn;
     rt_after := r GAfter |}.

Fixpoint mapi {A B} (f : nat -> A -> B) (i : nat) (l : list A) : list B :=
  match l with [] => [] | x :: r => f i x :: mapi f (S i) r end.

Definition resolve_state (md : mdecl) (s : nat) (sd : sdecl) : rstate :=
  let r g := resolve_group (md_providers md) g (state_specs s sd g) (md_rounds md) in
  {| rs_enter := r GEnter; rs_exit := r GExit |}.

(* CallbacksRegistry.async_or_sync: a wrapper counts as coroutine when it wraps exactly one callable
   and that callable is a coroutine function (a conjunction of several providers is a plain closure) *)
Definition wrapper_is_coro (md : mdecl) (w : wrapper) : bool :=
  match w_cbs w with
  | [c] => existsb (cbref_eqb c) (md_coro md)
  | _ => false
  end.

Definition trans_wrappers (t : rtrans) : list wrapper :=
  rt_validators t ++ rt_cond t ++ rt_before t ++ rt_on t ++ rt_after t.

Definition resolve_all (md : mdecl) : rmachine :=
  let ss := mapi (resolve_state md) 0 (md_states md) in
  let ts := map (resolve_trans md) (md_trans md) in
  {| rm_states := ss; rm_trans := ts;
     rm_start := md_start md; rm_rtc := md_rtc md; rm_allow := md_allow md;
     rm_async := existsb (wrapper_is_coro md)
                   (flat_map trans_wrappers ts ++ flat_map (fun s => rs_enter s ++ rs_exit s) ss) |}.

Definition with_rounds (md : mdecl) (r : list (list nat)) : mdecl :=
  {| md_states := md_states md; md_trans := md_trans md; md_start := md_start md; md_rtc := md_rtc md;
     md_allow := md_allow md; md_providers := md_providers md; md_coro := md_coro md; md_rounds := r;
     md_erounds := md_erounds md |}.

Definition with_erounds (md : mdecl) (n : nat) : mdecl :=
  {| md_states := md_states md; md_trans := md_trans md; md_start := md_start md; md_rtc := md_rtc md;
     md_allow := md_allow md; md_providers := md_providers md; md_coro := md_coro md; md_rounds := md_rounds md;
     md_erounds := n |}.

(* the engine (sync or async) is chosen once, from what the constructor registered; listeners added
   later extend the executors but never change the engine *)
Definition resolve (md : mdecl) : rmachine :=
  let r := resolve_all md in
  {| rm_states := rm_states r; rm_trans := rm_trans r; rm_start := rm_start r; rm_rtc := rm_rtc r;
     rm_allow := rm_allow r;
     rm_async := rm_async (resolve_all (with_rounds md (firstn (md_erounds md) (md_rounds md)))) |}.

(* add_listener( *objs ): one more resolution round *)
Definition add_round (md : mdecl) (ps : list nat) : mdecl := with_rounds md (md_rounds md ++ [ps]).

(* StateMachine() raises InvalidDefinition iff this is false *)
Definition check_ok (md : mdecl) : bool :=
  forallb (fun t => forallb (fun g => check_group (md_providers md) g (trans_specs t g) (md_rounds md))
                            all_groups) (md_trans md)
  && forallb (fun b => b)
       (mapi (fun s sd => forallb (fun g => check_group (md_providers md) g (state_specs s sd g) (md_rounds md))
                                  all_groups) 0 (md_states md)).
