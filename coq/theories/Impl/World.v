(* Impl layer: the process-wide signature cache of signature.py (signature_cache / _make_key):
   a dictionary from a key computed from the callable (qualified name, class name, variable names)
   to the adapter built the first time a callable with that key was seen.  No proofs here. *)
From Coq Require Import List Arith Bool.
Import ListNotations.
From PySM Require Export Impl.Signature.

Record callable := { c_key : nat;                 (* what _make_key computes *)
                     c_sig : list param;          (* its real signature *)
                     c_coro : bool }.             (* whether it is a coroutine function *)

Definition adapter := (list param * bool)%type.   (* SignatureAdapter: parameters + is_coroutine *)

Definition own (f : callable) : adapter := (c_sig f, c_coro f).

Definition cache := list (nat * adapter).

Fixpoint cache_get (k : nat) (c : cache) : option adapter :=
  match c with
  | [] => None
  | (k', a) :: r => if Nat.eqb k k' then Some a else cache_get k r
  end.

(* SignatureAdapter.from_callable through the cache *)
Definition from_callable (f : callable) (c : cache) : adapter * cache :=
  match cache_get (c_key f) c with
  | Some a => (a, c)
  | None => (own f, (c_key f, own f) :: c)
  end.

(* any sequence of bindings made anywhere in the process (other machines, other classes, other
   definitions), then the binding of [f] *)
Fixpoint bind_all (fs : list callable) (c : cache) : cache :=
  match fs with
  | [] => c
  | g :: r => bind_all r (snd (from_callable g c))
  end.

Definition bind_after (others : list callable) (f : callable) : adapter :=
  fst (from_callable f (bind_all others [])).
