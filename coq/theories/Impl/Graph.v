(* Impl layer: model of statemachine/graph.py (visit_connected_states) and of the
   metaclass checks in statemachine/factory.py (_check and friends), together with the
   Transition constructor check "internal => self transition" and the expansion of
   from_.any() onto every non-final state (state.py AnyState._on_event_defined).
   No proofs in this file: it must evaluate even when a proof is broken. *)
From Coq Require Import List Arith Bool.
Import ListNotations.

Record gstate := { g_initial : bool; g_final : bool }.

(* an explicit transition [src.to(tgt)] / [tgt.from_(src)]; [g_hasev] says whether it is bound to
   an event (assigned to a class attribute or given event=...) *)
Record gtrans := { g_src : nat; g_tgt : nat; g_internal : bool; g_hasev : bool }.

(* [name = tgt.from_.any(internal=...)] *)
Record gany := { a_tgt : nat; a_internal : bool }.

Record classdef := {
  cd_states : list gstate;
  cd_trans  : list gtrans;
  cd_any    : list gany;
  cd_strict : bool }.

Definition nstates (cd : classdef) : nat := length (cd_states cd).

Definition is_final (cd : classdef) (s : nat) : bool :=
  match nth_error (cd_states cd) s with Some st => g_final st | None => false end.
Definition is_initial (cd : classdef) (s : nat) : bool :=
  match nth_error (cd_states cd) s with Some st => g_initial st | None => false end.

(* ---- from_.any(): one copy of the transition per non-final state, in state order ---- *)
Definition expand_any (cd : classdef) (a : gany) : list gtrans :=
  map (fun s => {| g_src := s; g_tgt := a_tgt a; g_internal := false; g_hasev := true |})
      (filter (fun s => negb (is_final cd s)) (seq 0 (nstates cd))).

Definition all_edges (cd : classdef) : list gtrans :=
  cd_trans cd ++ flat_map (expand_any cd) (cd_any cd).

Definition succs (es : list gtrans) (s : nat) : list nat :=
  map g_tgt (filter (fun t => Nat.eqb (g_src t) s) es).

Definition mem (s : nat) (l : list nat) : bool := existsb (Nat.eqb s) l.

(* ---- graph.py: deque + already_visited set; [seen] is kept newest first ---- *)
Fixpoint visit_loop (es : list gtrans) (fuel : nat) (work seen : list nat) : option (list nat) :=
  match fuel with
  | 0 => None
  | S f =>
      match work with
      | [] => Some seen
      | s :: w =>
          if mem s seen then visit_loop es f w seen
          else visit_loop es f (w ++ succs es s) (s :: seen)
      end
  end.

Definition visit_fuel (es : list gtrans) : nat := 2 + length es.

(* the set of states visited from [a] (empty only if fuel ran out, which never happens:
   Proofs/GraphProofs.v visit_fuel_enough) *)
Definition visit (es : list gtrans) (a : nat) : list nat :=
  match visit_loop es (visit_fuel es) [a] [] with Some l => l | None => [] end.

(* ---- factory.py checks, in the library's order ---- *)
Inductive errkind :=
  | EInternalNotSelf   (* raised by Transition.__init__ while the class body runs *)
  | ENoStates | ENoEvents | EInitial | EFinalHasTransitions | EUnreachable
  | ETrapStrict | ENoPathToFinalStrict.

Inductive verdict :=
  | Abstract                   (* no states and no events: accepted as an abstract base *)
  | Accepted (warned : bool)   (* class statement succeeds; [warned]: some UserWarning was emitted *)
  | Rejected (k : errkind).    (* class statement raises InvalidDefinition *)

Definition bad_internal (cd : classdef) : bool :=
  existsb (fun t => g_internal t && negb (Nat.eqb (g_src t) (g_tgt t))) (cd_trans cd)
  || existsb a_internal (cd_any cd).

Definition has_events (cd : classdef) : bool :=
  existsb g_hasev (cd_trans cd) || negb (Nat.eqb (length (cd_any cd)) 0).

Definition initials (cd : classdef) : list nat :=
  filter (is_initial cd) (seq 0 (nstates cd)).

Definition has_out (es : list gtrans) (s : nat) : bool :=
  existsb (fun t => Nat.eqb (g_src t) s) es.

Definition final_with_transitions (cd : classdef) : bool :=
  existsb (fun s => is_final cd s && has_out (all_edges cd) s) (seq 0 (nstates cd)).

Definition unreachable (cd : classdef) (i : nat) : list nat :=
  filter (fun s => negb (mem s (visit (all_edges cd) i))) (seq 0 (nstates cd)).

Definition trap_states (cd : classdef) : list nat :=
  filter (fun s => negb (is_final cd s) && negb (has_out (all_edges cd) s)) (seq 0 (nstates cd)).

Definition has_finals (cd : classdef) : bool :=
  existsb (is_final cd) (seq 0 (nstates cd)).

Definition no_path_to_final (cd : classdef) : list nat :=
  filter (fun s => negb (is_final cd s)
                   && negb (existsb (is_final cd) (visit (all_edges cd) s)))
         (seq 0 (nstates cd)).

Definition nonempty {A} (l : list A) : bool := match l with [] => false | _ => true end.

Definition accepts (cd : classdef) : verdict :=
  if bad_internal cd then Rejected EInternalNotSelf else
  let hs := nonempty (cd_states cd) in
  let he := has_events cd in
  if negb hs && negb he then Abstract else
  if negb hs then Rejected ENoStates else
  if negb he then Rejected ENoEvents else
  match initials cd with
  | [i] =>
      if final_with_transitions cd then Rejected EFinalHasTransitions else
      if nonempty (unreachable cd i) then Rejected EUnreachable else
      let trap := nonempty (trap_states cd) in
      if trap && cd_strict cd then Rejected ETrapStrict else
      let nopath := has_finals cd && nonempty (no_path_to_final cd) in
      if nopath && cd_strict cd then Rejected ENoPathToFinalStrict else
      Accepted (trap || nopath)
  | _ => Rejected EInitial
  end.

(* observable compared with the implementation: 0 accepted silently, 1 accepted with a warning,
   2 InvalidDefinition *)
Definition obs_of (v : verdict) : nat :=
  match v with
  | Abstract => 0
  | Accepted false => 0
  | Accepted true => 1
  | Rejected _ => 2
  end.
