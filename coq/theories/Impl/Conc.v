(* Impl layer: several senders (OS threads, or asyncio tasks) calling send() on one machine
   concurrently - the protocol of Event.__call__ / processing_loop (engines/sync.py, async_.py):
   put the trigger; try to take the processing lock without blocking, the loser returns at once;
   the winner drains the queue FIFO, processing one trigger at a time, and releases the lock when it
   finds the queue empty; (threads) after releasing it looks at the queue once more and starts over
   if something arrived in between.  A small-step system over schedules (lists of thread ids).
   Granularity: [Line] (threads: the emptiness test and the release are separate steps, any thread
   may run in between) or [Await] (asyncio tasks: there is no suspension point between the test and
   the release).  No proofs here. *)
From Coq Require Import List Arith Bool.
Import ListNotations.

Inductive granularity := Line | Await.

Definition event := (nat * nat)%type.          (* (sender, sequence number) *)

Inductive pc :=
| Idle          (* between two sends (or finished) *)
| Acq           (* has put its trigger, about to try the lock *)
| Test          (* holds the lock, at the head of `while self._external_queue` *)
| Proc          (* holds the lock, callbacks of the popped trigger are running *)
| Rel           (* saw the queue empty, about to release the lock (Line granularity only) *)
| Recheck.      (* released the lock, about to look at the queue once more (Line granularity only) *)

Record tstate := { t_pc : pc; t_todo : list event }.

Inductive marker := Begin (e : event) (by_thread : nat) | End (e : event) (by_thread : nat).

Record world := {
  w_queue : list event;
  w_holder : option nat;                (* who holds the processing lock *)
  w_log : list marker;                  (* oldest first *)
  w_threads : nat -> tstate }.

Definition upd (w : nat -> tstate) (t : nat) (s : tstate) : nat -> tstate :=
  fun t' => if Nat.eqb t' t then s else w t'.

Definition set_pc (s : tstate) (p : pc) : tstate := {| t_pc := p; t_todo := t_todo s |}.

(* one step of thread [t]; a thread that has nothing to do stutters *)
Definition step (g : granularity) (w : world) (t : nat) : world :=
  let s := w_threads w t in
  match t_pc s with
  | Idle =>
      match t_todo s with
      | [] => w
      | e :: r =>                          (* put: append to the shared deque *)
          {| w_queue := w_queue w ++ [e]; w_holder := w_holder w; w_log := w_log w;
             w_threads := upd (w_threads w) t {| t_pc := Acq; t_todo := r |} |}
      end
  | Acq =>
      match w_holder w with
      | Some _ =>                          (* acquire(blocking=False) fails: return None *)
          {| w_queue := w_queue w; w_holder := w_holder w; w_log := w_log w;
             w_threads := upd (w_threads w) t (set_pc s Idle) |}
      | None =>
          {| w_queue := w_queue w; w_holder := Some t; w_log := w_log w;
             w_threads := upd (w_threads w) t (set_pc s Test) |}
      end
  | Test =>
      match w_queue w with
      | e :: q =>                          (* popleft; the callbacks of e begin *)
          {| w_queue := q; w_holder := w_holder w; w_log := w_log w ++ [Begin e t];
             w_threads := upd (w_threads w) t (set_pc s Proc) |}
      | [] =>
          match g with
          | Line =>                        (* leaves the loop; the release is a later step *)
              {| w_queue := []; w_holder := w_holder w; w_log := w_log w;
                 w_threads := upd (w_threads w) t (set_pc s Rel) |}
          | Await =>                       (* no suspension point before the release *)
              {| w_queue := []; w_holder := None; w_log := w_log w;
                 w_threads := upd (w_threads w) t (set_pc s Idle) |}
          end
      end
  | Proc =>                                (* the callbacks of the current trigger end *)
      let e := match rev (w_log w) with Begin e _ :: _ => e | _ => (0, 0) end in
      {| w_queue := w_queue w; w_holder := w_holder w; w_log := w_log w ++ [End e t];
         w_threads := upd (w_threads w) t (set_pc s Test) |}
  | Rel =>
      {| w_queue := w_queue w; w_holder := None; w_log := w_log w;
         w_threads := upd (w_threads w) t (set_pc s Recheck) |}
  | Recheck =>                             (* `if self._external_queue: self.processing_loop()` *)
      {| w_queue := w_queue w; w_holder := w_holder w; w_log := w_log w;
         w_threads := upd (w_threads w) t (set_pc s (match w_queue w with [] => Idle | _ => Acq end)) |}
  end.

Definition run (g : granularity) (sched : list nat) (w : world) : world := fold_left (step g) sched w.

(* sender [t] sends the events (t,0) .. (t,n-1) *)
Definition sends (t n : nat) : list event := map (fun k => (t, k)) (seq 0 n).

Definition init (plan : nat -> nat) : world :=
  {| w_queue := []; w_holder := None; w_log := [];
     w_threads := fun t => {| t_pc := Idle; t_todo := sends t (plan t) |} |}.

(* the events whose processing has begun, in order *)
Definition begun (l : list marker) : list event :=
  flat_map (fun m => match m with Begin e _ => [e] | End _ _ => [] end) l.

Definition finished (w : world) (t : nat) : bool :=
  match t_pc (w_threads w t), t_todo (w_threads w t) with Idle, [] => true | _, _ => false end.

(* well-bracketed log: Begin e t is immediately followed by End e t *)
Fixpoint bracketed (l : list marker) : bool :=
  match l with
  | [] => true
  | Begin e t :: End e' t' :: r =>
      Nat.eqb (fst e) (fst e') && Nat.eqb (snd e) (snd e') && Nat.eqb t t' && bracketed r
  | [Begin _ _] => true                   (* a block still open at the end *)
  | _ => false
  end.
