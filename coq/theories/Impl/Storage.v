(* Impl layer: model of how the current state is stored (statemachine.py: model defaulting,
   current_state_value getter / setter, current_state, _get_initial_state with start_value;
   state.py InstanceState.is_active; engines/base.py start()).  The machine has no callbacks here:
   an event fires the first transition leaving the current state that is bound to it.
   No proofs here. *)
From Coq Require Import List Arith Bool ZArith.
Import ListNotations.
From PySM Require Export Base.PyVal Impl.Guards.

Record smach := {
  sm_values : list pyval;                  (* the value of each state, in declaration order *)
  sm_initial : nat;
  sm_trans : list (nat * nat * nat) }.     (* (source, event, target) in declaration order *)

(* states_map: dict lookup by Python equality *)
Fixpoint state_of (vs : list pyval) (v : pyval) (i : nat) : option nat :=
  match vs with
  | [] => None
  | w :: r => if py_eq v w then Some i else state_of r v (S i)
  end.

Definition lookup_state (m : smach) (v : pyval) : option nat := state_of (sm_values m) v 0.

Definition value_of (m : smach) (s : nat) : pyval := nth s (sm_values m) VNone.

(* what the user's model object stores under state_field: None or any Python value *)
Definition store := option pyval.

Inductive sres := SOk | SInvalidStateValue | SNotAllowed.

Inductive sop :=
| SSend (e : nat)                (* sm.send(e) *)
| SSet (v : pyval)               (* sm.current_state_value = v       (validated setter) *)
| SExt (v : option pyval).       (* setattr(model, state_field, v)   (external write, anything) *)

(* current_state: the state whose value is stored, else InvalidStateValue *)
Definition current_state (m : smach) (st : store) : option nat :=
  match st with None => None | Some v => lookup_state m v end.

(* is_active of every state: compares the state with current_state *)
Definition active_flags (m : smach) (st : store) : option (list bool) :=
  match current_state m st with
  | None => None
  | Some s => Some (map (fun i => Nat.eqb i s) (seq 0 (length (sm_values m))))
  end.

Definition fire (m : smach) (s e : nat) : option nat :=
  match find (fun t => let '(a, ev, _) := t in Nat.eqb a s && Nat.eqb ev e) (sm_trans m) with
  | Some (_, _, tgt) => Some tgt
  | None => None
  end.

Definition sstep (m : smach) (st : store) (o : sop) : store * sres :=
  match o with
  | SSend e =>
      match current_state m st with
      | None => (st, SInvalidStateValue)
      | Some s => match fire m s e with
                  | Some tgt => (Some (value_of m tgt), SOk)
                  | None => (st, SNotAllowed)
                  end
      end
  | SSet v =>
      match lookup_state m v with
      | Some _ => (Some v, SOk)
      | None => (st, SInvalidStateValue)        (* nothing is stored *)
      end
  | SExt v => (v, SOk)
  end.

(* construction: start() stores the start state's value only when the model holds None;
   start_value (any non-None value, falsy ones included) selects the start state *)
Definition sconstruct (m : smach) (start_value : option pyval) (st : store) : store * sres :=
  match st with
  | Some _ => (st, SOk)
  | None =>
      match start_value with
      | None => (Some (value_of m (sm_initial m)), SOk)
      | Some v => match lookup_state m v with
                  | Some s => (Some (value_of m s), SOk)
                  | None => (None, SInvalidStateValue)
                  end
      end
  end.

Record sobs := { so_res : sres; so_store : store; so_current : option nat; so_active : option (list bool) }.

Definition observe (m : smach) (r : sres) (st : store) : sobs :=
  {| so_res := r; so_store := st; so_current := current_state m st; so_active := active_flags m st |}.

Fixpoint srun (m : smach) (st : store) (ops : list sop) : list sobs :=
  match ops with
  | [] => []
  | o :: r => let '(st1, res) := sstep m st o in observe m res st1 :: srun m st1 r
  end.

Definition srun_all (m : smach) (start_value : option pyval) (st0 : store) (ops : list sop) : list sobs :=
  let '(st1, res) := sconstruct m start_value st0 in
  observe m res st1 :: match res with SOk => srun m st1 ops | _ => [] end.

(* the state values of a machine must be pairwise different (as dict keys) for the map to be a
   bijection; the library does not check it *)
Fixpoint distinct_values (vs : list pyval) : bool :=
  match vs with
  | [] => true
  | v :: r => negb (existsb (py_eq v) r) && distinct_values r
  end.
