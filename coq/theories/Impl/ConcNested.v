(* Impl layer: the concurrent-senders protocol of Impl/Conc.v extended with callbacks that themselves
   send events while they run (nested sends): the callbacks of an event e put the events
   [children e] one by one; each of those sends finds the processing lock taken (by the very thread
   that runs the callback - the lock is not re-entrant) and returns None at once, so a nested send is
   one step: the put.  A ghost component records every put in order.  No proofs here. *)
From Coq Require Import List Arith Bool.
Import ListNotations.
From PySM Require Export Impl.Conc.

Section Nested.
  Variable children : event -> list event.

  Record nstate := { n_pc : pc; n_todo : list event; n_cur : option event; n_kids : list event }.

  Record nworld := {
    nw_queue : list event;
    nw_holder : option nat;
    nw_log : list marker;
    nw_puts : list event;                 (* ghost: every event ever put, in put order *)
    nw_threads : nat -> nstate }.

  Definition nupd (w : nat -> nstate) (t : nat) (s : nstate) : nat -> nstate :=
    fun t' => if Nat.eqb t' t then s else w t'.

  Definition with_pc (s : nstate) (p : pc) : nstate :=
    {| n_pc := p; n_todo := n_todo s; n_cur := n_cur s; n_kids := n_kids s |}.

  Definition nstep (g : granularity) (w : nworld) (t : nat) : nworld :=
    let s := nw_threads w t in
    match n_pc s with
    | Idle =>
        match n_todo s with
        | [] => w
        | e :: r =>
            {| nw_queue := nw_queue w ++ [e]; nw_holder := nw_holder w; nw_log := nw_log w;
               nw_puts := nw_puts w ++ [e];
               nw_threads := nupd (nw_threads w) t {| n_pc := Acq; n_todo := r; n_cur := None; n_kids := [] |} |}
        end
    | Acq =>
        match nw_holder w with
        | Some _ => {| nw_queue := nw_queue w; nw_holder := nw_holder w; nw_log := nw_log w; nw_puts := nw_puts w;
                       nw_threads := nupd (nw_threads w) t (with_pc s Idle) |}
        | None => {| nw_queue := nw_queue w; nw_holder := Some t; nw_log := nw_log w; nw_puts := nw_puts w;
                     nw_threads := nupd (nw_threads w) t (with_pc s Test) |}
        end
    | Test =>
        match nw_queue w with
        | e :: q =>
            {| nw_queue := q; nw_holder := nw_holder w; nw_log := nw_log w ++ [Begin e t]; nw_puts := nw_puts w;
               nw_threads := nupd (nw_threads w) t
                               {| n_pc := Proc; n_todo := n_todo s; n_cur := Some e; n_kids := children e |} |}
        | [] =>
            match g with
            | Line => {| nw_queue := []; nw_holder := nw_holder w; nw_log := nw_log w; nw_puts := nw_puts w;
                         nw_threads := nupd (nw_threads w) t (with_pc s Rel) |}
            | Await => {| nw_queue := []; nw_holder := None; nw_log := nw_log w; nw_puts := nw_puts w;
                          nw_threads := nupd (nw_threads w) t (with_pc s Idle) |}
            end
        end
    | Proc =>
        match n_kids s with
        | k :: ks =>                        (* a callback sends k: put; the try-lock fails; None *)
            {| nw_queue := nw_queue w ++ [k]; nw_holder := nw_holder w; nw_log := nw_log w;
               nw_puts := nw_puts w ++ [k];
               nw_threads := nupd (nw_threads w) t
                               {| n_pc := Proc; n_todo := n_todo s; n_cur := n_cur s; n_kids := ks |} |}
        | [] =>                             (* the callbacks of the current event end *)
            match n_cur s with
            | Some e =>
                {| nw_queue := nw_queue w; nw_holder := nw_holder w; nw_log := nw_log w ++ [End e t];
                   nw_puts := nw_puts w;
                   nw_threads := nupd (nw_threads w) t
                                   {| n_pc := Test; n_todo := n_todo s; n_cur := None; n_kids := [] |} |}
            | None => w
            end
        end
    | Rel => {| nw_queue := nw_queue w; nw_holder := None; nw_log := nw_log w; nw_puts := nw_puts w;
                nw_threads := nupd (nw_threads w) t (with_pc s Recheck) |}
    | Recheck =>
        {| nw_queue := nw_queue w; nw_holder := nw_holder w; nw_log := nw_log w; nw_puts := nw_puts w;
           nw_threads := nupd (nw_threads w) t (with_pc s (match nw_queue w with [] => Idle | _ => Acq end)) |}
    end.

  Definition nrun (g : granularity) (sched : list nat) (w : nworld) : nworld := fold_left (nstep g) sched w.

  Definition ninit (plan : nat -> list event) : nworld :=
    {| nw_queue := []; nw_holder := None; nw_log := []; nw_puts := [];
       nw_threads := fun t => {| n_pc := Idle; n_todo := plan t; n_cur := None; n_kids := [] |} |}.

  Definition nfinished (w : nworld) (t : nat) : Prop :=
    n_pc (nw_threads w t) = Idle /\ n_todo (nw_threads w t) = [].
End Nested.
