(* Impl layer: model of statemachine/engines/{base,sync}.py, event.py (Event.__call__), and of the
   executor part of callbacks.py (CallbacksExecutor.call / .all, CallbackWrapper.call), over a
   *resolved* machine (what Registry.resolve produces).  User callbacks are oracles: the n-th
   invocation of callback cb runs [beh cb n] (a list of actions - nested sends, raise - and a
   return value).  No proofs here. *)
From Coq Require Import List Arith Bool ZArith.
Import ListNotations.
From PySM Require Export Base.PyVal.

(* ---------- names, callbacks ---------- *)
Inductive group := GValidators | GCond | GBefore | GExit | GOn | GEnter | GAfter.

Definition group_idx (g : group) : nat :=
  match g with GValidators => 0 | GCond => 1 | GBefore => 2 | GExit => 3 | GOn => 4 | GEnter => 5 | GAfter => 6 end.

Inductive cbname :=
| NUser (n : nat)                                   (* any user-chosen attribute name *)
| NBeforeTransition | NOnTransition | NAfterTransition
| NBeforeEv (e : nat) | NOnEv (e : nat) | NAfterEv (e : nat)
| NEnterState | NExitState | NEnterS (s : nat) | NExitS (s : nat).

Definition cbname_code (n : cbname) : nat * nat :=
  match n with
  | NUser k => (0, k) | NBeforeTransition => (1, 0) | NOnTransition => (2, 0) | NAfterTransition => (3, 0)
  | NBeforeEv e => (4, e) | NOnEv e => (5, e) | NAfterEv e => (6, e)
  | NEnterState => (7, 0) | NExitState => (8, 0) | NEnterS s => (9, s) | NExitS s => (10, s)
  end.

Definition cbname_eqb (a b : cbname) : bool :=
  let '(x1, y1) := cbname_code a in let '(x2, y2) := cbname_code b in
  Nat.eqb x1 x2 && Nat.eqb y1 y2.

(* provider 0 = the machine, 1 = the model, 2.. = listeners *)
Record cbref := { cb_prov : nat; cb_name : cbname }.
Definition cbref_eqb (a b : cbref) : bool :=
  Nat.eqb (cb_prov a) (cb_prov b) && cbname_eqb (cb_name a) (cb_name b).

(* one CallbackWrapper of an executor.  [w_cbs] has one element for actions / validators; a guard
   name provided by several objects at construction is ONE wrapper whose value is the left-to-right
   `and` of the providers (dispatcher._take_callback + reduce(custom_and)) *)
Record wrapper := {
  w_cbs : list cbref;
  w_evcond : option nat;          (* Event.is_same_event: run only when the trigger is this event *)
  w_expected : option bool }.     (* cond => Some true, unless => Some false, actions => None *)

Record rtrans := {
  rt_src : nat; rt_tgt : nat; rt_events : list nat; rt_internal : bool;
  rt_validators : list wrapper; rt_cond : list wrapper;
  rt_before : list wrapper; rt_on : list wrapper; rt_after : list wrapper }.

Record rstate := { rs_enter : list wrapper; rs_exit : list wrapper }.

Record rmachine := {
  rm_states : list rstate;
  rm_trans : list rtrans;        (* declaration order; a state's list is the sub-sequence with that source *)
  rm_start : nat;                (* _get_initial_state(): start_value's state or the initial state *)
  rm_rtc : bool;
  rm_allow : bool;               (* allow_event_without_transition *)
  rm_async : bool }.             (* some registered callback is a coroutine function: AsyncEngine *)

(* ---------- triggers, exceptions, scripts ---------- *)
Record tdata := { td_ev : option nat;   (* None = "__initial__" *)
                  td_tag : nat }.       (* a user keyword argument travelling with the event *)

Inductive exn :=
| XUser (n : nat)                      (* raised by a user callback *)
| XNotAllowed (e : nat) (s : nat)      (* TransitionNotAllowed(event, state) *)
| XNoState                             (* InvalidStateValue: there is no current state *)
| XInvalidDef                          (* InvalidDefinition raised by the constructor *)
| XIndex.                              (* IndexError: pop from an empty deque *)

Inductive action :=
| ASend (e : nat) (tag : nat)          (* machine.send(e, tag=tag) from inside the callback *)
| ARaise (x : nat)
| AWrite (s : nat).                    (* machine.current_state_value = <value of state s>: the low-level API *)

Record script := { acts : list action; ret : pyval }.

Definition behaviour := cbref -> nat -> script.

(* behaviours whose callbacks never assign the state themselves (the low-level API is left alone) *)
Definition is_write (a : action) : bool := match a with AWrite _ => true | _ => false end.
Definition no_writes (beh : behaviour) : Prop := forall cb n, existsb is_write (acts (beh cb n)) = false.


(* the result of an executed transition is kept as (before results, on results) until it is handed
   to Python code, where it becomes [res_val]: None / the single value / the list *)
Definition unwrap (l : list pyval) : pyval :=
  match l with [] => VNone | [v] => v | _ => VList l end.
Definition pyres := (list pyval * list pyval)%type.
Definition res_val (r : pyres) : pyval := unwrap (fst r ++ snd r).
Definition no_res : pyres := ([], []).

(* what a callback observed (a returned value is kept as its two parts, see above) *)
Inductive nested_outcome := NReturned (v : pyres) | NRaised (x : exn).

Inductive entry :=
| ECall (act : nat) (g : group) (cb : cbref) (ev : option nat) (src : option nat) (tgt : nat)
        (state_kw : option nat) (csv : option nat) (tag : nat) (dep : nat)
| ENested (r : nested_outcome).

Record cfg := {
  field : option nat;             (* index of the state whose value the model stores; None = no state *)
  queue : list tdata;
  locked : bool;
  calls : list (cbref * nat);
  log : list entry;               (* newest first *)
  nact : nat;                     (* number of _activate calls so far *)
  depth : nat;                    (* live _trigger activations *)
  amb : bool;                     (* some group ran >= 2 callbacks one of which sends/raises: in-group order shows *)
  ambc : bool }.                  (* some guard list with >= 2 callbacks had a failing one: short-circuit order shows *)

Definition init_cfg (f : option nat) : cfg :=
  {| field := f; queue := []; locked := false; calls := []; log := []; nact := 0; depth := 0;
     amb := false; ambc := false |}.

Definition set_field c f := {| field := f; queue := queue c; locked := locked c; calls := calls c; log := log c; nact := nact c; depth := depth c; amb := amb c; ambc := ambc c |}.
Definition set_queue c q := {| field := field c; queue := q; locked := locked c; calls := calls c; log := log c; nact := nact c; depth := depth c; amb := amb c; ambc := ambc c |}.
Definition set_locked c l := {| field := field c; queue := queue c; locked := l; calls := calls c; log := log c; nact := nact c; depth := depth c; amb := amb c; ambc := ambc c |}.
Definition set_calls c k := {| field := field c; queue := queue c; locked := locked c; calls := k; log := log c; nact := nact c; depth := depth c; amb := amb c; ambc := ambc c |}.
Definition add_log c e := {| field := field c; queue := queue c; locked := locked c; calls := calls c; log := e :: log c; nact := nact c; depth := depth c; amb := amb c; ambc := ambc c |}.
Definition set_nact c n := {| field := field c; queue := queue c; locked := locked c; calls := calls c; log := log c; nact := n; depth := depth c; amb := amb c; ambc := ambc c |}.
Definition set_depth c d := {| field := field c; queue := queue c; locked := locked c; calls := calls c; log := log c; nact := nact c; depth := d; amb := amb c; ambc := ambc c |}.
Definition set_amb c b := {| field := field c; queue := queue c; locked := locked c; calls := calls c; log := log c; nact := nact c; depth := depth c; amb := b; ambc := ambc c |}.
Definition set_ambc c b := {| field := field c; queue := queue c; locked := locked c; calls := calls c; log := log c; nact := nact c; depth := depth c; amb := amb c; ambc := b |}.

Definition enqueue (td : tdata) (c : cfg) : cfg := set_queue c (queue c ++ [td]).

Inductive res (A : Type) :=
| Ok (c : cfg) (a : A)
| Exn (c : cfg) (x : exn)
| Fuel.
Arguments Ok {A}. Arguments Exn {A}. Arguments Fuel {A}.

Definition bind {A B} (r : res A) (k : cfg -> A -> res B) : res B :=
  match r with Ok c a => k c a | Exn c x => Exn c x | Fuel => Fuel end.
Notation "'do' ( c , a ) <- r ; k" := (bind r (fun c a => k)) (at level 200, c name, a name, r at level 100, k at level 200).

Fixpoint count_calls (cb : cbref) (k : list (cbref * nat)) : nat :=
  match k with
  | [] => 0
  | (cb', n) :: r => if cbref_eqb cb cb' then n else count_calls cb r
  end.

Fixpoint bump_calls (cb : cbref) (k : list (cbref * nat)) : list (cbref * nat) :=
  match k with
  | [] => [(cb, 1)]
  | (cb', n) :: r => if cbref_eqb cb cb' then (cb', S n) :: r else (cb', n) :: bump_calls cb r
  end.

(* the kwargs a callback receives for one _activate call *)
Record ctx := {
  x_act : nat; x_ev : option nat; x_src : option nat; x_tgt : nat;
  x_state : option nat;  (* the `state` keyword: source until the state is assigned, then target *)
  x_tag : nat }.

Definition with_state (x : ctx) (s : option nat) : ctx :=
  {| x_act := x_act x; x_ev := x_ev x; x_src := x_src x; x_tgt := x_tgt x; x_state := s; x_tag := x_tag x |}.

Section Engine.
  Variable beh : behaviour.
  (* what machine.send(...) does when called from inside a callback *)
  Variable nested : tdata -> cfg -> res pyres.
  Variable rm : rmachine.

  Fixpoint run_acts (l : list action) (c : cfg) : res unit :=
    match l with
    | [] => Ok c tt
    | ASend e tag :: r =>
        match nested {| td_ev := Some e; td_tag := tag |} c with
        | Ok c' v => run_acts r (add_log c' (ENested (NReturned v)))
        | Exn c' x => Exn (add_log c' (ENested (NRaised x))) x   (* the callback does not catch it *)
        | Fuel => Fuel
        end
    | ARaise x :: _ => Exn c (XUser x)
    | AWrite s :: r => run_acts r (set_field c (Some s))
    end.

  Definition run_cb (g : group) (x : ctx) (cb : cbref) (c : cfg) : res pyval :=
    let n := count_calls cb (calls c) in
    let s := beh cb n in
    let c1 := set_calls c (bump_calls cb (calls c)) in
    let c2 := add_log c1 (ECall (x_act x) g cb (x_ev x) (x_src x) (x_tgt x) (x_state x) (field c) (x_tag x) (depth c)) in
    do (c3, _u) <- run_acts (acts s) c2;
    Ok c3 (ret s).

  (* left-to-right `and` over the providers of one name: first falsy value, else the last value *)
  Fixpoint run_chain (g : group) (x : ctx) (cbs : list cbref) (c : cfg) : res pyval :=
    match cbs with
    | [] => Ok c (VBool true)          (* allways_true *)
    | [cb] => run_cb g x cb c
    | cb :: r =>
        do (c1, v) <- run_cb g x cb c;
        if truthy v then run_chain g x r c1 else Ok c1 v
    end.

  (* CallbackWrapper.call *)
  Definition run_wrapper (g : group) (x : ctx) (w : wrapper) (c : cfg) : res pyval :=
    do (c1, v) <- run_chain g x (w_cbs w) c;
    match w_expected w with
    | Some b => Ok c1 (VBool (Bool.eqb (truthy v) b))
    | None => Ok c1 v
    end.

  Definition admitted (x : ctx) (w : wrapper) : bool :=
    match w_evcond w with
    | None => true
    | Some e => match x_ev x with Some e' => Nat.eqb e e' | None => false end
    end.

  (* in-group order is left open by the documentation; it shows only when two callbacks of one group
     execution send events, or when one raises or assigns the state while another one is present (under rtc=False a send
     runs the nested event at once, so any acting callback next to another one shows it) *)
  Definition cur_script (c : cfg) (cb : cbref) : script := beh cb (count_calls cb (calls c)).
  Definition is_send (a : action) : bool := match a with ASend _ _ => true | _ => false end.
  Definition is_raise (a : action) : bool := match a with ARaise _ => true | _ => false end.
  Definition order_shows (c : cfg) (cbs : list cbref) : bool :=
    let scripts := map (cur_script c) cbs in
    let senders := length (filter (fun s => existsb is_send (acts s)) scripts) in
    let raisers := existsb (fun s => existsb is_raise (acts s)) scripts in
    let writers := existsb (fun s => existsb is_write (acts s)) scripts in
    let actors := existsb (fun s => match acts s with [] => false | _ => true end) scripts in
    Nat.ltb 1 (length cbs)
    && (if rm_rtc rm then Nat.ltb 1 senders || raisers || writers else actors).

  Definition ncbs (ws : list wrapper) : nat := length (flat_map w_cbs ws).

  (* CallbacksExecutor.call: every admitted wrapper, results collected *)
  Fixpoint call_list (g : group) (x : ctx) (ws : list wrapper) (c : cfg) : res (list pyval) :=
    match ws with
    | [] => Ok c []
    | w :: r =>
        do (c1, v) <- run_wrapper g x w c;
        do (c2, vs) <- call_list g x r c1;
        Ok c2 (v :: vs)
    end.

  Definition call_group (g : group) (x : ctx) (ws : list wrapper) (c : cfg) : res (list pyval) :=
    let adm := filter (admitted x) ws in
    let c0 := if order_shows c (flat_map w_cbs adm) then set_amb c true else c in
    call_list g x adm c0.

  (* CallbacksExecutor.all: stop at the first wrapper whose value is false *)
  Fixpoint all_list (g : group) (x : ctx) (ws : list wrapper) (c : cfg) : res bool :=
    match ws with
    | [] => Ok c true
    | w :: r =>
        do (c1, v) <- run_wrapper g x w c;
        if truthy v then all_list g x r c1 else Ok c1 false
    end.

  (* CallbacksExecutor.async_all: every guard coroutine is created and scheduled
     (asyncio.as_completed), so all of them run; the value is still the conjunction *)
  Fixpoint all_list_async (g : group) (x : ctx) (ws : list wrapper) (c : cfg) : res bool :=
    match ws with
    | [] => Ok c true
    | w :: r =>
        do (c1, v) <- run_wrapper g x w c;
        do (c2, b) <- all_list_async g x r c1;
        Ok c2 (truthy v && b)
    end.

  Definition all_group (g : group) (x : ctx) (ws : list wrapper) (c : cfg) : res bool :=
    let c0 := if order_shows c (flat_map w_cbs ws) then set_ambc (set_amb c true) true else c in
    do (c1, b) <- (if rm_async rm then all_list_async g x ws c0 else all_list g x ws c0);
    Ok (if negb b && Nat.ltb 1 (ncbs ws) && negb (rm_async rm) then set_ambc c1 true else c1) b.

  (* what _activate needs to know about the (pseudo-)transition *)
  Record atrans := {
    a_src : option nat; a_tgt : nat; a_internal : bool;
    a_validators : list wrapper; a_cond : list wrapper; a_before : list wrapper;
    a_exit : list wrapper; a_on : list wrapper; a_enter : list wrapper; a_after : list wrapper }.

  (* SyncEngine._activate, first half: validators, conditions, before, exit(source), on - everything
     that runs while the source is still the current state.  None = the candidate was rejected. *)
  Definition activate_pre (t : atrans) (x : ctx) (c : cfg) : res (option pyres) :=
    do (c, _v) <- call_group GValidators x (a_validators t) c;
    do (c, ok) <- all_group GCond x (a_cond t) c;
    if negb ok then Ok c None else
    do (c, rb) <- call_group GBefore x (a_before t) c;
    do (c, _e) <- (if a_internal t then Ok c [] else call_group GExit x (a_exit t) c);
    do (c, ro) <- call_group GOn x (a_on t) c;
    Ok c (Some (rb, ro)).

  (* second half: the single assignment of the state, then enter(target) and after *)
  Definition activate_post (t : atrans) (x : ctx) (c : cfg) : res unit :=
    let c := set_field c (Some (a_tgt t)) in
    let x := with_state x (Some (a_tgt t)) in
    do (c, _n) <- (if a_internal t then Ok c [] else call_group GEnter x (a_enter t) c);
    do (c, _a) <- call_group GAfter x (a_after t) c;
    Ok c tt.

  Definition act_ctx (t : atrans) (td : tdata) (c : cfg) : ctx :=
    {| x_act := nact c; x_ev := td_ev td; x_src := a_src t; x_tgt := a_tgt t;
       x_state := a_src t; x_tag := td_tag td |}.

  Definition activate (t : atrans) (td : tdata) (c : cfg) : res (bool * pyres) :=
    let x := act_ctx t td c in
    let c := set_nact c (S (nact c)) in
    do (c, r) <- activate_pre t x c;
    match r with
    | None => Ok c (false, no_res)
    | Some v => do (c, _u) <- activate_post t x c; Ok c (true, v)
    end.

  Definition state_enter (s : nat) : list wrapper :=
    match nth_error (rm_states rm) s with Some st => rs_enter st | None => [] end.
  Definition state_exit (s : nat) : list wrapper :=
    match nth_error (rm_states rm) s with Some st => rs_exit st | None => [] end.

  Definition atrans_of (t : rtrans) : atrans :=
    {| a_src := Some (rt_src t); a_tgt := rt_tgt t; a_internal := rt_internal t;
       a_validators := rt_validators t; a_cond := rt_cond t; a_before := rt_before t;
       a_exit := state_exit (rt_src t); a_on := rt_on t; a_enter := state_enter (rt_tgt t);
       a_after := rt_after t |}.

  (* BaseEngine._initial_transition: Transition(State(), start, event="__initial__") with cleared specs *)
  Definition initial_atrans : atrans :=
    {| a_src := None; a_tgt := rm_start rm; a_internal := false;
       a_validators := []; a_cond := []; a_before := []; a_exit := []; a_on := [];
       a_enter := state_enter (rm_start rm); a_after := [] |}.

  Definition matches (t : rtrans) (e : nat) : bool := existsb (Nat.eqb e) (rt_events t).

  (* the candidate loop of _trigger: first executed wins *)
  Fixpoint try_candidates (cands : list rtrans) (e : nat) (s : nat) (td : tdata) (c : cfg)
    : res (option pyres) :=
    match cands with
    | [] => if rm_allow rm then Ok c (Some no_res) else Exn c (XNotAllowed e s)
    | t :: r =>
        if matches t e then
          do (c1, er) <- activate (atrans_of t) td c;
          if fst er then Ok c1 (Some (snd er)) else try_candidates r e s td c1
        else try_candidates r e s td c
    end.

  Definition outs (s : nat) : list rtrans := filter (fun t => Nat.eqb (rt_src t) s) (rm_trans rm).

  (* SyncEngine._trigger; the result None stands for the private sentinel *)
  Definition trigger (td : tdata) (c : cfg) : res (option pyres) :=
    let d := depth c in
    let c := set_depth c (S d) in
    let r :=
      match td_ev td with
      | None =>
          do (c1, _r) <- activate initial_atrans td c;
          Ok c1 None
      | Some e =>
          match field c with
          | None => Exn c XNoState
          | Some s => try_candidates (outs s) e s td c
          end
      end in
    match r with
    | Ok c1 v => Ok (set_depth c1 d) v
    | Exn c1 x => Exn (set_depth c1 d) x
    | Fuel => Fuel
    end.

  (* the `while self._external_queue` loop of processing_loop (lock already held) *)
  Fixpoint drain (fuel : nat) (c : cfg) (first : option pyres) : res pyres :=
    match fuel with
    | 0 => Fuel
    | S f =>
        match queue c with
        | [] => Ok (set_locked c false) (match first with Some v => v | None => no_res end)
        | td :: q =>
            match trigger td (set_queue c q) with
            | Ok c1 r => drain f c1 (match first with Some _ => first | None => r end)
            | Exn c1 x => Exn (set_locked (set_queue c1 []) false) x
            | Fuel => Fuel
            end
        end
    end.
End Engine.

Arguments a_src : clear implicits.

(* ---------- the three ways `send` is wired ---------- *)

(* faithful run-to-completion entry point: Event.__call__ = put; processing_loop (try-lock) *)
Fixpoint send_rtc (beh : behaviour) (rm : rmachine) (fuel : nat) (td : tdata) (c : cfg) : res pyres :=
  match fuel with
  | 0 => Fuel
  | S f =>
      let c1 := enqueue td c in
      if locked c1 then Ok c1 no_res
      else drain beh (send_rtc beh rm f) rm f (set_locked c1 true) None
  end.

(* run-to-completion as the documentation describes it: a send from a callback only enqueues *)
Definition flat_nested (td : tdata) (c : cfg) : res pyres := Ok (enqueue td c) no_res.

Definition send_flat (beh : behaviour) (rm : rmachine) (fuel : nat) (td : tdata) (c : cfg) : res pyres :=
  let c1 := enqueue td c in
  if locked c1 then Ok c1 no_res
  else drain beh flat_nested rm fuel (set_locked c1 true) None.

(* rtc=False: put; popleft; _trigger - nested sends run immediately, depth first *)
Fixpoint send_nonrtc (beh : behaviour) (rm : rmachine) (fuel : nat) (td : tdata) (c : cfg) : res pyres :=
  match fuel with
  | 0 => Fuel
  | S f =>
      let c1 := enqueue td c in
      match queue c1 with
      | [] => Exn c1 XIndex
      | td0 :: q =>
          do (c2, r) <- trigger beh (send_nonrtc beh rm f) rm td0 (set_queue c1 q);
          Ok c2 (match r with Some v => v | None => no_res end)
      end
  end.

Definition send (beh : behaviour) (rm : rmachine) (fuel : nat) (td : tdata) (c : cfg) : res pyres :=
  if rm_rtc rm || rm_async rm then send_rtc beh rm fuel td c else send_nonrtc beh rm fuel td c.

(* activate_initial_state() / the end of SyncEngine.start(): processing_loop without a put *)
Definition run_loop (beh : behaviour) (rm : rmachine) (fuel : nat) (c : cfg) : res pyres :=
  if rm_rtc rm || rm_async rm then
    if locked c then Ok c no_res
    else drain beh (send_rtc beh rm fuel) rm fuel (set_locked c true) None
  else
    match queue c with
    | [] => Ok c no_res                  (* nothing queued: nothing to do *)
    | td0 :: q =>
        do (c2, r) <- trigger beh (send_nonrtc beh rm fuel) rm td0 (set_queue c q);
        Ok c2 (match r with Some v => v | None => no_res end)
    end.

(* BaseEngine.start + SyncEngine.start: enqueue __initial__ only when no state is stored, then loop *)
Definition construct (beh : behaviour) (rm : rmachine) (fuel : nat) (c : cfg) : res pyres :=
  let c1 := match field c with
            | None => enqueue {| td_ev := None; td_tag := 0 |} c
            | Some _ => c
            end in
  if rm_async rm then
    (* AsyncEngine: rtc=False is refused; nothing is processed by the constructor *)
    if rm_rtc rm then Ok c1 no_res else Exn c XInvalidDef
  else run_loop beh rm fuel c1.
