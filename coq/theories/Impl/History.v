(* Impl layer: top-level operation histories over one model object - what a user program does with
   the public API: construct a machine over the model, send events, re-activate, write the state
   value, construct again (restart over the persisted model).  Each operation yields an observation
   (result / exception, stored state, allowed events, callback log).  No proofs here. *)
From Coq Require Import List Arith Bool ZArith.
Import ListNotations.
From PySM Require Export Impl.Registry.

Inductive op :=
| OSend (e tag : nat)        (* sm.send(<event e>, tag=tag) *)
| OActivate                  (* sm.activate_initial_state() *)
| OConstruct                 (* sm = M(model, ...): a new machine (new engine, queue, lock) over the same model *)
| OWrite (s : nat)           (* sm.current_state_value = <value of state s> *)
| OAdd (ps : list nat)       (* sm.add_listener(<providers ps>) *)
| OClone.                    (* sm = copy.deepcopy(sm) / pickle round trip: go on with the clone *)

(* a returned value is kept with its two parts (before results, on results): Python sees [res_val] *)
Inductive outcome := RVal (v : pyres) | RExn (x : exn) | RFuel.

Record obs := {
  o_out : outcome;
  o_field : option nat;              (* getattr(model, state_field) afterwards, as a state index *)
  o_allowed : option (list nat);     (* sm.allowed_events afterwards; None: no current state *)
  o_log : list entry;                (* oldest first *)
  o_amb : bool; o_ambc : bool }.

Fixpoint uniq (seen : list nat) (l : list nat) : list nat :=
  match l with
  | [] => []
  | x :: r => if existsb (Nat.eqb x) seen then uniq seen r else x :: uniq (x :: seen) r
  end.

(* TransitionList.unique_events of the current state's transitions *)
Definition allowed_events (rm : rmachine) (s : nat) : list nat :=
  uniq [] (flat_map rt_events (outs rm s)).

Definition clear_log (c : cfg) : cfg :=
  {| field := field c; queue := queue c; locked := locked c; calls := calls c; log := [];
     nact := nact c; depth := depth c; amb := false; ambc := false |}.

Definition mkobs (rm : rmachine) (r : outcome) (c : cfg) : obs :=
  {| o_out := r; o_field := field c;
     o_allowed := match field c with Some s => Some (allowed_events rm s) | None => None end;
     o_log := rev (log c); o_amb := amb c; o_ambc := ambc c |}.

Definition new_engine (c : cfg) : cfg := set_depth (set_locked (set_queue c []) false) 0.

(* the registry of a clone (__setstate__, since fix D30): the listeners are attached again the way they were
   attached to the original - the constructor's round (machine, model, constructor listeners; the engine is
   chosen after it), then one round per add_listener call: the resolution rounds of the original.
   (Before that repair every listener attached so far was resolved in ONE round with machine and model,
   [with_erounds (with_rounds md [uniq [] (concat (md_rounds md))]) 1]: guards regrouped on the clone.) *)
Definition clone_md (md : mdecl) : mdecl := md.

(* a new machine object built by the constructor call of the scenario: only the constructor's own
   providers (the first resolution round) are attached to it; listeners that were added to the previous
   object with add_listener are not (histories never construct after a clone) *)
Definition construct_md (md : mdecl) : mdecl :=
  with_erounds (with_rounds md (firstn 1 (md_rounds md))) 1.

Definition run_op (beh : behaviour) (md : mdecl) (fuel : nat) (o : op) (c : cfg) : mdecl * cfg * obs :=
  let rm := resolve md in
  let c0 := clear_log c in
  let r := match o with
           | OSend e tag => send beh rm fuel {| td_ev := Some e; td_tag := tag |} c0
           | OActivate => run_loop beh rm fuel c0
           | OConstruct =>                       (* __init__ discards what the loop returns *)
               do (c1, _v) <- construct beh (resolve (construct_md md)) fuel (new_engine c0); Ok c1 no_res
           | OWrite s => Ok (set_field c0 (Some s)) no_res
           | OAdd _ => Ok c0 no_res
           | OClone =>
               (* __setstate__: fresh registry and engine, started like a new one *)
               do (c1, _v) <- construct beh (resolve (clone_md md)) fuel (new_engine c0); Ok c1 no_res
           end in
  let md1 := match o with
             | OAdd ps => add_round md ps | OClone => clone_md md | OConstruct => construct_md md | _ => md
             end in
  let rm1 := resolve md1 in
  match r with
  | Ok c1 v => (md1, c1, mkobs rm1 (RVal v) c1)
  | Exn c1 x => (md1, c1, mkobs rm1 (RExn x) c1)
  | Fuel => (md1, c0, mkobs rm1 RFuel c0)
  end.

Definition failed (o : obs) : bool := match o_out o with RVal _ => false | _ => true end.

(* a history stops at a constructor that raises (there is no machine object to go on with) *)
Fixpoint run_ops (beh : behaviour) (md : mdecl) (fuel : nat) (ops : list op) (c : cfg) : list obs :=
  match ops with
  | [] => []
  | o :: r =>
      let '(md1, c1, ob) := run_op beh md fuel o c in
      match o with
      | OConstruct => if failed ob then [ob] else ob :: run_ops beh md1 fuel r c1
      | _ => ob :: run_ops beh md1 fuel r c1
      end
  end.

(* behaviour tables: per callback, the scripts of its 1st, 2nd, ... invocation and a default *)
Definition btable := list (cbref * (list script * script)).

Definition beh_of (tbl : btable) : behaviour :=
  fun cb n =>
    match find (fun p => cbref_eqb cb (fst p)) tbl with
    | Some (_, (l, d)) => nth n l d
    | None => {| acts := []; ret := VNone |}
    end.

(* a whole scenario: declared machine + providers, behaviour table, stored state at the start,
   history *)
Record scenario := {
  sc_md : mdecl; sc_tbl : btable; sc_field0 : option nat; sc_ops : list op; sc_fuel : nat }.

Definition run_scenario (s : scenario) : list obs :=
  run_ops (beh_of (sc_tbl s)) (sc_md s) (sc_fuel s) (sc_ops s) (init_cfg (sc_field0 s)).

(* the calling styles: every one puts the same trigger and runs the same loop *)
Inductive style := ByName | ByAttribute | ByEventsItem | ByAllowedEventsItem | ByBoundTrigger.

(* Event.__get__ returns a BoundEvent tied to the instance; send() resolves the same event; a bound
   trigger keeps the instance: in the model all of them are [send] of the same trigger *)
Definition enter (st : style) (beh : behaviour) (rm : rmachine) (fuel : nat) (td : tdata) (c : cfg) : res pyres :=
  match st with
  | ByName | ByAttribute | ByEventsItem | ByAllowedEventsItem | ByBoundTrigger => send beh rm fuel td c
  end.

