(* Impl layer: a process holding several machine objects (instances of one class or of different
   classes, each with its own declaration, providers, callback behaviour and configuration) that are
   driven in any interleaving.  Each operation names the object it is applied to and is that object's
   [run_op]; objects share nothing (the one shared structure of the library, the signature cache, is
   Impl/World.v).  Operations started from inside a callback of another object are not expressed by
   this model (scripts send to their own machine only); the correspondence drives those.  No proofs
   here. *)
From Coq Require Import List Arith Bool.
Import ListNotations.
From PySM Require Export Impl.History.

Record mobj := { mo_md : mdecl; mo_beh : behaviour; mo_cfg : cfg }.

Definition process := list mobj.

Fixpoint replace_nth {A} (l : list A) (i : nat) (x : A) : list A :=
  match l, i with
  | [], _ => []
  | _ :: r, 0 => x :: r
  | y :: r, S j => y :: replace_nth r j x
  end.

Definition step_obj (fuel : nat) (m : mobj) (o : op) : mobj * obs :=
  let '(md1, c1, ob) := run_op (mo_beh m) (mo_md m) fuel o (mo_cfg m) in
  ({| mo_md := md1; mo_beh := mo_beh m; mo_cfg := c1 |}, ob).

(* one operation of the interleaved history: (object index, operation) *)
Definition pstep (fuel : nat) (p : process) (io : nat * op) : process * list (nat * obs) :=
  match nth_error p (fst io) with
  | Some m => let '(m1, ob) := step_obj fuel m (snd io) in (replace_nth p (fst io) m1, [(fst io, ob)])
  | None => (p, [])
  end.

Fixpoint prun (fuel : nat) (p : process) (h : list (nat * op)) : process * list (nat * obs) :=
  match h with
  | [] => (p, [])
  | io :: r => let '(p1, o1) := pstep fuel p io in
               let '(p2, o2) := prun fuel p1 r in (p2, o1 ++ o2)
  end.

(* one object driven alone *)
Fixpoint mrun (fuel : nat) (m : mobj) (ops : list op) : mobj * list obs :=
  match ops with
  | [] => (m, [])
  | o :: r => let '(m1, ob) := step_obj fuel m o in
              let '(m2, obs) := mrun fuel m1 r in (m2, ob :: obs)
  end.

(* the part of an interleaved history / of its observations that concerns object i *)
Definition own_ops (i : nat) (h : list (nat * op)) : list op :=
  map snd (filter (fun io => Nat.eqb (fst io) i) h).
Definition own_obs (i : nat) (l : list (nat * obs)) : list obs :=
  map snd (filter (fun io => Nat.eqb (fst io) i) l).
