(* Impl layer: model of how a class body declares transitions (state.py _ToState / _FromState /
   itself / any, transition_list.py, factory.py add_from_attributes): every call creates its
   transitions at once and appends them to their source states' lists, so the order of a state's
   transitions is the order of creation; events are attached by event=, or later by assigning the
   transition list to a class attribute; from_.any() is expanded by the metaclass onto every non-final
   state, after everything the class body created.  No proofs here. *)
From Coq Require Import List Arith Bool.
Import ListNotations.

Record atr := { a_src : nat; a_tgt : nat; a_events : list nat; a_kw : nat }.
(* [a_kw] stands for the rest of the keyword arguments (internal, guards, validators, callbacks) *)

Definition amachine := list atr.        (* creation order *)

(* what the library keeps: each state's outgoing transitions in creation order *)
Definition per_state (m : amachine) (s : nat) : list atr := filter (fun t => Nat.eqb (a_src t) s) m.

Inductive call :=
| CTo (s : nat) (ts : list nat)          (* s.to(t1, t2, ...) *)
| CFrom (t : nat) (ss : list nat)        (* t.from_(s1, s2, ...) *)
| CItself (s : nat).                     (* s.to.itself() *)

Record stmt := { st_call : call; st_events : list nat; st_kw : nat }.

Definition created (c : call) : list (nat * nat) :=
  match c with
  | CTo s ts => map (fun t => (s, t)) ts
  | CFrom t ss => map (fun s => (s, t)) ss
  | CItself s => [(s, s)]
  end.

Definition eval_stmt (x : stmt) : list atr :=
  map (fun st => {| a_src := fst st; a_tgt := snd st; a_events := st_events x; a_kw := st_kw x |})
      (created (st_call x)).

Definition eval_body (b : list stmt) : amachine := flat_map eval_stmt b.

(* ---------- renderings of an abstract machine ---------- *)
Definition stmt_to (t : atr) : stmt := {| st_call := CTo (a_src t) [a_tgt t]; st_events := a_events t; st_kw := a_kw t |}.
Definition stmt_from (t : atr) : stmt := {| st_call := CFrom (a_tgt t) [a_src t]; st_events := a_events t; st_kw := a_kw t |}.
Definition stmt_itself (t : atr) : stmt :=
  if Nat.eqb (a_src t) (a_tgt t)
  then {| st_call := CItself (a_src t); st_events := a_events t; st_kw := a_kw t |}
  else stmt_to t.

Definition render_to (m : amachine) : list stmt := map stmt_to m.
Definition render_from (m : amachine) : list stmt := map stmt_from m.
Definition render_itself (m : amachine) : list stmt := map stmt_itself m.

Definition leqb (l1 l2 : list nat) : bool := if list_eq_dec Nat.eq_dec l1 l2 then true else false.

(* a.to(b, c): consecutive transitions from the same state with the same arguments share one call *)
Fixpoint render_multi_to (m : amachine) : list stmt :=
  match m with
  | [] => []
  | t :: r =>
      match render_multi_to r with
      | {| st_call := CTo s ts; st_events := ev; st_kw := kw |} :: rest =>
          if Nat.eqb s (a_src t) && leqb ev (a_events t) && Nat.eqb kw (a_kw t)
          then {| st_call := CTo s (a_tgt t :: ts); st_events := ev; st_kw := kw |} :: rest
          else stmt_to t :: render_multi_to r
      | other => stmt_to t :: other
      end
  end.

(* c.from_(a, b) *)
Fixpoint render_multi_from (m : amachine) : list stmt :=
  match m with
  | [] => []
  | t :: r =>
      match render_multi_from r with
      | {| st_call := CFrom x ss; st_events := ev; st_kw := kw |} :: rest =>
          if Nat.eqb x (a_tgt t) && leqb ev (a_events t) && Nat.eqb kw (a_kw t)
          then {| st_call := CFrom x (a_src t :: ss); st_events := ev; st_kw := kw |} :: rest
          else stmt_from t :: render_multi_from r
      | other => stmt_from t :: other
      end
  end.

(* ---------- events attached by attribute: `ev = tl_a | tl_b` ---------- *)
(* the transitions are created without events; attribute [e] then names the transitions (by their
   creation index) it is assigned *)
Definition attach (attrs : list (nat * list nat)) (j : nat) : list nat :=
  map fst (filter (fun p => existsb (Nat.eqb j) (snd p)) attrs).

Fixpoint indices_with (e : nat) (m : amachine) (j : nat) : list nat :=
  match m with
  | [] => []
  | t :: r => if existsb (Nat.eqb e) (a_events t) then j :: indices_with e r (S j) else indices_with e r (S j)
  end.

Definition render_attrs (all_events : list nat) (m : amachine) : list (nat * list nat) :=
  map (fun e => (e, indices_with e m 0)) all_events.

(* ---------- from_.any() ---------- *)
Definition expand_any (m : amachine) (nonfinal : list nat) (x e kw : nat) : amachine :=
  m ++ map (fun s => {| a_src := s; a_tgt := x; a_events := [e]; a_kw := kw |}) nonfinal.
