(* Impl layer: model of statemachine/signature.py SignatureAdapter.bind_expected, of
   inspect.BoundArguments.args / .kwargs (CPython, copied semantics) and - as the reference the
   contract is stated against - of CPython's own binding of a call f( *args, **kwargs ).
   Names and values are numbers (the harness keeps the tables).  No proofs here. *)
From Coq Require Import List Arith Bool.
Import ListNotations.

Inductive pkind := PosOnly | PosOrKw | VarPos | KwOnly | VarKw.

Record param := { p_name : nat; p_kind : pkind; p_default : bool }.

Definition kind_eqb (a b : pkind) : bool :=
  match a, b with
  | PosOnly, PosOnly | PosOrKw, PosOrKw | VarPos, VarPos | KwOnly, KwOnly | VarKw, VarKw => true
  | _, _ => false
  end.

Definition kwmap := list (nat * nat).      (* ordered dict: name -> value, keys distinct *)

Fixpoint lookup (n : nat) (k : kwmap) : option nat :=
  match k with
  | [] => None
  | (m, v) :: r => if Nat.eqb n m then Some v else lookup n r
  end.

Fixpoint remove (n : nat) (k : kwmap) : kwmap :=
  match k with
  | [] => []
  | (m, v) :: r => if Nat.eqb n m then r else (m, v) :: remove n r
  end.

(* a bound value: a plain value, the tuple collected by *args, the dict collected by **kwargs *)
Inductive bval := BOne (v : nat) | BTuple (l : list nat) | BDict (k : kwmap).

Definition arguments := list (nat * bval).     (* OrderedDict in insertion order *)

Fixpoint arg_lookup (n : nat) (a : arguments) : option bval :=
  match a with
  | [] => None
  | (m, v) :: r => if Nat.eqb n m then Some v else arg_lookup n r
  end.

Inductive bres := Bound (a : arguments) | BindTypeError.

(* ---------- bind_expected ---------- *)

(* second loop: keyword phase over the remaining parameters; returns the new arguments, the
   remaining user kwargs and the **kwargs parameter if one was met *)
Fixpoint kw_phase (ps : list param) (kw : kwmap) (acc : arguments) (kwp : option nat)
  : arguments * kwmap * option nat :=
  match ps with
  | [] => (acc, kw, kwp)
  | p :: r =>
      match p_kind p with
      | VarKw => kw_phase r kw acc (Some (p_name p))
      | VarPos => kw_phase r kw acc kwp
      | _ => match lookup (p_name p) kw with
             | Some v => kw_phase r (remove (p_name p) kw) (acc ++ [(p_name p, BOne v)]) kwp
             | None => kw_phase r kw acc kwp
             end
      end
  end.

Definition finish (ps : list param) (kw : kwmap) (acc : arguments) (kwp : option nat) : bres :=
  let '(acc1, kw1, kwp1) := kw_phase ps kw acc kwp in
  match kw1, kwp1 with
  | _ :: _, Some n => Bound (acc1 ++ [(n, BDict kw1)])
  | _, _ => Bound acc1
  end.

(* first loop: positional phase.  [ps] = parameters not yet consumed *)
Fixpoint pos_phase (ps : list param) (args : list nat) (kw : kwmap) (acc : arguments) : bres :=
  match args with
  | [] =>
      (* no more positional arguments: look at the next parameter *)
      match ps with
      | [] => finish [] kw acc None
      | p :: r =>
          match p_kind p with
          | VarPos => finish r kw acc None                       (* empty *args; the parameter is dropped *)
          | _ =>
              match lookup (p_name p) kw, p_kind p with
              | Some _, PosOnly => BindTypeError                  (* copied from inspect (D15) *)
              | _, _ => finish (p :: r) kw acc None
              end
          end
      end
  | a :: rest =>
      match ps with
      | [] => finish [] kw acc None                               (* too many positional: forgiven *)
      | p :: r =>
          match p_kind p with
          | VarKw => finish r kw acc (Some (p_name p))
          | KwOnly => finish (p :: r) kw acc None                 (* too many positional: forgiven; the
                                                                     consumed parameter goes to the keyword phase *)
          | VarPos => finish r kw (acc ++ [(p_name p, BTuple (a :: rest))]) None
          | PosOnly => pos_phase r rest kw (acc ++ [(p_name p, BOne a)])
          | PosOrKw =>
              match lookup (p_name p) kw with
              | Some v => pos_phase r rest (remove (p_name p) kw) (acc ++ [(p_name p, BOne v)])
              | None => pos_phase r rest kw (acc ++ [(p_name p, BOne a)])
              end
          end
      end
  end.

Definition bind_expected (sig : list param) (args : list nat) (kw : kwmap) : bres :=
  pos_phase sig args kw [].

(* ---------- inspect.BoundArguments.args / .kwargs ---------- *)
Fixpoint ba_args (sig : list param) (a : arguments) : list nat :=
  match sig with
  | [] => []
  | p :: r =>
      match p_kind p with
      | VarKw | KwOnly => []
      | _ => match arg_lookup (p_name p) a with
             | None => []
             | Some (BTuple l) => l ++ ba_args r a
             | Some (BOne v) => v :: ba_args r a
             | Some (BDict _) => ba_args r a
             end
      end
  end.

Fixpoint ba_kwargs (sig : list param) (a : arguments) (started : bool) : kwmap :=
  match sig with
  | [] => []
  | p :: r =>
      let is_kw := match p_kind p with VarKw | KwOnly => true | _ => false end in
      let present := match arg_lookup (p_name p) a with Some _ => true | None => false end in
      if negb started && negb is_kw && present then ba_kwargs r a false
      else if negb started && negb is_kw then ba_kwargs r a true      (* absent: kwargs start, this one skipped *)
      else match arg_lookup (p_name p) a with
           | Some (BDict k) => k ++ ba_kwargs r a true
           | Some (BOne v) => (p_name p, v) :: ba_kwargs r a true
           | Some (BTuple _) => ba_kwargs r a true
           | None => ba_kwargs r a true
           end
  end.

(* ---------- CPython's binding of a call: reference semantics ---------- *)
Inductive cres := Assigned (a : arguments) | CallTypeError (why : nat).
(* why: 1 too many positional, 2 multiple values, 3 unexpected keyword, 4 missing required,
        5 positional-only passed as keyword *)

Definition is_positional (p : param) : bool :=
  match p_kind p with PosOnly | PosOrKw => true | _ => false end.

(* fill positional parameters from positional arguments *)
Fixpoint call_pos (ps : list param) (args : list nat) (acc : arguments) : arguments * list nat * list param :=
  match ps, args with
  | p :: r, a :: rest => if is_positional p then call_pos r rest (acc ++ [(p_name p, BOne a)])
                         else (acc, args, ps)
  | _, _ => (acc, args, ps)
  end.

Definition find_param (n : nat) (sig : list param) : option param :=
  find (fun p => Nat.eqb (p_name p) n) sig.

Fixpoint call_kw (sig : list param) (has_varkw : bool) (kw : kwmap) (acc : arguments) (extra : kwmap)
  : option (arguments * kwmap) + nat :=
  match kw with
  | [] => inl (Some (acc, extra))
  | (n, v) :: r =>
      match find_param n sig with
      | Some p =>
          match p_kind p with
          | PosOrKw | KwOnly =>
              match arg_lookup n acc with
              | Some _ => inr 2
              | None => call_kw sig has_varkw r (acc ++ [(n, BOne v)]) extra
              end
          | PosOnly => if has_varkw then call_kw sig has_varkw r acc (extra ++ [(n, v)]) else inr 5
          | _ => if has_varkw then call_kw sig has_varkw r acc (extra ++ [(n, v)]) else inr 3
          end
      | None => if has_varkw then call_kw sig has_varkw r acc (extra ++ [(n, v)]) else inr 3
      end
  end.

Definition missing (sig : list param) (acc : arguments) : bool :=
  existsb (fun p => match p_kind p with
                    | VarPos | VarKw => false
                    | _ => negb (p_default p) && match arg_lookup (p_name p) acc with None => true | Some _ => false end
                    end) sig.

Definition py_call (sig : list param) (args : list nat) (kw : kwmap) : cres :=
  let '(acc, rest, ps') := call_pos sig args [] in
  let varpos := find (fun p => kind_eqb (p_kind p) VarPos) sig in
  let varkw := find (fun p => kind_eqb (p_kind p) VarKw) sig in
  match rest, varpos with
  | _ :: _, None => CallTypeError 1
  | _, _ =>
      let acc1 := match varpos with Some p => acc ++ [(p_name p, BTuple rest)] | None => acc end in
      match call_kw sig (match varkw with Some _ => true | None => false end) kw acc1 [] with
      | inr why => CallTypeError why
      | inl None => CallTypeError 3
      | inl (Some (acc2, extra)) =>
          let acc3 := match varkw with Some p => acc2 ++ [(p_name p, BDict extra)] | None => acc2 end in
          if missing sig acc3 then CallTypeError 4 else Assigned acc3
      end
  end.

(* what the callback finally receives when the library calls it with (args, kwargs) *)
Definition adapter_call (sig : list param) (args : list nat) (kw : kwmap) : cres + unit :=
  match bind_expected sig args kw with
  | BindTypeError => inr tt
  | Bound a => inl (py_call sig (ba_args sig a) (ba_kwargs sig a false))
  end.

(* well-formed signatures: what `def` accepts *)
Fixpoint names_distinct (l : list param) : bool :=
  match l with
  | [] => true
  | p :: r => negb (existsb (fun q => Nat.eqb (p_name p) (p_name q)) r) && names_distinct r
  end.

Definition kind_rank (k : pkind) : nat :=
  match k with PosOnly => 0 | PosOrKw => 1 | VarPos => 2 | KwOnly => 3 | VarKw => 4 end.

Fixpoint kinds_ordered (l : list param) : bool :=
  match l with
  | [] | [_] => true
  | p :: ((q :: _) as r) =>
      Nat.leb (kind_rank (p_kind p)) (kind_rank (p_kind q))
      && negb (kind_eqb (p_kind p) VarPos && kind_eqb (p_kind q) VarPos)
      && negb (kind_eqb (p_kind p) VarKw)
      && kinds_ordered r
  end.

(* among positional parameters no non-default follows a default *)
Fixpoint defaults_ok (l : list param) (seen_default : bool) : bool :=
  match l with
  | [] => true
  | p :: r => if is_positional p
              then (if seen_default then p_default p else true) && defaults_ok r (seen_default || p_default p)
              else defaults_ok r seen_default
  end.

Definition wf_sig (sig : list param) : bool :=
  names_distinct sig && kinds_ordered sig && defaults_ok sig false
  && forallb (fun p => match p_kind p with VarPos | VarKw => negb (p_default p) | _ => true end) sig.

(* ---------- reserved names (event.py _event_data_kwargs, event_data.py extended_kwargs) ---------- *)
(* names 50..57 stand for event_data, machine, event, model, transition, state, source, target *)
Definition reserved (n : nat) : bool := Nat.leb 50 n && Nat.ltb n 58.

Definition trigger_kwargs (user : kwmap) : kwmap := filter (fun nv => negb (reserved (fst nv))) user.

Fixpoint overlay (base : kwmap) (top : kwmap) : kwmap :=
  match top with
  | [] => base
  | (n, v) :: r => overlay (if match lookup n base with Some _ => true | None => false end
                            then map (fun mw => if Nat.eqb (fst mw) n then (n, v) else mw) base
                            else base ++ [(n, v)]) r
  end.

Definition extended_kwargs (user builtins : kwmap) : kwmap := overlay (trigger_kwargs user) builtins.


Fixpoint distinct_keys (k : kwmap) : bool :=
  match k with
  | [] => true
  | (n, _) :: r => negb (existsb (fun mw => Nat.eqb (fst mw) n) r) && distinct_keys r
  end.

