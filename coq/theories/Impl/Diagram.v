(* Impl layer: model of statemachine/contrib/diagram.py DotGraphMachine.get_graph: which nodes and
   edges the DOT graph has, which node has a double border, which one is highlighted, which
   transitions appear only inside their state's label.  No proofs here. *)
From Coq Require Import List Arith Bool.
Import ListNotations.

Record dtrans := { dt_src : nat; dt_tgt : nat; dt_events : list nat; dt_internal : bool;
                   dt_guards : list (nat * bool) }.        (* (name, true) cond / (name, false) unless, shown as !name *)

Record dmachine := { dm_final : list bool;                  (* one entry per state, declaration order *)
                     dm_initial : nat;
                     dm_trans : list dtrans }.

Inductive node_id := NInitial | NState (s : nat).

Record dnode := { dn_id : node_id; dn_peripheries : nat; dn_highlighted : bool;
                  dn_internal_lines : list (list nat) }.    (* events of the internal transitions listed in the label *)

Record dedge := { de_src : node_id; de_tgt : node_id; de_events : list nat; de_guards : list (nat * bool) }.

Definition nstates (m : dmachine) : nat := length (dm_final m).

Definition outs (m : dmachine) (s : nat) : list dtrans := filter (fun t => Nat.eqb (dt_src t) s) (dm_trans m).

Definition state_node (m : dmachine) (current : option nat) (s : nat) : dnode :=
  {| dn_id := NState s;
     dn_peripheries := if nth s (dm_final m) false then 2 else 1;
     dn_highlighted := match current with Some c => Nat.eqb c s | None => false end;
     dn_internal_lines := map dt_events (filter dt_internal (outs m s)) |}.

Definition initial_node : dnode :=
  {| dn_id := NInitial; dn_peripheries := 1; dn_highlighted := false; dn_internal_lines := [] |}.

Definition trans_edge (t : dtrans) : dedge :=
  {| de_src := NState (dt_src t); de_tgt := NState (dt_tgt t); de_events := dt_events t; de_guards := dt_guards t |}.

Definition initial_edge (m : dmachine) : dedge :=
  {| de_src := NInitial; de_tgt := NState (dm_initial m); de_events := []; de_guards := [] |}.

(* [current] = None for a class, Some s for an instance whose current state is s *)
Definition graph_nodes (m : dmachine) (current : option nat) : list dnode :=
  initial_node :: map (state_node m current) (seq 0 (nstates m)).

Definition graph_edges (m : dmachine) : list dedge :=
  initial_edge m :: flat_map (fun s => map trans_edge (filter (fun t => negb (dt_internal t)) (outs m s)))
                             (seq 0 (nstates m)).
