(* Impl layer: the concurrent-senders protocol of engines/sync.py (threads, source-line granularity) when
   callbacks may FAIL: the drainer clears the queue, releases the lock and re-raises (C04).  [fixed] says
   whether the drainer, after releasing the lock on that path, looks at the queue once more (as it does
   on the normal path): false = the code before fix 894918f, true = the code after it.  No proofs here. *)
From Coq Require Import List Arith Bool.
Import ListNotations.
From PySM Require Import Impl.Conc.

Inductive fpc :=
| FIdle | FAcq | FTest | FProc | FRel | FRecheck
| FRelF.        (* a callback failed: the queue has been cleared, about to release the lock and re-raise *)

Record fthread := { f_pc : fpc; f_todo : list event }.

Record fworld := {
  fw_queue : list event;
  fw_holder : option nat;
  fw_log : list marker;
  fw_threads : nat -> fthread }.

Definition fupd (w : nat -> fthread) (t : nat) (s : fthread) : nat -> fthread :=
  fun t' => if Nat.eqb t' t then s else w t'.

Definition fset (s : fthread) (p : fpc) : fthread := {| f_pc := p; f_todo := f_todo s |}.

Section Step.
  Variable fails : event -> bool.      (* the events whose callbacks raise *)
  Variable fixed : bool.

  Definition fstep (w : fworld) (t : nat) : fworld :=
    let s := fw_threads w t in
    match f_pc s with
    | FIdle =>
        match f_todo s with
        | [] => w
        | e :: r =>
            {| fw_queue := fw_queue w ++ [e]; fw_holder := fw_holder w; fw_log := fw_log w;
               fw_threads := fupd (fw_threads w) t {| f_pc := FAcq; f_todo := r |} |}
        end
    | FAcq =>
        match fw_holder w with
        | Some _ => {| fw_queue := fw_queue w; fw_holder := fw_holder w; fw_log := fw_log w;
                       fw_threads := fupd (fw_threads w) t (fset s FIdle) |}
        | None => {| fw_queue := fw_queue w; fw_holder := Some t; fw_log := fw_log w;
                     fw_threads := fupd (fw_threads w) t (fset s FTest) |}
        end
    | FTest =>
        match fw_queue w with
        | e :: q => {| fw_queue := q; fw_holder := fw_holder w; fw_log := fw_log w ++ [Begin e t];
                       fw_threads := fupd (fw_threads w) t (fset s FProc) |}
        | [] => {| fw_queue := []; fw_holder := fw_holder w; fw_log := fw_log w;
                   fw_threads := fupd (fw_threads w) t (fset s FRel) |}
        end
    | FProc =>
        let e := match rev (fw_log w) with Begin e _ :: _ => e | _ => (0, 0) end in
        if fails e then
          (* except BaseException: self._external_queue.clear(); raise *)
          {| fw_queue := []; fw_holder := fw_holder w; fw_log := fw_log w ++ [End e t];
             fw_threads := fupd (fw_threads w) t (fset s FRelF) |}
        else
          {| fw_queue := fw_queue w; fw_holder := fw_holder w; fw_log := fw_log w ++ [End e t];
             fw_threads := fupd (fw_threads w) t (fset s FTest) |}
    | FRel =>
        {| fw_queue := fw_queue w; fw_holder := None; fw_log := fw_log w;
           fw_threads := fupd (fw_threads w) t (fset s FRecheck) |}
    | FRelF =>                               (* finally: release; (fixed: look at the queue again;) re-raise *)
        {| fw_queue := fw_queue w; fw_holder := None; fw_log := fw_log w;
           fw_threads := fupd (fw_threads w) t (fset s (if fixed then FRecheck else FIdle)) |}
    | FRecheck =>
        {| fw_queue := fw_queue w; fw_holder := fw_holder w; fw_log := fw_log w;
           fw_threads := fupd (fw_threads w) t (fset s (match fw_queue w with [] => FIdle | _ => FAcq end)) |}
    end.

  Definition frun (sched : list nat) (w : fworld) : fworld := fold_left fstep sched w.
End Step.

Definition finit (plan : nat -> nat) : fworld :=
  {| fw_queue := []; fw_holder := None; fw_log := [];
     fw_threads := fun t => {| f_pc := FIdle; f_todo := sends t (plan t) |} |}.

Definition ffinished (w : fworld) (t : nat) : Prop :=
  f_pc (fw_threads w t) = FIdle /\ f_todo (fw_threads w t) = [].
