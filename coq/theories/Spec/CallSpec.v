(* Spec layer for C07: what the adapter must hand to the callback, written as one declarative pass
   over the declared parameters.
   [spec_bind sig args kw]: positional parameters take the positional values slot by slot - a
   positional-or-keyword parameter named in the keywords takes the keyword's value instead and the
   positional value of that slot is dropped (the behaviour pinned by tests/test_signature.py);
   *args takes what is left of the positional values; keyword-only parameters take their keyword;
   **kwargs takes the keywords nobody consumed; everything else is dropped. *)
From Coq Require Import List Arith Bool.
Import ListNotations.
From PySM Require Export Impl.Signature.

Fixpoint spec_bind (sig : list param) (args : list nat) (kw : kwmap) : arguments :=
  match sig with
  | [] => []
  | p :: r =>
      match p_kind p with
      | PosOnly =>
          match args with
          | a :: rest => (p_name p, BOne a) :: spec_bind r rest kw
          | [] => spec_bind r [] kw
          end
      | PosOrKw =>
          match lookup (p_name p) kw with
          | Some v => (p_name p, BOne v) :: spec_bind r (tl args) (remove (p_name p) kw)
          | None => match args with
                    | a :: rest => (p_name p, BOne a) :: spec_bind r rest kw
                    | [] => spec_bind r [] kw
                    end
          end
      | VarPos =>
          match args with
          | [] => spec_bind r [] kw
          | _ => (p_name p, BTuple args) :: spec_bind r [] kw
          end
      | KwOnly =>
          match lookup (p_name p) kw with
          | Some v => (p_name p, BOne v) :: spec_bind r [] (remove (p_name p) kw)
          | None => spec_bind r [] kw
          end
      | VarKw =>
          match kw with
          | [] => spec_bind r [] kw
          | _ => (p_name p, BDict kw) :: spec_bind r [] []
          end
      end
  end.

(* no positional-only parameter is named in the keywords (the region of deviation D15) *)
Definition no_posonly_named (sig : list param) (kw : kwmap) : Prop :=
  forall p, In p sig -> p_kind p = PosOnly -> lookup (p_name p) kw = None.

(* the shape `def` imposes, as far as the binder depends on it: positional parameters first, then at
   most *args, then keyword-only parameters, then at most **kwargs, nothing after **kwargs *)
Fixpoint shape_kwonly (sig : list param) : bool :=
  match sig with
  | [] => true
  | p :: r => match p_kind p with
              | KwOnly => shape_kwonly r
              | VarKw => match r with [] => true | _ => false end
              | _ => false
              end
  end.

Fixpoint shape (sig : list param) : bool :=
  match sig with
  | [] => true
  | p :: r => match p_kind p with
              | PosOnly | PosOrKw => shape r
              | VarPos => shape_kwonly r
              | KwOnly => shape_kwonly r
              | VarKw => match r with [] => true | _ => false end
              end
  end.

(* ---------- what a callable with signature [sig] receives from bound arguments [B] ---------- *)
Definition typed (p : param) (b : bval) : Prop :=
  match p_kind p, b with
  | VarPos, BTuple _ => True
  | VarKw, BDict _ => True
  | PosOnly, BOne _ | PosOrKw, BOne _ | KwOnly, BOne _ => True
  | _, _ => False
  end.

(* once a positional parameter is left unbound, no later positional-only parameter and no *args is bound *)
Definition prefix_closed (ps : list param) (B : arguments) : Prop :=
  forall P p T, ps = P ++ p :: T -> is_positional p = true -> arg_lookup (p_name p) B = None ->
    forall q, In q T -> (p_kind q = PosOnly \/ p_kind q = VarPos) -> arg_lookup (p_name q) B = None.

(* well-formed bound arguments: the invariants inspect.BoundArguments relies on *)
Record WB (sig : list param) (B : arguments) : Prop := {
  wb_typed : forall p b, In p sig -> arg_lookup (p_name p) B = Some b -> typed p b;
  wb_prefix : prefix_closed sig B;
  wb_dict : forall p d, In p sig -> p_kind p = VarKw -> arg_lookup (p_name p) B = Some (BDict d) ->
              forall n v q, In (n, v) d -> In q sig -> p_name q = n -> p_kind q <> PosOrKw /\ p_kind q <> KwOnly }.

(* the value the callable finds under parameter [p]: *args and **kwargs are always there (empty
   when nothing was left for them), the others exactly as bound *)
Definition received (p : param) (B : arguments) : option bval :=
  match p_kind p with
  | VarPos => Some (match arg_lookup (p_name p) B with Some (BTuple l) => BTuple l | _ => BTuple [] end)
  | VarKw => Some (match arg_lookup (p_name p) B with Some (BDict d) => BDict d | _ => BDict [] end)
  | _ => arg_lookup (p_name p) B
  end.
