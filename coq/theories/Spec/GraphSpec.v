(* Spec layer for C09: what the property says, in the property's own vocabulary
   (graph reachability, "exactly one initial", "no transition leaving a final state", ...).
   Nothing here mentions the deque / visited-set algorithm or the order of the metaclass checks. *)
From Coq Require Import List Arith Bool.
Import ListNotations.
From PySM Require Import Impl.Graph.

Section Spec.
  Variable cd : classdef.
  Let n := nstates cd.

  (* a transition of the declared machine: explicit, or a copy of a from_.any() on a non-final state *)
  Definition Edge (a b : nat) : Prop :=
    (exists t, In t (cd_trans cd) /\ g_src t = a /\ g_tgt t = b)
    \/ (exists y, In y (cd_any cd) /\ a_tgt y = b /\ a < n /\ is_final cd a = false).

  Inductive Reach : nat -> nat -> Prop :=
  | Reach_refl : forall a, Reach a a
  | Reach_step : forall a b c, Reach a b -> Edge b c -> Reach a c.

  Definition OneInitial (i : nat) : Prop :=
    i < n /\ is_initial cd i = true /\ forall j, j < n -> is_initial cd j = true -> j = i.

  Definition HasEvent : Prop :=
    (exists t, In t (cd_trans cd) /\ g_hasev t = true) \/ cd_any cd <> [].

  Definition WellFormed : Prop :=
    0 < n
    /\ HasEvent
    /\ (forall t, In t (cd_trans cd) -> g_internal t = true -> g_src t = g_tgt t)
    /\ (forall y, In y (cd_any cd) -> a_internal y = false)
    /\ (forall t, In t (cd_trans cd) -> is_final cd (g_src t) = false)
    /\ exists i, OneInitial i /\ forall s, s < n -> Reach i s.

  (* a non-final state without outgoing transitions *)
  Definition Trap (s : nat) : Prop :=
    s < n /\ is_final cd s = false /\ forall b, ~ Edge s b.

  (* final states exist, and [s] is a non-final state from which none can be reached *)
  Definition NoPathToFinal (s : nat) : Prop :=
    (exists f, f < n /\ is_final cd f = true)
    /\ s < n /\ is_final cd s = false
    /\ forall f, Reach s f -> is_final cd f = false.

  (* all state references are in range (the generator's well-formedness; a class body cannot
     refer to a state that does not exist) *)
  Definition idx_ok : Prop :=
    (forall t, In t (cd_trans cd) -> g_src t < n /\ g_tgt t < n)
    /\ (forall y, In y (cd_any cd) -> a_tgt y < n).
End Spec.
