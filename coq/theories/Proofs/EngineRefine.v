(* The faithful run-to-completion entry point (Event.__call__: put, try-lock, drain; a send from a
   callback re-enters the same code and loses the try-lock) refines the engine "as documented"
   (a send from a callback only appends to the queue and returns None): the two compute the same
   result and the same configuration, for every machine, behaviour, trigger and configuration. *)
From Coq Require Import List Arith Bool Lia.
Import ListNotations.
From PySM Require Import Impl.Engine Proofs.EngineFrame.

Section TwoRuns.
  Variable beh : behaviour.
  Variable rm : rmachine.
  Variables n1 n2 : tdata -> cfg -> res pyres.
  Hypothesis agree : forall td c, locked c = true -> n1 td c = n2 td c.
  Hypothesis lock2 : forall td c, Rres same_lock c (n2 td c).

  Ltac locked_after H :=
    let P := fresh "P" in
    match type of H with
    | run_cb _ _ ?g ?x ?cb ?c = _ => pose proof (sl_run_cb beh n2 lock2 g x cb c) as P
    | run_wrapper _ _ ?g ?x ?w ?c = _ => pose proof (sl_run_wrapper beh n2 lock2 g x w c) as P
    | call_list _ _ ?g ?x ?ws ?c = _ => pose proof (sl_call_list beh n2 lock2 g x ws c) as P
    | call_group _ _ _ ?g ?x ?ws ?c = _ => pose proof (sl_call_group beh n2 rm lock2 g x ws c) as P
    | all_list _ _ ?g ?x ?ws ?c = _ => pose proof (sl_all_list beh n2 lock2 g x ws c) as P
    | all_list_async _ _ ?g ?x ?ws ?c = _ => pose proof (sl_all_list_async beh n2 lock2 g x ws c) as P
    | all_group _ _ _ ?g ?x ?ws ?c = _ => pose proof (sl_all_group beh n2 rm lock2 g x ws c) as P
    | activate_pre _ _ _ ?t ?x ?c = _ => pose proof (sl_activate_pre beh n2 rm lock2 t x c) as P
    | activate_post _ _ _ ?t ?x ?c = _ => pose proof (sl_activate_post beh n2 rm lock2 t x c) as P
    | activate _ _ _ ?t ?td ?c = _ => pose proof (sl_activate beh n2 rm lock2 t td c) as P
    end;
    rewrite H in P; simpl in P; unfold same_lock in P; simpl in P.

  Lemma run_acts_eq : forall l c, locked c = true -> run_acts n1 l c = run_acts n2 l c.
  Proof.
    induction l as [|a l IH]; intros c L; simpl; auto.
    destruct a as [e tag|x|s]; auto.
    rewrite agree by exact L.
    pose proof (lock2 {| td_ev := Some e; td_tag := tag |} c) as P.
    destruct (n2 _ c) as [c' v|c' x|]; auto.
    apply IH. simpl in *. unfold same_lock in P. congruence.
  Qed.

  Lemma run_cb_eq g x cb c : locked c = true -> run_cb beh n1 g x cb c = run_cb beh n2 g x cb c.
  Proof. intros L. unfold run_cb. rewrite run_acts_eq by (simpl; exact L). reflexivity. Qed.

  Lemma run_chain_eq g x : forall cbs c, locked c = true ->
    run_chain beh n1 g x cbs c = run_chain beh n2 g x cbs c.
  Proof.
    induction cbs as [|cb r IH]; intros c L; simpl; auto.
    destruct r as [|cb2 r2]; [apply run_cb_eq; exact L|].
    rewrite run_cb_eq by exact L.
    destruct (run_cb beh n2 g x cb c) as [c1 v|c1 e|] eqn:E; simpl; auto.
    destruct (truthy v); auto. apply IH. locked_after E. congruence.
  Qed.

  Lemma run_wrapper_eq g x w c : locked c = true ->
    run_wrapper beh n1 g x w c = run_wrapper beh n2 g x w c.
  Proof. intros L. unfold run_wrapper. rewrite run_chain_eq by exact L. reflexivity. Qed.

  Lemma call_list_eq g x : forall ws c, locked c = true ->
    call_list beh n1 g x ws c = call_list beh n2 g x ws c.
  Proof.
    induction ws as [|w r IH]; intros c L; simpl; auto.
    rewrite run_wrapper_eq by exact L.
    destruct (run_wrapper beh n2 g x w c) as [c1 v|c1 e|] eqn:E; simpl; auto.
    rewrite IH; auto. locked_after E. congruence.
  Qed.

  Lemma call_group_eq g x ws c : locked c = true ->
    call_group beh n1 rm g x ws c = call_group beh n2 rm g x ws c.
  Proof.
    intros L. unfold call_group. destruct (order_shows beh rm c _); apply call_list_eq; simpl; exact L.
  Qed.

  Lemma all_list_eq g x : forall ws c, locked c = true ->
    all_list beh n1 g x ws c = all_list beh n2 g x ws c.
  Proof.
    induction ws as [|w r IH]; intros c L; simpl; auto.
    rewrite run_wrapper_eq by exact L.
    destruct (run_wrapper beh n2 g x w c) as [c1 v|c1 e|] eqn:E; simpl; auto.
    destruct (truthy v); auto. apply IH. locked_after E. congruence.
  Qed.

  Lemma all_list_async_eq g x : forall ws c, locked c = true ->
    all_list_async beh n1 g x ws c = all_list_async beh n2 g x ws c.
  Proof.
    induction ws as [|w r IH]; intros c L; simpl; auto.
    rewrite run_wrapper_eq by exact L.
    destruct (run_wrapper beh n2 g x w c) as [c1 v|c1 e|] eqn:E; simpl; auto.
    rewrite IH; auto. locked_after E. congruence.
  Qed.

  Lemma all_group_eq g x ws c : locked c = true ->
    all_group beh n1 rm g x ws c = all_group beh n2 rm g x ws c.
  Proof.
    intros L. unfold all_group.
    destruct (order_shows beh rm c _); destruct (rm_async rm);
      first [rewrite all_list_eq by (simpl; exact L) | rewrite all_list_async_eq by (simpl; exact L)];
      reflexivity.
  Qed.

  Lemma activate_pre_eq t x c : locked c = true ->
    activate_pre beh n1 rm t x c = activate_pre beh n2 rm t x c.
  Proof.
    intros L. unfold activate_pre.
    rewrite call_group_eq by exact L.
    destruct (call_group beh n2 rm GValidators x (a_validators t) c) as [c1 v|c1 e|] eqn:E1; simpl; auto.
    locked_after E1. rewrite all_group_eq by congruence.
    destruct (all_group beh n2 rm GCond x (a_cond t) c1) as [c2 ok|c2 e|] eqn:E2; simpl; auto.
    locked_after E2. destruct (negb ok); auto.
    rewrite call_group_eq by congruence.
    destruct (call_group beh n2 rm GBefore x (a_before t) c2) as [c3 rb|c3 e|] eqn:E3; simpl; auto.
    locked_after E3.
    destruct (a_internal t); simpl.
    - rewrite call_group_eq by congruence. reflexivity.
    - rewrite call_group_eq by congruence.
      destruct (call_group beh n2 rm GExit x (a_exit t) c3) as [c4 ex|c4 e|] eqn:E4; simpl; auto.
      locked_after E4. rewrite call_group_eq by congruence. reflexivity.
  Qed.

  Lemma activate_post_eq t x c : locked c = true ->
    activate_post beh n1 rm t x c = activate_post beh n2 rm t x c.
  Proof.
    intros L. unfold activate_post.
    destruct (a_internal t); simpl.
    - rewrite call_group_eq by (simpl; exact L). reflexivity.
    - rewrite call_group_eq by (simpl; exact L).
      destruct (call_group beh n2 rm GEnter _ (a_enter t) _) as [c1 v|c1 e|] eqn:E1; simpl; auto.
      locked_after E1. simpl in *. rewrite call_group_eq by congruence. reflexivity.
  Qed.

  Lemma activate_eq t td c : locked c = true ->
    activate beh n1 rm t td c = activate beh n2 rm t td c.
  Proof.
    intros L. unfold activate.
    rewrite activate_pre_eq by (simpl; exact L).
    destruct (activate_pre beh n2 rm t _ _) as [c1 r|c1 e|] eqn:E1; simpl; auto.
    destruct r as [v|]; auto.
    locked_after E1. simpl in *. rewrite activate_post_eq by congruence. reflexivity.
  Qed.

  Lemma try_candidates_eq e s td : forall cands c, locked c = true ->
    try_candidates beh n1 rm cands e s td c = try_candidates beh n2 rm cands e s td c.
  Proof.
    induction cands as [|t r IH]; intros c L; simpl; auto.
    destruct (matches t e); [|apply IH; exact L].
    rewrite activate_eq by exact L.
    destruct (activate beh n2 rm (atrans_of rm t) td c) as [c1 er|c1 x|] eqn:E1; simpl; auto.
    destruct (fst er); auto. apply IH. locked_after E1. congruence.
  Qed.

  Lemma trigger_eq td c : locked c = true -> trigger beh n1 rm td c = trigger beh n2 rm td c.
  Proof.
    intros L. unfold trigger.
    destruct (td_ev td) as [e|].
    - simpl. destruct (field c) as [s|]; auto. rewrite try_candidates_eq by (simpl; exact L). reflexivity.
    - rewrite activate_eq by (simpl; exact L). reflexivity.
  Qed.

  Lemma drain_eq : forall fuel c first, locked c = true ->
    drain beh n1 rm fuel c first = drain beh n2 rm fuel c first.
  Proof.
    induction fuel as [|f IH]; intros c first L; simpl; auto.
    destruct (queue c) as [|td q]; auto.
    rewrite trigger_eq by (simpl; exact L).
    pose proof (sl_trigger beh n2 rm lock2 td (set_queue c q)) as P.
    destruct (trigger beh n2 rm td (set_queue c q)) as [c1 r|c1 x|]; auto.
    apply IH. simpl in P. unfold same_lock in P. simpl in P. congruence.
  Qed.
End TwoRuns.

Lemma flat_nested_lock td c : Rres same_lock c (flat_nested td c).
Proof. reflexivity. Qed.

(* Engine_refines_Flat *)
Theorem send_rtc_is_flat beh rm f td c :
  send_rtc beh rm (S (S f)) td c = send_flat beh rm (S f) td c.
Proof.
  unfold send_flat. cbn [send_rtc].
  destruct (locked (enqueue td c)); auto.
  apply drain_eq; auto using flat_nested_lock.
  intros td' c' L. cbn [send_rtc]. unfold flat_nested.
  assert (locked (enqueue td' c') = true) as -> by (simpl; exact L). reflexivity.
Qed.
