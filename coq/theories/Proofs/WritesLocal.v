(* C02 with callbacks that assign the state themselves (AWrite, the low-level API): what a group
   execution does depends only on the scripts of the callbacks it runs, so a statement proved for
   behaviours without writes ([no_writes]) transfers to any behaviour whose callbacks OF THE GROUPS
   CONCERNED do not write - whatever the callbacks of other groups do.  Used for: every enter / after
   callback sees the target, whatever the validators / guards / before / exit / on callbacks stored. *)
From Coq Require Import List Arith Bool Lia.
Import ListNotations.
From PySM Require Import Impl.Engine Proofs.EngineFrame Proofs.EngineLog Proofs.EngineProofs.

(* ---------- two behaviours that agree on the callbacks of some wrappers ---------- *)
Section Agree.
  Variables b1 b2 : behaviour.
  Variable nested : tdata -> cfg -> res pyres.
  Variable rm : rmachine.
  Variable P : cbref -> Prop.
  Hypothesis agree : forall cb n, P cb -> b1 cb n = b2 cb n.

  Definition within (ws : list wrapper) : Prop := forall w cb, In w ws -> In cb (w_cbs w) -> P cb.

  Lemma run_cb_agree g x cb c : P cb -> run_cb b1 nested g x cb c = run_cb b2 nested g x cb c.
  Proof. intros H. unfold run_cb. rewrite (agree _ _ H). reflexivity. Qed.

  Lemma run_chain_agree g x : forall cbs c, (forall cb, In cb cbs -> P cb) ->
    run_chain b1 nested g x cbs c = run_chain b2 nested g x cbs c.
  Proof.
    induction cbs as [|cb r IH]; intros c H; simpl; auto.
    assert (Hcb : P cb) by (apply H; left; reflexivity).
    assert (Hr : forall cb', In cb' r -> P cb') by (intros cb' I; apply H; right; exact I).
    destruct r as [|cb2 r2]; [apply run_cb_agree; exact Hcb|].
    rewrite (run_cb_agree g x cb c Hcb).
    destruct (run_cb b2 nested g x cb c) as [c1 v|c1 e|]; simpl; auto.
    destruct (truthy v); auto. apply IH. exact Hr.
  Qed.

  Lemma run_wrapper_agree g x w c : (forall cb, In cb (w_cbs w) -> P cb) ->
    run_wrapper b1 nested g x w c = run_wrapper b2 nested g x w c.
  Proof. intros H. unfold run_wrapper. rewrite (run_chain_agree g x (w_cbs w) c H). reflexivity. Qed.

  Lemma call_list_agree g x : forall ws c, within ws ->
    call_list b1 nested g x ws c = call_list b2 nested g x ws c.
  Proof.
    induction ws as [|w r IH]; intros c H; simpl; auto.
    rewrite (run_wrapper_agree g x w c) by (intros cb I; apply (H w cb); [left; reflexivity|exact I]).
    destruct (run_wrapper b2 nested g x w c) as [c1 v|c1 e|]; simpl; auto.
    rewrite IH by (intros w' cb I J; apply (H w' cb); [right; exact I|exact J]). reflexivity.
  Qed.

  Lemma order_shows_agree c cbs : (forall cb, In cb cbs -> P cb) ->
    order_shows b1 rm c cbs = order_shows b2 rm c cbs.
  Proof.
    intros H. unfold order_shows.
    assert (E : map (cur_script b1 c) cbs = map (cur_script b2 c) cbs).
    { apply map_ext_in. intros cb I. unfold cur_script. apply agree. apply H. exact I. }
    rewrite E. reflexivity.
  Qed.

  Lemma within_filter f ws : within ws -> within (filter f ws).
  Proof. intros H w cb I J. apply filter_In in I. apply (H w cb); [apply I|exact J]. Qed.

  Lemma within_cbs ws : within ws -> forall cb, In cb (flat_map w_cbs ws) -> P cb.
  Proof. intros H cb I. apply in_flat_map in I. destruct I as (w & Iw & Ic). apply (H w cb Iw Ic). Qed.

  Lemma call_group_agree g x ws c : within ws ->
    call_group b1 nested rm g x ws c = call_group b2 nested rm g x ws c.
  Proof.
    intros H. unfold call_group.
    pose proof (within_filter (admitted x) ws H) as Hf.
    rewrite (order_shows_agree c _ (within_cbs _ Hf)).
    destruct (order_shows b2 rm c _); apply call_list_agree; exact Hf.
  Qed.

  Lemma all_list_agree g x : forall ws c, within ws ->
    all_list b1 nested g x ws c = all_list b2 nested g x ws c.
  Proof.
    induction ws as [|w r IH]; intros c H; simpl; auto.
    rewrite (run_wrapper_agree g x w c) by (intros cb I; apply (H w cb); [left; reflexivity|exact I]).
    destruct (run_wrapper b2 nested g x w c) as [c1 v|c1 e|]; simpl; auto.
    destruct (truthy v); auto.
    apply IH. intros w' cb I J. apply (H w' cb); [right; exact I|exact J].
  Qed.

  Lemma all_list_async_agree g x : forall ws c, within ws ->
    all_list_async b1 nested g x ws c = all_list_async b2 nested g x ws c.
  Proof.
    induction ws as [|w r IH]; intros c H; simpl; auto.
    rewrite (run_wrapper_agree g x w c) by (intros cb I; apply (H w cb); [left; reflexivity|exact I]).
    destruct (run_wrapper b2 nested g x w c) as [c1 v|c1 e|]; simpl; auto.
    rewrite IH by (intros w' cb I J; apply (H w' cb); [right; exact I|exact J]). reflexivity.
  Qed.

  Lemma all_group_agree g x ws c : within ws ->
    all_group b1 nested rm g x ws c = all_group b2 nested rm g x ws c.
  Proof.
    intros H. unfold all_group.
    rewrite (order_shows_agree c _ (within_cbs _ H)).
    destruct (rm_async rm).
    - rewrite (all_list_async_agree g x ws _ H). reflexivity.
    - rewrite (all_list_agree g x ws _ H). reflexivity.
  Qed.

  Lemma activate_pre_agree t x c :
    within (a_validators t) -> within (a_cond t) -> within (a_before t) ->
    (a_internal t = false -> within (a_exit t)) -> within (a_on t) ->
    activate_pre b1 nested rm t x c = activate_pre b2 nested rm t x c.
  Proof.
    intros Hv Hc Hb Hx Ho. unfold activate_pre.
    rewrite (call_group_agree GValidators x _ c Hv).
    destruct (call_group b2 nested rm GValidators x _ c) as [c1 v1|c1 e|]; simpl; auto.
    rewrite (all_group_agree GCond x _ c1 Hc).
    destruct (all_group b2 nested rm GCond x _ c1) as [c2 ok|c2 e|]; simpl; auto.
    destruct (negb ok); auto.
    rewrite (call_group_agree GBefore x _ c2 Hb).
    destruct (call_group b2 nested rm GBefore x _ c2) as [c3 rb|c3 e|]; simpl; auto.
    destruct (a_internal t) eqn:N; simpl.
    - rewrite (call_group_agree GOn x _ c3 Ho). reflexivity.
    - rewrite (call_group_agree GExit x _ c3 (Hx eq_refl)).
      destruct (call_group b2 nested rm GExit x _ c3) as [c4 vx|c4 e|]; simpl; auto.
      rewrite (call_group_agree GOn x _ c4 Ho). reflexivity.
  Qed.

  Lemma activate_post_agree t x c :
    (a_internal t = false -> within (a_enter t)) -> within (a_after t) ->
    activate_post b1 nested rm t x c = activate_post b2 nested rm t x c.
  Proof.
    intros Hn Ha. unfold activate_post.
    destruct (a_internal t) eqn:N; simpl.
    - rewrite (call_group_agree GAfter _ _ _ Ha). reflexivity.
    - rewrite (call_group_agree GEnter _ _ _ (Hn eq_refl)).
      destruct (call_group b2 nested rm GEnter _ _ _) as [c1 v|c1 e|]; simpl; auto.
      rewrite (call_group_agree GAfter _ _ _ Ha). reflexivity.
  Qed.

  (* all the callbacks one _activate call can run *)
  Definition covered (t : atrans) : Prop :=
    within (a_validators t) /\ within (a_cond t) /\ within (a_before t) /\
    (a_internal t = false -> within (a_exit t)) /\ within (a_on t) /\
    (a_internal t = false -> within (a_enter t)) /\ within (a_after t).

  Lemma activate_agree t td c : covered t -> activate b1 nested rm t td c = activate b2 nested rm t td c.
  Proof.
    intros (Hv & Hc & Hb & Hx & Ho & Hn & Ha). unfold activate.
    rewrite (activate_pre_agree t _ _ Hv Hc Hb Hx Ho).
    destruct (activate_pre b2 nested rm t _ _) as [c1 [v|]|c1 e|]; simpl; auto.
    rewrite (activate_post_agree t _ c1 Hn Ha). reflexivity.
  Qed.

  Lemma try_candidates_agree : forall cands e s td c,
    (forall t, In t cands -> covered (atrans_of rm t)) ->
    try_candidates b1 nested rm cands e s td c = try_candidates b2 nested rm cands e s td c.
  Proof.
    induction cands as [|t r IH]; intros e s td c H; simpl; auto.
    assert (Hr : forall t', In t' r -> covered (atrans_of rm t')) by (intros t' I; apply H; right; exact I).
    destruct (matches t e); [|apply IH; exact Hr].
    rewrite (activate_agree (atrans_of rm t) td c (H t (or_introl eq_refl))).
    destruct (activate b2 nested rm (atrans_of rm t) td c) as [c1 er|c1 x|]; simpl; auto.
    destruct (fst er); auto.
  Qed.
End Agree.

(* ---------- the behaviour with every write removed ---------- *)
Definition strip_script (s : script) : script :=
  {| acts := filter (fun a => negb (is_write a)) (acts s); ret := ret s |}.
Definition strip (beh : behaviour) : behaviour := fun cb n => strip_script (beh cb n).

Lemma no_write_after_filter : forall l, existsb is_write (filter (fun a => negb (is_write a)) l) = false.
Proof.
  induction l as [|a l IH]; simpl; auto.
  destruct (is_write a) eqn:E; simpl; auto. rewrite E. exact IH.
Qed.

Lemma strip_no_writes beh : no_writes (strip beh).
Proof. intros cb n. unfold strip, strip_script. simpl. apply no_write_after_filter. Qed.

Lemma filter_id_when_no_write : forall l, existsb is_write l = false -> filter (fun a => negb (is_write a)) l = l.
Proof.
  induction l as [|a l IH]; simpl; auto. intros H. apply orb_false_iff in H. destruct H as (Ha & Hl).
  rewrite Ha. simpl. rewrite (IH Hl). reflexivity.
Qed.

Lemma strip_same_where_no_write beh cb n :
  existsb is_write (acts (beh cb n)) = false -> beh cb n = strip beh cb n.
Proof.
  intros H. unfold strip, strip_script. rewrite (filter_id_when_no_write _ H). destruct (beh cb n); reflexivity.
Qed.

(* ---------- the second half of a transition ---------- *)
Definition second_half_cbs (t : atrans) : list cbref :=
  flat_map w_cbs (if a_internal t then a_after t else a_enter t ++ a_after t).

Definition quiet (beh : behaviour) (cbs : list cbref) : Prop :=
  forall cb n, In cb cbs -> existsb is_write (acts (beh cb n)) = false.

Section SecondHalf.
  Variable beh : behaviour.
  Variable rm : rmachine.
  Variable t : atrans.
  (* the enter(target) and after callbacks of this transition do not assign the state themselves;
     nothing is assumed about any other callback *)
  Hypothesis Q : quiet beh (second_half_cbs t).

  Let P (cb : cbref) : Prop := In cb (second_half_cbs t).

  Lemma agree_strip : forall cb n, P cb -> beh cb n = strip beh cb n.
  Proof. intros cb n H. apply strip_same_where_no_write. apply Q. exact H. Qed.

  Lemma within_after : within P (a_after t).
  Proof.
    intros w cb I J. unfold P, second_half_cbs. apply in_flat_map. exists w. split; [|exact J].
    destruct (a_internal t); [exact I|apply in_or_app; right; exact I].
  Qed.

  Lemma within_enter : a_internal t = false -> within P (a_enter t).
  Proof.
    intros N w cb I J. unfold P, second_half_cbs. rewrite N. apply in_flat_map. exists w. split; [|exact J].
    apply in_or_app; left; exact I.
  Qed.

  Lemma post_body_strip x c :
    (do (c1, _n) <- (if a_internal t then Ok c [] else call_group beh flat_nested rm GEnter x (a_enter t) c);
     do (c2, _a) <- call_group beh flat_nested rm GAfter x (a_after t) c1; Ok c2 tt)
    = (do (c1, _n) <- (if a_internal t then Ok c [] else call_group (strip beh) flat_nested rm GEnter x (a_enter t) c);
       do (c2, _a) <- call_group (strip beh) flat_nested rm GAfter x (a_after t) c1; Ok c2 tt).
  Proof.
    destruct (a_internal t) eqn:N.
    - simpl. rewrite (call_group_agree beh (strip beh) flat_nested rm P agree_strip GAfter x (a_after t) c within_after).
      reflexivity.
    - rewrite (call_group_agree beh (strip beh) flat_nested rm P agree_strip GEnter x (a_enter t) c (within_enter N)).
      destruct (call_group (strip beh) flat_nested rm GEnter x (a_enter t) c) as [c1 v|c1 e|]; simpl; auto.
      rewrite (call_group_agree beh (strip beh) flat_nested rm P agree_strip GAfter x (a_after t) c1 within_after).
      reflexivity.
  Qed.

  (* every callback of the second half is logged with the target as stored state (and at the depth the half
     started at), and the half ends with the target stored - whatever was stored when `on` ended *)
  Theorem second_half_sees_target x c :
    Rres (sees (depth c) (Some (a_tgt t))) (set_field c (Some (a_tgt t))) (activate_post beh flat_nested rm t x c).
  Proof.
    unfold activate_post. rewrite post_body_strip.
    apply (sees_activate_post_body (strip beh) rm (depth c) (Some (a_tgt t)) (strip_no_writes beh)).
  Qed.

  Corollary second_half_ends_in_target x c c' u :
    activate_post beh flat_nested rm t x c = Ok c' u ->
    field c' = Some (a_tgt t) /\
    exists l, log c' = l ++ log c /\ Forall (entry_sees (depth c) (Some (a_tgt t))) l.
  Proof.
    intros H. pose proof (second_half_sees_target x c) as S. rewrite H in S. simpl in S.
    destruct (S eq_refl eq_refl) as (_ & F & l & L & A). split; [exact F|]. exists l. split; assumption.
  Qed.
End SecondHalf.

(* ---------- the first half of a transition ---------- *)
Definition first_half_cbs (t : atrans) : list cbref :=
  flat_map w_cbs (a_validators t ++ a_cond t ++ a_before t ++ (if a_internal t then [] else a_exit t) ++ a_on t).

Section FirstHalf.
  Variable beh : behaviour.
  Variable rm : rmachine.
  Variable t : atrans.
  (* the validators, guards, before, exit(source) and on callbacks of this transition do not assign the state
     themselves; nothing is assumed about any other callback of the machine *)
  Hypothesis Q : quiet beh (first_half_cbs t).

  Let P (cb : cbref) : Prop := In cb (first_half_cbs t).

  Lemma agree_strip1 : forall cb n, P cb -> beh cb n = strip beh cb n.
  Proof. intros cb n H. apply strip_same_where_no_write. apply Q. exact H. Qed.

  Ltac inside := intros w cb I J; unfold P, first_half_cbs; apply in_flat_map; exists w; split; [|exact J];
                 repeat (apply in_or_app; first [left; exact I | right]); try exact I.

  Lemma w_val : within P (a_validators t). Proof. inside. Qed.
  Lemma w_cond : within P (a_cond t). Proof. inside. Qed.
  Lemma w_before : within P (a_before t). Proof. inside. Qed.
  Lemma w_on : within P (a_on t). Proof. inside. Qed.
  Lemma w_exit : a_internal t = false -> within P (a_exit t).
  Proof.
    intros N w cb I J. unfold P, first_half_cbs. rewrite N. apply in_flat_map. exists w. split; [|exact J].
    apply in_or_app; right. apply in_or_app; right. apply in_or_app; right. apply in_or_app; left. exact I.
  Qed.

  (* every callback of the first half is logged with the state that was stored when the half began (the source),
     and the half ends with it still stored *)
  Theorem first_half_sees_source d f x c : Rres (sees d f) c (activate_pre beh flat_nested rm t x c).
  Proof.
    rewrite (activate_pre_agree beh (strip beh) flat_nested rm P agree_strip1 t x c w_val w_cond w_before w_exit w_on).
    apply (sees_activate_pre (strip beh) rm d f (strip_no_writes beh)).
  Qed.
End FirstHalf.

(* ---------- one whole _activate call, and the candidate loop ---------- *)
Definition all_cbs (t : atrans) : list cbref := first_half_cbs t ++ second_half_cbs t.

Lemma covered_all_cbs t : covered (fun cb => In cb (all_cbs t)) t.
Proof.
  unfold covered, within, all_cbs, first_half_cbs, second_half_cbs.
  repeat split; intros; apply in_or_app.
  - left. apply in_flat_map. eexists; split; [|eassumption]. apply in_or_app; left; assumption.
  - left. apply in_flat_map. eexists; split; [|eassumption]. apply in_or_app; right; apply in_or_app; left; assumption.
  - left. apply in_flat_map. eexists; split; [|eassumption].
    apply in_or_app; right; apply in_or_app; right; apply in_or_app; left; assumption.
  - left. apply in_flat_map. eexists; split; [|eassumption].
    match goal with N : a_internal t = false |- _ => rewrite N end.
    apply in_or_app; right; apply in_or_app; right; apply in_or_app; right; apply in_or_app; left; assumption.
  - left. apply in_flat_map. eexists; split; [|eassumption].
    apply in_or_app; right; apply in_or_app; right; apply in_or_app; right; apply in_or_app; right; assumption.
  - right. match goal with N : a_internal t = false |- _ => rewrite N end.
    apply in_flat_map. eexists; split; [|eassumption]. apply in_or_app; left; assumption.
  - right. apply in_flat_map. eexists; split; [|eassumption].
    destruct (a_internal t); [assumption|apply in_or_app; right; assumption].
Qed.

Lemma covered_mono (P1 P2 : cbref -> Prop) t : (forall cb, P1 cb -> P2 cb) -> covered P1 t -> covered P2 t.
Proof.
  unfold covered, within. intros M (Hv & Hc & Hb & Hx & Ho & Hn & Ha).
  repeat split; intros; apply M; eauto.
Qed.


Section Local.
  Variable beh : behaviour.
  Variable nested : tdata -> cfg -> res pyres.
  Variable rm : rmachine.
  Hypothesis nested_grows : forall td c, Rres grows c (nested td c).

  (* one _activate call whose own callbacks do not assign the state themselves: the stored state is the
     target if it fired and unchanged if it was rejected (or failed before the assignment) - nothing is
     assumed about the callbacks of any other transition *)
  Theorem activate_effect_local t td c :
    quiet beh (all_cbs t) -> act_effect t c (activate beh nested rm t td c).
  Proof.
    intros Q.
    rewrite (activate_agree beh (strip beh) nested rm (fun cb => In cb (all_cbs t))
               (fun cb n H => strip_same_where_no_write beh cb n (Q cb n H)) t td c (covered_all_cbs t)).
    apply (activate_effect (strip beh) nested rm nested_grows (strip_no_writes beh)).
  Qed.

  Lemma covered_first t : quiet beh (first_half_cbs t) ->
    let P := fun cb => In cb (first_half_cbs t) in
    within P (a_validators t) /\ within P (a_cond t) /\ within P (a_before t) /\
    (a_internal t = false -> within P (a_exit t)) /\ within P (a_on t).
  Proof.
    intros _. repeat split.
    - apply w_val. - apply w_cond. - apply w_before. - apply w_exit. - apply w_on.
  Qed.

  (* the first half of a transition whose own first-half callbacks do not write leaves the stored state alone,
     returning or raising; the second half, when its own callbacks do not write, leaves the target stored *)
  Theorem activate_pre_grows_local t x c :
    quiet beh (first_half_cbs t) -> Rres grows c (activate_pre beh nested rm t x c).
  Proof.
    intros Q. destruct (covered_first t Q) as (Hv & Hc & Hb & Hx & Ho).
    rewrite (activate_pre_agree beh (strip beh) nested rm (fun cb => In cb (first_half_cbs t))
               (fun cb n H => strip_same_where_no_write beh cb n (Q cb n H)) t x c Hv Hc Hb Hx Ho).
    apply (activate_pre_grows (strip beh) nested rm nested_grows (strip_no_writes beh)).
  Qed.

  Theorem activate_post_grows_local t x c :
    quiet beh (second_half_cbs t) ->
    Rres grows (set_field c (Some (a_tgt t))) (activate_post beh nested rm t x c).
  Proof.
    intros Q.
    rewrite (activate_post_agree beh (strip beh) nested rm (fun cb => In cb (second_half_cbs t))
               (fun cb n H => strip_same_where_no_write beh cb n (Q cb n H)) t x c
               (within_enter t) (within_after t)).
    apply (activate_post_grows (strip beh) nested rm nested_grows (strip_no_writes beh)).
  Qed.

  Theorem activate_fails_in_pre_local t td c c' e :
    quiet beh (first_half_cbs t) ->
    activate_pre beh nested rm t (act_ctx t td c) (set_nact c (S (nact c))) = Exn c' e ->
    activate beh nested rm t td c = Exn c' e /\ field c' = field c.
  Proof.
    intros Q H. split; [unfold activate; rewrite H; reflexivity|].
    pose proof (activate_pre_grows_local t (act_ctx t td c) (set_nact c (S (nact c))) Q) as G.
    rewrite H in G. simpl in G. destruct G as (F & _). exact F.
  Qed.

  Theorem activate_fails_in_post_local t td c c1 v c' e :
    quiet beh (second_half_cbs t) ->
    activate_pre beh nested rm t (act_ctx t td c) (set_nact c (S (nact c))) = Ok c1 (Some v) ->
    activate_post beh nested rm t (act_ctx t td c) c1 = Exn c' e ->
    activate beh nested rm t td c = Exn c' e /\ field c' = Some (a_tgt t).
  Proof.
    intros Q H1 H2. split; [unfold activate; rewrite H1; simpl; rewrite H2; reflexivity|].
    pose proof (activate_post_grows_local t (act_ctx t td c) c1 Q) as G.
    rewrite H2 in G. simpl in G. destruct G as (F & _). exact F.
  Qed.

  (* skipping rejected candidates none of whose own callbacks writes *)
  Theorem skipped_grows_local e td cands c c1 :
    (forall t, In t cands -> quiet beh (all_cbs (atrans_of rm t))) ->
    Skipped beh nested rm e td cands c c1 -> grows c c1.
  Proof.
    intros Q H. induction H as [c|t r c c1 _ _ IH|t r c c0 c1 v _ Ha _ IH].
    - apply grows_refl.
    - apply IH. intros t' I. apply Q. right. exact I.
    - pose proof (activate_effect_local (atrans_of rm t) td c (Q t (or_introl eq_refl))) as E.
      rewrite Ha in E. inversion E; subst.
      eapply grows_trans; [eassumption|]. apply IH. intros t' I. apply Q. right. exact I.
  Qed.

  (* the candidate loop over transitions none of whose own callbacks writes *)
  Theorem try_candidates_field_local cands e (s : nat) td c :
    (forall t, In t cands -> quiet beh (all_cbs (atrans_of rm t))) ->
    match try_candidates beh nested rm cands e s td c with
    | Ok c' _ => field c' = field c \/ exists t, In t cands /\ matches t e = true /\ field c' = Some (rt_tgt t)
    | Exn c' (XNotAllowed e' s') => e' = e /\ s' = s /\ field c' = field c
                                    \/ (exists t, In t cands /\ (field c' = field c \/ field c' = Some (rt_tgt t)))
    | Exn c' _ => exists t, In t cands /\ matches t e = true /\ (field c' = field c \/ field c' = Some (rt_tgt t))
    | Fuel => True
    end.
  Proof.
    intros Q.
    set (P := fun cb => exists t, In t cands /\ In cb (all_cbs (atrans_of rm t))).
    assert (A : forall cb n, P cb -> beh cb n = strip beh cb n).
    { intros cb n (t & I & J). apply strip_same_where_no_write. apply (Q t I cb n J). }
    rewrite (try_candidates_agree beh (strip beh) nested rm P A cands e s td c).
    - apply (try_candidates_field (strip beh) nested rm nested_grows (strip_no_writes beh)).
    - intros t I. eapply covered_mono; [|apply covered_all_cbs]. intros cb J. exists t. split; assumption.
  Qed.
End Local.
