(* Log-aware frame: a relation between configurations that is closed under the bookkeeping updates
   and under logging *admissible* entries is respected by the whole callback machinery, provided the
   entries the machinery itself logs (a call record carrying the current stored state and engine
   depth, the outcome of a nested send) are admissible.  Instance: run-to-completion - every callback
   of a transition half is logged with the same stored state and at the same depth. *)
From Coq Require Import List Arith Bool Lia.
Import ListNotations.
From PySM Require Import Impl.Engine Proofs.EngineFrame.

Section LogFrame.
  Variable beh : behaviour.
  Variable nested : tdata -> cfg -> res pyres.
  Variable rm : rmachine.
  Variable R : cfg -> cfg -> Prop.
  Variable ok : cfg -> entry -> Prop.
  Hypothesis R_refl : forall c, R c c.
  Hypothesis R_trans : forall a b c, R a b -> R b c -> R a c.
  Hypothesis R_calls : forall c k, R c (set_calls c k).
  Hypothesis R_amb : forall c b, R c (set_amb c b).
  Hypothesis R_ambc : forall c b, R c (set_ambc c b).
  Hypothesis R_log : forall c e, ok c e -> R c (add_log c e).
  Hypothesis ok_nested : forall c r, ok c (ENested r).
  Hypothesis ok_call : forall c k act g cb ev src tgt st tag,
    ok (set_calls c k) (ECall act g cb ev src tgt st (field c) tag (depth c)).
  Hypothesis R_nested : forall td c, Rres R c (nested td c).
  Hypothesis R_write : (forall c f, R c (set_field c f)) \/ no_writes beh.

  Let bindR {A B} := @Rres_bind R R_trans A B.

  Lemma lrun_acts : forall l c,
    ((forall c f, R c (set_field c f)) \/ existsb is_write l = false) -> Rres R c (run_acts nested l c).
  Proof.
    induction l as [|a l IH]; intros c W; simpl; auto.
    destruct a as [e tag|x|s]; simpl; auto.
    - assert (W' : (forall c f, R c (set_field c f)) \/ existsb is_write l = false)
        by (destruct W as [W|W]; [left; exact W|right; exact W]).
      pose proof (R_nested {| td_ev := Some e; td_tag := tag |} c) as Hn.
      destruct (nested _ c) as [c' v|c' x|]; simpl in *; auto.
      + eapply (Rres_pre R R_trans); [|apply IH; exact W']. eapply R_trans; [exact Hn|apply R_log, ok_nested].
      + eapply R_trans; [exact Hn|apply R_log, ok_nested].
    - destruct W as [W|W]; [|simpl in W; discriminate].
      eapply (Rres_pre R R_trans); [apply W|]. apply IH. left; exact W.
  Qed.

  Lemma lrun_cb : forall g x cb c, Rres R c (run_cb beh nested g x cb c).
  Proof.
    intros g x cb c. unfold run_cb. apply bindR.
    - eapply (Rres_pre R R_trans); [|apply lrun_acts; destruct R_write as [W|W]; [left; exact W|right; apply W]].
      eapply R_trans; [apply R_calls|]. apply R_log. apply ok_call.
    - intros c' a _. simpl. auto.
  Qed.

  Lemma lrun_chain : forall g x cbs c, Rres R c (run_chain beh nested g x cbs c).
  Proof.
    induction cbs as [|cb r IH]; intros c; simpl; auto.
    destruct r as [|cb2 r2]; [apply lrun_cb|].
    apply bindR; [apply lrun_cb|]. intros c' v _. destruct (truthy v); [apply IH|simpl; auto].
  Qed.

  Lemma lrun_wrapper : forall g x w c, Rres R c (run_wrapper beh nested g x w c).
  Proof.
    intros. unfold run_wrapper. apply bindR; [apply lrun_chain|].
    intros c' v _. destruct (w_expected w); simpl; auto.
  Qed.

  Lemma lcall_list : forall g x ws c, Rres R c (call_list beh nested g x ws c).
  Proof.
    induction ws as [|w r IH]; intros c; simpl; auto.
    apply bindR; [apply lrun_wrapper|]. intros c1 v _.
    apply bindR; [apply IH|]. intros c2 vs _. simpl. auto.
  Qed.

  Lemma lcall_group : forall g x ws c, Rres R c (call_group beh nested rm g x ws c).
  Proof.
    intros. unfold call_group.
    destruct (order_shows beh rm c _); [eapply (Rres_pre R R_trans); [apply R_amb|]|]; apply lcall_list.
  Qed.

  Lemma lall_list : forall g x ws c, Rres R c (all_list beh nested g x ws c).
  Proof.
    induction ws as [|w r IH]; intros c; simpl; auto.
    apply bindR; [apply lrun_wrapper|]. intros c1 v _. destruct (truthy v); [apply IH|simpl; auto].
  Qed.

  Lemma lall_list_async : forall g x ws c, Rres R c (all_list_async beh nested g x ws c).
  Proof.
    induction ws as [|w r IH]; intros c; simpl; auto.
    apply bindR; [apply lrun_wrapper|]. intros c1 v _.
    apply bindR; [apply IH|]. intros c2 b _. simpl. auto.
  Qed.

  Lemma lall_group : forall g x ws c, Rres R c (all_group beh nested rm g x ws c).
  Proof.
    intros. unfold all_group. apply bindR.
    - destruct (order_shows beh rm c _);
        [eapply (Rres_pre R R_trans); [eapply R_trans; [apply R_amb|apply R_ambc]|]|];
        destruct (rm_async rm); auto using lall_list, lall_list_async.
    - intros c1 b _. simpl. destruct (_ && _); auto.
  Qed.

  Lemma lactivate_pre : forall t x c, Rres R c (activate_pre beh nested rm t x c).
  Proof.
    intros. unfold activate_pre.
    apply bindR; [apply lcall_group|]. intros c1 _ _.
    apply bindR; [apply lall_group|]. intros c2 okk _.
    destruct (negb okk); [simpl; auto|].
    apply bindR; [apply lcall_group|]. intros c3 rb _.
    apply bindR; [destruct (a_internal t); [simpl; auto|apply lcall_group]|]. intros c4 _ _.
    apply bindR; [apply lcall_group|]. intros c5 ro _. simpl. auto.
  Qed.

  (* the part of the second half after the assignment *)
  Lemma lactivate_post_body : forall t x c,
    Rres R c (do (c1, _n) <- (if a_internal t then Ok c [] else call_group beh nested rm GEnter x (a_enter t) c);
              do (c2, _a) <- call_group beh nested rm GAfter x (a_after t) c1; Ok c2 tt).
  Proof.
    intros. apply bindR; [destruct (a_internal t); [simpl; auto|apply lcall_group]|]. intros c1 _ _.
    apply bindR; [apply lcall_group|]. intros c2 _ _. simpl. auto.
  Qed.

  (* relations that also ignore the assignment of the state and the activation counter *)
  Hypothesis R_field : forall c f, R c (set_field c f).
  Hypothesis R_nact : forall c n, R c (set_nact c n).

  Lemma lactivate_post : forall t x c, Rres R c (activate_post beh nested rm t x c).
  Proof.
    intros. unfold activate_post. eapply (Rres_pre R R_trans); [apply R_field|]. apply lactivate_post_body.
  Qed.

  Lemma lactivate : forall t td c, Rres R c (activate beh nested rm t td c).
  Proof.
    intros. unfold activate. eapply (Rres_pre R R_trans); [apply R_nact|].
    apply bindR; [apply lactivate_pre|]. intros c1 r _.
    destruct r as [v|]; [|simpl; auto].
    apply bindR; [apply lactivate_post|]. intros c2 _ _. simpl. auto.
  Qed.

  Lemma ltry_candidates : forall cands e s td c, Rres R c (try_candidates beh nested rm cands e s td c).
  Proof.
    induction cands as [|t r IH]; intros; simpl.
    - destruct (rm_allow rm); simpl; auto.
    - destruct (matches t e); [|apply IH].
      apply bindR; [apply lactivate|]. intros c1 er _.
      destruct (fst er); [simpl; auto|apply IH].
  Qed.
End LogFrame.

(* ---------- instance: what callbacks see while one half of a transition runs ---------- *)
Definition entry_sees (d : nat) (f : option nat) (e : entry) : Prop :=
  match e with
  | ECall _ _ _ _ _ _ _ csv _ dep => dep = d /\ csv = f
  | ENested _ => True
  end.

(* from a configuration at depth d storing f: depth and stored state stay, the log grows by entries
   that all saw (d, f) *)
Definition sees (d : nat) (f : option nat) (c c' : cfg) : Prop :=
  depth c = d -> field c = f ->
  depth c' = d /\ field c' = f /\ exists l, log c' = l ++ log c /\ Forall (entry_sees d f) l.

Lemma sees_refl d f c : sees d f c c.
Proof. intros D F. repeat split; auto. exists []. split; auto. Qed.

Lemma sees_trans d f a b c : sees d f a b -> sees d f b c -> sees d f a c.
Proof.
  intros H1 H2 D F. destruct (H1 D F) as (D1 & F1 & l1 & L1 & A1). destruct (H2 D1 F1) as (D2 & F2 & l2 & L2 & A2).
  repeat split; auto. exists (l2 ++ l1). split; [rewrite L2, L1, app_assoc; reflexivity|apply Forall_app; auto].
Qed.

Lemma sees_flat d f td c : Rres (sees d f) c (flat_nested td c).
Proof. simpl. intros D F. repeat split; auto. exists []. split; auto. Qed.

Section Sees.
  Variable beh : behaviour.
  Variable rm : rmachine.
  Variables (d : nat) (f : option nat).
  (* no callback assigns the state itself *)
  Hypothesis NW : no_writes beh.

  Ltac ghost := intros; intros D F; simpl; repeat split; auto; exists []; split; auto.

  Lemma sees_activate_pre t x c : Rres (sees d f) c (activate_pre beh flat_nested rm t x c).
  Proof.
    apply (lactivate_pre beh flat_nested rm (sees d f) (fun c e => depth c = d -> field c = f -> entry_sees d f e)).
    - apply sees_refl.
    - apply sees_trans.
    - ghost.
    - ghost.
    - ghost.
    - intros c0 e H D F. simpl. repeat split; auto. exists [e]. split; auto.
    - intros c0 r _ _. exact I.
    - intros c0 k act g cb ev src tgt st tag D F. simpl in *. split; auto.
    - apply sees_flat.
    - right; exact NW.
  Qed.

  Lemma sees_activate_post_body t x c :
    Rres (sees d f) c
      (do (c1, _n) <- (if a_internal t then Ok c [] else call_group beh flat_nested rm GEnter x (a_enter t) c);
       do (c2, _a) <- call_group beh flat_nested rm GAfter x (a_after t) c1; Ok c2 tt).
  Proof.
    apply (lactivate_post_body beh flat_nested rm (sees d f) (fun c e => depth c = d -> field c = f -> entry_sees d f e)).
    - apply sees_refl.
    - apply sees_trans.
    - ghost.
    - ghost.
    - intros c0 e H D F. simpl. repeat split; auto. exists [e]. split; auto.
    - intros c0 r _ _. exact I.
    - intros c0 k act g cb ev src tgt st tag D F. simpl in *. split; auto.
    - apply sees_flat.
    - right; exact NW.
  Qed.
End Sees.

(* ---------- instance: the engine depth at which callbacks run ---------- *)
Definition depth_is (k : nat) (e : entry) : Prop :=
  match e with ECall _ _ _ _ _ _ _ _ _ dep => dep = k | ENested _ => True end.

Definition deep (k : nat) (c c' : cfg) : Prop :=
  depth c = k -> depth c' = k /\ exists l, log c' = l ++ log c /\ Forall (depth_is k) l.

Lemma deep_refl k c : deep k c c.
Proof. intros D. split; auto. exists []. split; auto. Qed.

Lemma deep_trans k a b c : deep k a b -> deep k b c -> deep k a c.
Proof.
  intros H1 H2 D. destruct (H1 D) as (D1 & l1 & L1 & A1). destruct (H2 D1) as (D2 & l2 & L2 & A2).
  split; auto. exists (l2 ++ l1). split; [rewrite L2, L1, app_assoc; reflexivity|apply Forall_app; auto].
Qed.

Section Deep.
  Variable beh : behaviour.
  Variable rm : rmachine.
  Variable k : nat.
  Ltac ghostd := intros; intros D; simpl; split; auto; exists []; split; auto.

  Lemma deep_flat td c : Rres (deep k) c (flat_nested td c).
  Proof. simpl. intros D. split; auto. exists []. split; auto. Qed.

  Lemma deep_try_candidates cands e s td c : Rres (deep k) c (try_candidates beh flat_nested rm cands e s td c).
  Proof.
    apply (ltry_candidates beh flat_nested rm (deep k) (fun c e => depth c = k -> depth_is k e)).
    - apply deep_refl.
    - apply deep_trans.
    - ghostd.
    - ghostd.
    - ghostd.
    - intros c0 e0 H D. simpl. split; auto. exists [e0]. split; auto.
    - intros c0 r _. exact I.
    - intros c0 kk act g cb ev src tgt st tag D. simpl in *. exact D.
    - apply deep_flat.
    - left; ghostd.
    - ghostd.
    - ghostd.
  Qed.

  Lemma deep_activate t td c : Rres (deep k) c (activate beh flat_nested rm t td c).
  Proof.
    apply (lactivate beh flat_nested rm (deep k) (fun c e => depth c = k -> depth_is k e)).
    - apply deep_refl.
    - apply deep_trans.
    - ghostd.
    - ghostd.
    - ghostd.
    - intros c0 e0 H D. simpl. split; auto. exists [e0]. split; auto.
    - intros c0 r _. exact I.
    - intros c0 kk act g cb ev src tgt st tag D. simpl in *. exact D.
    - apply deep_flat.
    - left; ghostd.
    - ghostd.
    - ghostd.
  Qed.
End Deep.

(* one event: every callback it runs is logged at depth (depth c) + 1, and the depth is restored *)
Definition trigger_log (c c' : cfg) : Prop :=
  depth c' = depth c /\ exists l, log c' = l ++ log c /\ Forall (depth_is (S (depth c))) l.

Lemma trigger_depth beh rm td c : Rres trigger_log c (trigger beh flat_nested rm td c).
Proof.
  unfold trigger.
  set (c1 := set_depth c (S (depth c))).
  assert (D1 : depth c1 = S (depth c)) by reflexivity.
  assert (L1 : log c1 = log c) by reflexivity.
  destruct (td_ev td) as [e|].
  - simpl. destruct (field c) as [s|] eqn:F.
    + pose proof (deep_try_candidates beh rm (S (depth c)) (outs rm s) e s td c1) as H.
      destruct (try_candidates beh flat_nested rm (outs rm s) e s td c1) as [c2 v|c2 x|]; auto.
      * destruct (H D1) as (D2 & l & L & A). unfold trigger_log. simpl. split; auto. exists l. rewrite L. auto.
      * destruct (H D1) as (D2 & l & L & A). unfold trigger_log. simpl. split; auto. exists l. rewrite L. auto.
    + unfold trigger_log. simpl. split; auto. exists []. auto.
  - pose proof (deep_activate beh rm (S (depth c)) (initial_atrans rm) td c1) as H.
    destruct (activate beh flat_nested rm (initial_atrans rm) td c1) as [c2 v|c2 x|]; auto.
    + destruct (H D1) as (D2 & l & L & A). unfold trigger_log. simpl. split; auto. exists l. rewrite L. auto.
    + destruct (H D1) as (D2 & l & L & A). unfold trigger_log. simpl. split; auto. exists l. rewrite L. auto.
Qed.

(* the whole drain loop, whatever the number of events processed (chains of any length): every
   callback is logged at depth (depth c) + 1 *)
Definition drain_log (c c' : cfg) : Prop :=
  depth c' = depth c /\ exists l, log c' = l ++ log c /\ Forall (depth_is (S (depth c))) l.

Lemma drain_depth beh rm : forall fuel c first, Rres drain_log c (drain beh flat_nested rm fuel c first).
Proof.
  induction fuel as [|f IH]; intros c first; simpl; auto.
  destruct (queue c) as [|td q] eqn:Q.
  - simpl. split; auto. exists []. auto.
  - pose proof (trigger_depth beh rm td (set_queue c q)) as T.
    destruct (trigger beh flat_nested rm td (set_queue c q)) as [c1 r|c1 x|]; simpl in *; auto.
    + destruct T as (D1 & l1 & L1 & A1).
      specialize (IH c1 (match first with Some _ => first | None => r end)).
      destruct (drain beh flat_nested rm f c1 _) as [c2 v|c2 x|]; simpl in *; auto.
      * destruct IH as (D2 & l2 & L2 & A2). split; [congruence|].
        exists (l2 ++ l1). split; [rewrite L2, L1, app_assoc; reflexivity|].
        apply Forall_app. split; auto. rewrite D1 in A2. exact A2.
      * destruct IH as (D2 & l2 & L2 & A2). split; [congruence|].
        exists (l2 ++ l1). split; [rewrite L2, L1, app_assoc; reflexivity|].
        apply Forall_app. split; auto. rewrite D1 in A2. exact A2.
Qed.

(* ================================================================================================
   FIFO: the drain loop processes the triggers in the order they were put
   ============================================================================================== *)
Definition qgrows (c c' : cfg) : Prop := locked c' = locked c /\ exists q, queue c' = queue c ++ q.

Lemma qgrows_refl c : qgrows c c.
Proof. split; auto. exists []. now rewrite app_nil_r. Qed.

Lemma qgrows_trans a b c : qgrows a b -> qgrows b c -> qgrows a c.
Proof.
  intros (L1 & q1 & Q1) (L2 & q2 & Q2). split; [congruence|].
  exists (q1 ++ q2). rewrite Q2, Q1, app_assoc. reflexivity.
Qed.

Lemma trigger_qgrows beh rm td c : Rres qgrows c (trigger beh flat_nested rm td c).
Proof.
  apply trigger_R; try (intros; apply qgrows_refl); try (intros; split; [reflexivity|exists []; simpl; now rewrite app_nil_r]);
    try (left; intros; split; [reflexivity|exists []; simpl; now rewrite app_nil_r]).
  - apply qgrows_trans.
  - intros td0 c0. simpl. split; auto. exists [td0]. reflexivity.
Qed.

(* [Drained c tds c']: starting from [c] the loop processed exactly the triggers [tds], in that order,
   every one to completion, and stopped in [c'] *)
Inductive Drained (beh : behaviour) (rm : rmachine) : cfg -> list tdata -> cfg -> Prop :=
| Dr_done c : queue c = [] -> Drained beh rm c [] (set_locked c false)
| Dr_step c td q c1 r tds c' :
    queue c = td :: q -> trigger beh flat_nested rm td (set_queue c q) = Ok c1 r ->
    Drained beh rm c1 tds c' -> Drained beh rm c (td :: tds) c'.

Lemma drain_drained beh rm : forall fuel c first c' v,
  drain beh flat_nested rm fuel c first = Ok c' v -> exists tds, Drained beh rm c tds c'.
Proof.
  induction fuel as [|f IH]; intros c first c' v H; simpl in H; [discriminate|].
  destruct (queue c) as [|td q] eqn:Q.
  - inversion H; subst. exists []. now constructor.
  - destruct (trigger beh flat_nested rm td (set_queue c q)) as [c1 r|c1 x|] eqn:T; try discriminate.
    destruct (IH _ _ _ _ H) as (tds & D). exists (td :: tds). econstructor; eauto.
Qed.

(* what was already queued is processed first, in queue order; everything else that gets processed
   was put later (by callbacks), and again in the order it was put: by induction every trigger is
   processed before any trigger put after it *)
Theorem drained_fifo beh rm c tds c' :
  Drained beh rm c tds c' -> exists later, tds = queue c ++ later.
Proof.
  induction 1 as [c Q|c td q c1 r tds c' Q T D (later & IH)].
  - exists []. rewrite Q. reflexivity.
  - pose proof (trigger_qgrows beh rm td (set_queue c q)) as G. rewrite T in G. simpl in G.
    destruct G as (_ & enq & Q1). simpl in Q1. rewrite Q1 in IH.
    exists (enq ++ later). rewrite Q, IH. simpl. rewrite app_assoc. reflexivity.
Qed.

(* and a trigger that is being processed is not in the queue any more, nor processed again unless
   it is put again: the head is popped before its callbacks run *)
Theorem drained_head beh rm c td tds c' :
  Drained beh rm c (td :: tds) c' -> exists q, queue c = td :: q.
Proof. intros H. inversion H; subst. eauto. Qed.

(* ================================================================================================
   Exactly once: a group execution that completes has invoked every admitted callback once, in
   executor order, and nothing else
   ============================================================================================== *)
Definition called (l : list entry) : list (group * cbref) :=
  flat_map (fun e => match e with ECall _ g cb _ _ _ _ _ _ _ => [(g, cb)] | ENested _ => [] end) l.

Lemma called_app l1 l2 : called (l1 ++ l2) = called l1 ++ called l2.
Proof. unfold called. apply flat_map_app. Qed.

(* [logged c c' l]: c' extends c's log by the entries l (oldest first) *)
Definition logged (c c' : cfg) (l : list entry) : Prop := log c' = rev l ++ log c.

Lemma run_acts_calls_nothing : forall acts c c' u,
  run_acts flat_nested acts c = Ok c' u -> exists l, logged c c' l /\ called l = [].
Proof.
  induction acts as [|a r IH]; intros c c' u H; simpl in H.
  - inversion H; subst. exists []. split; reflexivity.
  - destruct a as [e tag|x|s]; [|discriminate|].
    + apply IH in H. destruct H as (l & L & C). unfold logged in *. simpl in L.
      exists (ENested (NReturned no_res) :: l). split.
      * simpl. rewrite L, <- app_assoc. reflexivity.
      * simpl. exact C.
    + apply IH in H. destruct H as (l & L & C). unfold logged in *. simpl in L.
      exists l. split; assumption.
Qed.

Lemma run_cb_calls_once beh g x cb c c' v :
  run_cb beh flat_nested g x cb c = Ok c' v -> exists l, logged c c' l /\ called l = [(g, cb)].
Proof.
  unfold run_cb. intros H.
  destruct (run_acts flat_nested _ _) as [c1 u|c1 e|] eqn:E; simpl in H; try discriminate.
  inversion H; subst. apply run_acts_calls_nothing in E. destruct E as (l & L & C).
  unfold logged in *. simpl in L.
  eexists (ECall _ g cb _ _ _ _ _ _ _ :: l). split.
  - simpl. rewrite L, <- app_assoc. reflexivity.
  - simpl. rewrite C. reflexivity.
Qed.

(* action / validator wrappers hold exactly one callback *)
Definition single (w : wrapper) : Prop := exists cb, w_cbs w = [cb].
Definition the_cb (w : wrapper) : list cbref := w_cbs w.

Lemma run_wrapper_calls_once beh g x w c c' v :
  single w -> run_wrapper beh flat_nested g x w c = Ok c' v ->
  exists l, logged c c' l /\ called l = map (fun cb => (g, cb)) (w_cbs w).
Proof.
  intros (cb & S) H. unfold run_wrapper in H. rewrite S in *. simpl in H.
  destruct (run_cb beh flat_nested g x cb c) as [c1 u|c1 e|] eqn:E; simpl in H; try discriminate.
  assert (c' = c1) by (destruct (w_expected w); inversion H; reflexivity). subst.
  apply run_cb_calls_once in E. exact E.
Qed.

Theorem call_list_calls_each_once beh g x : forall ws c c' vs,
  (forall w, In w ws -> single w) ->
  call_list beh flat_nested g x ws c = Ok c' vs ->
  exists l, logged c c' l /\ called l = map (fun cb => (g, cb)) (flat_map w_cbs ws).
Proof.
  induction ws as [|w r IH]; intros c c' vs S H; simpl in H.
  - inversion H; subst. exists []. split; reflexivity.
  - destruct (run_wrapper beh flat_nested g x w c) as [c1 v|c1 e|] eqn:E; simpl in H; try discriminate.
    destruct (call_list beh flat_nested g x r c1) as [c2 vs'|c2 e|] eqn:E2; simpl in H; try discriminate.
    inversion H; subst.
    destruct (run_wrapper_calls_once beh g x w c c1 v (S w (or_introl eq_refl)) E) as (l1 & L1 & C1).
    destruct (IH c1 c' vs' (fun w' Hw' => S w' (or_intror Hw')) E2) as (l2 & L2 & C2).
    exists (l1 ++ l2). split.
    + unfold logged in *. rewrite L2, L1, rev_app_distr, <- app_assoc. reflexivity.
    + rewrite called_app, C1, C2. simpl. rewrite map_app. reflexivity.
Qed.

Theorem call_group_calls_each_admitted_once beh rm g x ws c c' vs :
  (forall w, In w ws -> single w) ->
  call_group beh flat_nested rm g x ws c = Ok c' vs ->
  exists l, log c' = rev l ++ log c /\
            called l = map (fun cb => (g, cb)) (flat_map w_cbs (filter (admitted x) ws)).
Proof.
  intros S H. unfold call_group in H.
  assert (S' : forall w, In w (filter (admitted x) ws) -> single w) by (intros w Hw; apply S; apply filter_In in Hw; tauto).
  destruct (order_shows beh rm c _) in H.
  - destruct (call_list_calls_each_once beh g x _ _ _ _ S' H) as (l & L & C). exists l. split; auto.
  - destruct (call_list_calls_each_once beh g x _ _ _ _ S' H) as (l & L & C). exists l. split; auto.
Qed.
