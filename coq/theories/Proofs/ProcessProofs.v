(* C16 / C12: in a process of several machine objects driven in any interleaving, what one object
   does and becomes is what it does and becomes when driven alone with its own operations. *)
From Coq Require Import List Arith Bool Lia.
Import ListNotations.
From PySM Require Import Impl.Process.

Lemma nth_replace_same {A} : forall (l : list A) i x y, nth_error l i = Some y -> nth_error (replace_nth l i x) i = Some x.
Proof.
  induction l as [|a l IH]; intros [|i] x y H; simpl in *; try discriminate; auto; eapply IH; eauto.
Qed.

Lemma nth_replace_other {A} : forall (l : list A) i j x, i <> j -> nth_error (replace_nth l j x) i = nth_error l i.
Proof.
  induction l as [|a l IH]; intros [|i] [|j] x H; simpl; auto; try congruence.
Qed.

Lemma own_obs_app i a b : own_obs i (a ++ b) = own_obs i a ++ own_obs i b.
Proof. unfold own_obs. rewrite filter_app, map_app. reflexivity. Qed.

(* for every process, every interleaved history and every object of the process *)
Theorem process_projection fuel : forall h p i m,
  nth_error p i = Some m ->
  nth_error (fst (prun fuel p h)) i = Some (fst (mrun fuel m (own_ops i h)))
  /\ own_obs i (snd (prun fuel p h)) = snd (mrun fuel m (own_ops i h)).
Proof.
  induction h as [|[j o] r IH]; intros p i m Hi.
  - simpl. split; auto.
  - simpl prun. unfold pstep. simpl fst. simpl snd. unfold own_ops. simpl filter.
    destruct (Nat.eqb j i) eqn:E.
    + apply Nat.eqb_eq in E. subst j. rewrite Hi.
      destruct (step_obj fuel m o) as [m1 ob] eqn:S1.
      assert (Hi1 : nth_error (replace_nth p i m1) i = Some m1) by (eapply nth_replace_same; eauto).
      destruct (IH (replace_nth p i m1) i m1 Hi1) as [A B].
      destruct (prun fuel (replace_nth p i m1) r) as [p2 o2] eqn:P. simpl in A, B.
      simpl map. simpl mrun. rewrite S1. fold (own_ops i r).
      destruct (mrun fuel m1 (own_ops i r)) as [m2 obs] eqn:M. simpl in *.
      split; auto. unfold own_obs in *. simpl. rewrite Nat.eqb_refl. simpl. rewrite B. reflexivity.
    + fold (own_ops i r). apply Nat.eqb_neq in E.
      destruct (nth_error p j) as [mj|] eqn:Hj.
      * destruct (step_obj fuel mj o) as [m1 ob] eqn:S1.
        assert (Hi1 : nth_error (replace_nth p j m1) i = Some m) by (rewrite nth_replace_other; auto).
        destruct (IH (replace_nth p j m1) i m Hi1) as [A B].
        destruct (prun fuel (replace_nth p j m1) r) as [p2 o2] eqn:P. simpl in *.
        split; auto. unfold own_obs in *. simpl.
        assert (X : Nat.eqb j i = false) by (apply Nat.eqb_neq; auto). rewrite X. exact B.
      * destruct (IH p i m Hi) as [A B]. destruct (prun fuel p r) as [p2 o2] eqn:P. simpl in *. split; auto.
Qed.

Corollary process_obs_projection fuel h p i m :
  nth_error p i = Some m -> own_obs i (snd (prun fuel p h)) = snd (mrun fuel m (own_ops i h)).
Proof. intros H. exact (proj2 (process_projection fuel h p i m H)). Qed.

(* in particular: two interleaved histories that give object i the same operations in the same
   order give it the same observations and the same final object, whatever the other objects are,
   whatever they are asked to do and however the two histories interleave *)
Corollary process_isolation fuel h1 h2 p1 p2 i m :
  nth_error p1 i = Some m -> nth_error p2 i = Some m -> own_ops i h1 = own_ops i h2 ->
  own_obs i (snd (prun fuel p1 h1)) = own_obs i (snd (prun fuel p2 h2))
  /\ nth_error (fst (prun fuel p1 h1)) i = nth_error (fst (prun fuel p2 h2)) i.
Proof.
  intros H1 H2 E.
  destruct (process_projection fuel h1 p1 i m H1) as [A1 B1].
  destruct (process_projection fuel h2 p2 i m H2) as [A2 B2].
  rewrite B1, B2, A1, A2, E. split; reflexivity.
Qed.
