(* Invariants of the concurrent-senders protocol with nested sends (Impl/ConcNested.v), for every
   number of senders, every plan, every family of nested sends and every schedule. *)
From Coq Require Import List Arith Bool Lia.
Import ListNotations.
From PySM Require Import Impl.Conc Impl.ConcNested Proofs.ConcProofs.

Section NestedProofs.
  Variable children : event -> list event.
  Notation nstep := (nstep children).
  Notation nrun := (nrun children).

  Record NInv (g : granularity) (w : nworld) : Prop := {
    ni_holder : forall t, holds_lock (n_pc (nw_threads w t)) = true <-> nw_holder w = Some t;
    ni_closed : (forall t, n_pc (nw_threads w t) <> Proc) -> closed (nw_log w);
    ni_open : forall t, n_pc (nw_threads w t) = Proc ->
                exists e, n_cur (nw_threads w t) = Some e /\ opened (nw_log w) e t;
    (* global FIFO: what was begun, then what is queued, is exactly what was put, in put order *)
    ni_fifo : begun (nw_log w) ++ nw_queue w = nw_puts w;
    ni_norel : g = Await -> forall t, n_pc (nw_threads w t) <> Rel /\ n_pc (nw_threads w t) <> Recheck;
    ni_charge : nw_queue w <> [] ->
                (exists t, n_pc (nw_threads w t) = Acq) \/ (exists t, nw_holder w = Some t)
                \/ (exists t, n_pc (nw_threads w t) = Recheck)
  }.

  Lemma nupd_same f t s : nupd f t s t = s.
  Proof. unfold nupd. rewrite Nat.eqb_refl. reflexivity. Qed.

  Lemma nupd_other f t s t' : t' <> t -> nupd f t s t' = f t'.
  Proof. intros H. unfold nupd. destruct (Nat.eqb_spec t' t); [contradiction|reflexivity]. Qed.

  Lemma ninv_init g plan : NInv g (ninit plan).
  Proof.
    constructor; simpl.
    - intros t. split; intros H; discriminate.
    - intros _. constructor.
    - intros t H. discriminate.
    - reflexivity.
    - intros _ t. split; discriminate.
    - intros H. contradiction.
  Qed.

  Ltac other t' t N :=
    destruct (Nat.eq_dec t' t) as [->|N]; [rewrite ?nupd_same in *|rewrite ?nupd_other in * by exact N].

  Lemma ninv_step g w t : NInv g w -> NInv g (nstep g w t).
  Proof.
    intros I. unfold ConcNested.nstep.
    pose proof (ni_fifo _ _ I) as IF. pose proof (ni_norel _ _ I) as IN.
    destruct (n_pc (nw_threads w t)) eqn:P.
    - (* Idle *)
      destruct (n_todo (nw_threads w t)) as [|e r] eqn:T; [exact I|].
      constructor; simpl.
      + intros t'. other t' t N; simpl.
        * split; [discriminate|]. intros H. apply (ni_holder _ _ I) in H. rewrite P in H. discriminate.
        * apply (ni_holder _ _ I).
      + intros H. apply (ni_closed _ _ I). intros t'. specialize (H t').
        other t' t N; [rewrite P; discriminate|exact H].
      + intros t' H. other t' t N; [discriminate|]. apply (ni_open _ _ I). exact H.
      + rewrite app_assoc, IF. reflexivity.
      + intros G t'. other t' t N; [split; discriminate|apply (IN G)].
      + intros _. left. exists t. rewrite nupd_same. reflexivity.
    - (* Acq *)
      destruct (nw_holder w) as [h|] eqn:H.
      + assert (Nh : h <> t).
        { intros ->. apply (ni_holder _ _ I) in H. rewrite P in H. discriminate. }
        constructor; simpl.
        * intros t'. other t' t N; simpl.
          -- split; [discriminate|]. intros E. inversion E. congruence.
          -- rewrite <- H. apply (ni_holder _ _ I).
        * intros Hn. apply (ni_closed _ _ I). intros t'. specialize (Hn t').
          other t' t N; [rewrite P; discriminate|exact Hn].
        * intros t' Hp. other t' t N; [discriminate|]. apply (ni_open _ _ I). exact Hp.
        * exact IF.
        * intros G t'. other t' t N; [split; discriminate|apply (IN G)].
        * intros Q. right. left. exists h. reflexivity.
      + constructor; simpl.
        * intros t'. other t' t N; simpl.
          -- split; auto.
          -- split; [intros E; apply (ni_holder _ _ I) in E; congruence|intros E; inversion E; congruence].
        * intros Hn. apply (ni_closed _ _ I). intros t'. specialize (Hn t').
          other t' t N; [rewrite P; discriminate|exact Hn].
        * intros t' Hp. other t' t N; [discriminate|]. apply (ni_open _ _ I). exact Hp.
        * exact IF.
        * intros G t'. other t' t N; [split; discriminate|apply (IN G)].
        * intros Q. right. left. exists t. reflexivity.
    - (* Test *)
      assert (Ht : nw_holder w = Some t) by (apply (ni_holder _ _ I); rewrite P; reflexivity).
      assert (NoProc : forall t', n_pc (nw_threads w t') <> Proc).
      { intros t' E. assert (nw_holder w = Some t') as X by (apply (ni_holder _ _ I); rewrite E; reflexivity).
        rewrite Ht in X. inversion X; subst. rewrite P in E. discriminate. }
      destruct (nw_queue w) as [|e q] eqn:Q.
      + destruct g.
        * constructor; simpl.
          -- intros t'. other t' t N; simpl; [split; auto|apply (ni_holder _ _ I)].
          -- intros _. apply (ni_closed _ _ I). exact NoProc.
          -- intros t' Hp. other t' t N; [discriminate|]. exfalso. eapply NoProc; eauto.
          -- exact IF.
          -- intros G. discriminate.
          -- intros X. contradiction.
        * constructor; simpl.
          -- intros t'. other t' t N; simpl.
             ++ split; discriminate.
             ++ split; [|discriminate]. intros E. apply (ni_holder _ _ I) in E. rewrite Ht in E. inversion E. congruence.
          -- intros _. apply (ni_closed _ _ I). exact NoProc.
          -- intros t' Hp. other t' t N; [discriminate|]. exfalso. eapply NoProc; eauto.
          -- exact IF.
          -- intros G t'. other t' t N; [split; discriminate|apply (IN G)].
          -- intros X. contradiction.
      + constructor; simpl.
        * intros t'. other t' t N; simpl; [split; auto|apply (ni_holder _ _ I)].
        * intros Hn. exfalso. apply (Hn t). rewrite nupd_same. reflexivity.
        * intros t' Hp. other t' t N.
          -- exists e. split; auto. exists (nw_log w). split; auto. apply (ni_closed _ _ I). exact NoProc.
          -- exfalso. eapply NoProc; eauto.
        * rewrite begun_app. simpl. rewrite <- app_assoc. simpl. exact IF.
        * intros G t'. other t' t N; [split; discriminate|apply (IN G)].
        * intros _. right. left. exists t. exact Ht.
    - (* Proc *)
      assert (Ht : nw_holder w = Some t) by (apply (ni_holder _ _ I); rewrite P; reflexivity).
      destruct (ni_open _ _ I t P) as (e & Ce & l0 & C0 & L).
      assert (OnlyMe : forall t', t' <> t -> n_pc (nw_threads w t') <> Proc).
      { intros t' N E. assert (nw_holder w = Some t') as X by (apply (ni_holder _ _ I); rewrite E; reflexivity).
        rewrite Ht in X. inversion X. congruence. }
      destruct (n_kids (nw_threads w t)) as [|k ks] eqn:K.
      + (* the callbacks end *)
        rewrite Ce. constructor; simpl.
        * intros t'. other t' t N; simpl; [split; auto|apply (ni_holder _ _ I)].
        * intros _. rewrite L, <- app_assoc. simpl. constructor. exact C0.
        * intros t' Hp. other t' t N; [discriminate|]. exfalso. eapply OnlyMe; eauto.
        * rewrite begun_app. simpl. rewrite app_nil_r. exact IF.
        * intros G t'. other t' t N; [split; discriminate|apply (IN G)].
        * intros _. right. left. exists t. exact Ht.
      + (* a nested send *)
        constructor; simpl.
        * intros t'. other t' t N; simpl; [split; auto|apply (ni_holder _ _ I)].
        * intros Hn. exfalso. apply (Hn t). rewrite nupd_same. reflexivity.
        * intros t' Hp. other t' t N; simpl.
          -- exists e. split; auto. exists l0. split; auto.
          -- exfalso. eapply OnlyMe; eauto.
        * rewrite app_assoc, IF. reflexivity.
        * intros G t'. other t' t N; [split; discriminate|apply (IN G)].
        * intros _. right. left. exists t. exact Ht.
    - (* Rel *)
      assert (Ht : nw_holder w = Some t) by (apply (ni_holder _ _ I); rewrite P; reflexivity).
      assert (NoProc : forall t', n_pc (nw_threads w t') <> Proc).
      { intros t' E. assert (nw_holder w = Some t') as X by (apply (ni_holder _ _ I); rewrite E; reflexivity).
        rewrite Ht in X. inversion X; subst. rewrite P in E. discriminate. }
      constructor; simpl.
      + intros t'. other t' t N; simpl.
        * split; discriminate.
        * split; [|discriminate]. intros E. apply (ni_holder _ _ I) in E. rewrite Ht in E. inversion E. congruence.
      + intros _. apply (ni_closed _ _ I). exact NoProc.
      + intros t' Hp. other t' t N; [discriminate|]. exfalso. eapply NoProc; eauto.
      + exact IF.
      + intros G. exfalso. destruct (IN G t) as (X & _). apply X. exact P.
      + intros _. right. right. exists t. rewrite nupd_same. reflexivity.
    - (* Recheck *)
      assert (NotHolder : nw_holder w <> Some t).
      { intros E. apply (ni_holder _ _ I) in E. rewrite P in E. discriminate. }
      constructor; simpl.
      + intros t'. other t' t N; simpl.
        * split; [destruct (nw_queue w); discriminate|]. intros E. contradiction.
        * apply (ni_holder _ _ I).
      + intros Hn. apply (ni_closed _ _ I). intros t'. specialize (Hn t').
        other t' t N; [rewrite P; discriminate|exact Hn].
      + intros t' Hp. other t' t N; [simpl in Hp; destruct (nw_queue w); discriminate|].
        apply (ni_open _ _ I). exact Hp.
      + exact IF.
      + intros G. exfalso. destruct (IN G t) as (_ & X). apply X. exact P.
      + intros Q. destruct (nw_queue w) as [|e q] eqn:E; [contradiction|].
        left. exists t. rewrite nupd_same. reflexivity.
  Qed.

  Theorem ninv_run g : forall sched w, NInv g w -> NInv g (nrun g sched w).
  Proof. induction sched as [|t r IH]; intros w I; simpl; auto. apply IH, ninv_step, I. Qed.

  Theorem nreachable_inv g plan sched : NInv g (nrun g sched (ninit plan)).
  Proof. apply ninv_run, ninv_init. Qed.

  (* ---------- the properties ---------- *)
  (* the callback blocks of different events - sent by a sender or by a callback - never overlap *)
  Theorem nested_mutual_exclusion g plan sched :
    let w := nrun g sched (ninit plan) in
    closed (nw_log w) \/ exists e t, opened (nw_log w) e t.
  Proof.
    intros w. pose proof (nreachable_inv g plan sched) as I. fold w in I.
    destruct (nw_holder w) as [h|] eqn:H.
    - destruct (n_pc (nw_threads w h)) eqn:P;
        try (left; apply (ni_closed _ _ I); intros t E;
             assert (nw_holder w = Some t) as X by (apply (ni_holder _ _ I); rewrite E; reflexivity);
             rewrite H in X; inversion X; subst; congruence).
      right. destruct (ni_open _ _ I h P) as (e & _ & O). eauto.
    - left. apply (ni_closed _ _ I). intros t E.
      assert (nw_holder w = Some t) as X by (apply (ni_holder _ _ I); rewrite E; reflexivity). congruence.
  Qed.

  (* global FIFO: the events whose processing has begun, followed by the queue, are exactly the events
     put so far in the order they were put - whoever put them, a sender or a running callback; so
     events are processed in put order (in particular each sender's, and each callback's, in the
     order it sent them), none invented, none lost *)
  Theorem nested_fifo g plan sched :
    let w := nrun g sched (ninit plan) in begun (nw_log w) ++ nw_queue w = nw_puts w.
  Proof. intros w. exact (ni_fifo _ _ (nreachable_inv g plan sched)). Qed.

  (* exactly once: when no event is put twice, none is begun twice *)
  Theorem nested_at_most_once g plan sched :
    let w := nrun g sched (ninit plan) in NoDup (nw_puts w) -> NoDup (begun (nw_log w)).
  Proof.
    intros w N. pose proof (nested_fifo g plan sched) as F. fold w in F. rewrite <- F in N.
    eapply nodup_app_l. exact N.
  Qed.

  (* once every sender has returned nothing is left in the queue, and everything that was put -
     nested sends included - has been processed, in put order *)
  Theorem nested_nothing_stranded g plan sched :
    let w := nrun g sched (ninit plan) in
    (forall t, nfinished w t) -> nw_queue w = [] /\ begun (nw_log w) = nw_puts w.
  Proof.
    intros w F. pose proof (nreachable_inv g plan sched) as I. fold w in I.
    assert (Q : nw_queue w = []).
    { destruct (nw_queue w) as [|e q] eqn:Q; auto. exfalso.
      assert (Idl : forall t, n_pc (nw_threads w t) = Idle) by (intros t; apply (F t)).
      destruct (ni_charge _ _ I) as [(t & A)|[(t & H)|(t & A)]].
      - rewrite Q. discriminate.
      - rewrite Idl in A. discriminate.
      - apply (ni_holder _ _ I) in H. rewrite Idl in H. discriminate.
      - rewrite Idl in A. discriminate. }
    split; auto. pose proof (ni_fifo _ _ I) as E. rewrite Q, app_nil_r in E. exact E.
  Qed.
End NestedProofs.

(* non-vacuity: two senders; the callback of sender 0's event sends two nested events; a schedule in
   which sender 1 puts in the middle: all five events processed once, in put order *)
Definition ex_children (e : event) : list event :=
  match e with (0, 0) => [(0, 10); (0, 11)] | _ => [] end.
Definition ex_plan (t : nat) : list event := match t with 0 => [(0, 0)] | 1 => [(1, 0); (1, 1)] | _ => [] end.
Definition ex_sched : list nat := [0; 0; 0; 0; 1; 1; 0; 0; 1; 1] ++ repeat 0 16 ++ repeat 1 4.

Example nested_nonvacuous :
  let w := nrun ex_children Line ex_sched (ninit ex_plan) in
  nw_queue w = [] /\ begun (nw_log w) = [(0, 0); (0, 10); (1, 0); (0, 11); (1, 1)]
  /\ nw_puts w = begun (nw_log w) /\ n_pc (nw_threads w 0) = Idle /\ n_pc (nw_threads w 1) = Idle.
Proof. vm_compute. repeat split. Qed.
