(* Proofs about the engine model (Impl/Engine.v): state assignment, candidate selection,
   idle-to-idle, run-to-completion refinement.  Used by Properties/C01 C03 C04 C10 C11 C14. *)
From Coq Require Import List Arith Bool Lia.
Import ListNotations.
From PySM Require Import Impl.Engine Proofs.EngineFrame.

Ltac ghost_grows := unfold grows; simpl; repeat split; auto; exists []; now rewrite app_nil_r.

Lemma grows_calls c k : grows c (set_calls c k). Proof. ghost_grows. Qed.
Lemma grows_log c e : grows c (add_log c e). Proof. ghost_grows. Qed.
Lemma grows_nact c n : grows c (set_nact c n). Proof. ghost_grows. Qed.
Lemma grows_depth c n : grows c (set_depth c n). Proof. ghost_grows. Qed.
Lemma grows_amb c b : grows c (set_amb c b). Proof. ghost_grows. Qed.
Lemma grows_ambc c b : grows c (set_ambc c b). Proof. ghost_grows. Qed.

#[export] Hint Resolve grows_refl grows_calls grows_log grows_nact grows_depth grows_amb grows_ambc : frame.

(* ================================================================================================
   Section 1: any engine whose nested sends respect [grows] (run-to-completion: a nested send only
   appends to the queue)
   ============================================================================================== *)
Section Grows.
  Variable beh : behaviour.
  Variable nested : tdata -> cfg -> res pyres.
  Variable rm : rmachine.
  Hypothesis nested_grows : forall td c, Rres grows c (nested td c).
  (* and whose callbacks leave the low-level API alone: none assigns the state itself *)
  Hypothesis NW : no_writes beh.

  Let cg := call_group_R beh nested rm grows grows_refl grows_trans grows_calls grows_log grows_amb nested_grows (or_intror NW).
  Let ag := all_group_R beh nested rm grows grows_refl grows_trans grows_calls grows_log grows_amb grows_ambc nested_grows (or_intror NW).

  (* everything up to and including `on` leaves the stored state alone, returning or raising *)
  Lemma activate_pre_grows t x c : Rres grows c (activate_pre beh nested rm t x c).
  Proof.
    unfold activate_pre.
    apply (Rres_bind grows grows_trans); auto. intros c1 _ _.
    apply (Rres_bind grows grows_trans); auto. intros c2 ok _.
    destruct (negb ok); [simpl; apply grows_refl|].
    apply (Rres_bind grows grows_trans); auto. intros c3 rb _.
    apply (Rres_bind grows grows_trans); auto.
    { destruct (a_internal t); [simpl; apply grows_refl|apply cg]. }
    intros c4 _ _.
    apply (Rres_bind grows grows_trans); auto. intros c5 ro _. simpl. apply grows_refl.
  Qed.

  (* the second half starts with the assignment; enter and after do not touch the state *)
  Lemma activate_post_grows t x c :
    Rres grows (set_field c (Some (a_tgt t))) (activate_post beh nested rm t x c).
  Proof.
    unfold activate_post.
    apply (Rres_bind grows grows_trans); auto.
    { destruct (a_internal t); [simpl; apply grows_refl|apply cg]. }
    intros c1 _ _.
    apply (Rres_bind grows grows_trans); auto. intros c2 _ _. simpl. apply grows_refl.
  Qed.

  (* what one _activate call can do to the stored state, the lock and the queue *)
  Inductive act_effect (t : atrans) (c : cfg) : res (bool * pyres) -> Prop :=
  | AE_rejected c' : grows c c' -> act_effect t c (Ok c' (false, no_res))
  | AE_fired c' v : field c' = Some (a_tgt t) -> locked c' = locked c ->
                    (exists q, queue c' = queue c ++ q) -> act_effect t c (Ok c' (true, v))
  | AE_failed_before c' x : grows c c' -> act_effect t c (Exn c' x)
  | AE_failed_after c' x : field c' = Some (a_tgt t) -> locked c' = locked c ->
                           (exists q, queue c' = queue c ++ q) -> act_effect t c (Exn c' x)
  | AE_fuel : act_effect t c Fuel.

  Lemma activate_effect t td c : act_effect t c (activate beh nested rm t td c).
  Proof.
    unfold activate.
    set (x := act_ctx t td c).
    pose proof (activate_pre_grows t x (set_nact c (S (nact c)))) as Hpre.
    destruct (activate_pre beh nested rm t x (set_nact c (S (nact c)))) as [c1 r|c1 e|]; simpl in *.
    - assert (G1 : grows c c1) by (eapply grows_trans; [apply grows_nact|exact Hpre]).
      destruct r as [v|].
      + pose proof (activate_post_grows t x c1) as Hpost.
        destruct G1 as (F1 & L1 & q1 & Q1).
        destruct (activate_post beh nested rm t x c1) as [c2 u|c2 e|]; simpl in *.
        * destruct Hpost as (F2 & L2 & q2 & Q2). simpl in *.
          apply AE_fired; [congruence|congruence|]. exists (q1 ++ q2). rewrite Q2, Q1, app_assoc. reflexivity.
        * destruct Hpost as (F2 & L2 & q2 & Q2). simpl in *.
          apply AE_failed_after; [congruence|congruence|]. exists (q1 ++ q2). rewrite Q2, Q1, app_assoc. reflexivity.
        * constructor.
      + now apply AE_rejected.
    - apply AE_failed_before. eapply grows_trans; [apply grows_nact|exact Hpre].
    - constructor.
  Qed.

  (* which failure it is, phase by phase (C04): a failure in validators / conditions / before / exit /
     on leaves the stored state alone ... *)
  Lemma activate_fails_in_pre t td c c' e :
    activate_pre beh nested rm t (act_ctx t td c) (set_nact c (S (nact c))) = Exn c' e ->
    activate beh nested rm t td c = Exn c' e /\ field c' = field c.
  Proof.
    intros H. unfold activate. rewrite H. simpl. split; auto.
    pose proof (activate_pre_grows t (act_ctx t td c) (set_nact c (S (nact c)))) as G. rewrite H in G. simpl in G.
    destruct G as (F & _). exact F.
  Qed.

  (* ... and a failure in enter / after happens with the target already stored *)
  Lemma activate_fails_in_post t td c c1 v c' e :
    let x := act_ctx t td c in
    activate_pre beh nested rm t x (set_nact c (S (nact c))) = Ok c1 (Some v) ->
    activate_post beh nested rm t x c1 = Exn c' e ->
    activate beh nested rm t td c = Exn c' e /\ field c' = Some (a_tgt t).
  Proof.
    intros x H1 H2. unfold activate. fold x. rewrite H1. simpl. rewrite H2. simpl. split; auto.
    pose proof (activate_post_grows t x c1) as G. rewrite H2 in G. simpl in G. destruct G as (F & _). exact F.
  Qed.

  (* ---------- the candidate loop ---------- *)

  (* [Skipped pre e td c c1]: walking the candidates [pre] for event [e] from configuration [c] fires
     none of them (each either is not bound to [e] or is rejected by its guards) and ends in [c1] *)
  Inductive Skipped (e : nat) (td : tdata) : list rtrans -> cfg -> cfg -> Prop :=
  | Sk_nil c : Skipped e td [] c c
  | Sk_nomatch t r c c1 : matches t e = false -> Skipped e td r c c1 -> Skipped e td (t :: r) c c1
  | Sk_rejected t r c c0 c1 v :
      matches t e = true -> activate beh nested rm (atrans_of rm t) td c = Ok c0 (false, v) ->
      Skipped e td r c0 c1 -> Skipped e td (t :: r) c c1.

  Lemma skipped_app e td pre post (s : nat) c c1 :
    Skipped e td pre c c1 ->
    try_candidates beh nested rm (pre ++ post) e s td c = try_candidates beh nested rm post e s td c1.
  Proof.
    induction 1 as [c|t r c c1 Hm _ IH|t r c c0 c1 v Hm Ha _ IH]; simpl; auto.
    - rewrite Hm. exact IH.
    - rewrite Hm, Ha. simpl. exact IH.
  Qed.

  (* the first candidate, in declaration order, that is bound to the event and executes wins *)
  Lemma first_enabled_fires e td pre t post (s : nat) c c1 c2 v :
    Skipped e td pre c c1 -> matches t e = true ->
    activate beh nested rm (atrans_of rm t) td c1 = Ok c2 (true, v) ->
    try_candidates beh nested rm (pre ++ t :: post) e s td c = Ok c2 (Some v).
  Proof. intros Hs Hm Ha. rewrite (skipped_app _ _ _ _ _ _ _ Hs). simpl. rewrite Hm, Ha. reflexivity. Qed.

  (* a raising validator (or any callback of the candidate) aborts the whole event: no later candidate
     is tried *)
  Lemma candidate_failure_aborts e td pre t post (s : nat) c c1 c2 x :
    Skipped e td pre c c1 -> matches t e = true ->
    activate beh nested rm (atrans_of rm t) td c1 = Exn c2 x ->
    try_candidates beh nested rm (pre ++ t :: post) e s td c = Exn c2 x.
  Proof. intros Hs Hm Ha. rewrite (skipped_app _ _ _ _ _ _ _ Hs). simpl. rewrite Hm, Ha. reflexivity. Qed.

  (* no candidate qualifies: TransitionNotAllowed(event, state), or nothing when tolerated *)
  Lemma none_qualifies e td cands (s : nat) c c1 :
    Skipped e td cands c c1 ->
    try_candidates beh nested rm cands e s td c =
      if rm_allow rm then Ok c1 (Some no_res) else Exn c1 (XNotAllowed e s).
  Proof. intros Hs. rewrite <- (app_nil_r cands). rewrite (skipped_app _ _ _ _ _ _ _ Hs). reflexivity. Qed.

  (* and these three shapes are all there is *)
  Lemma candidates_cases e td cands c :
    (exists c1, Skipped e td cands c c1) \/
    (exists pre t post c1, cands = pre ++ t :: post /\ Skipped e td pre c c1 /\ matches t e = true /\
        match activate beh nested rm (atrans_of rm t) td c1 with
        | Ok _ (true, _) | Exn _ _ | Fuel => True
        | Ok _ (false, _) => False
        end).
  Proof.
    revert c. induction cands as [|t r IH]; intros c.
    - left. exists c. constructor.
    - destruct (matches t e) eqn:Hm.
      + destruct (activate beh nested rm (atrans_of rm t) td c) as [c0 [b v]|c0 x|] eqn:Ha.
        * destruct b.
          -- right. exists [], t, r, c. repeat split; auto; [constructor|]. rewrite Ha. exact I.
          -- destruct (IH c0) as [(c1 & Hs)|(pre & t' & post & c1 & -> & Hs & Hm' & Hact)].
             ++ left. exists c1. eapply Sk_rejected; eauto.
             ++ right. exists (t :: pre), t', post, c1. repeat split; auto. eapply Sk_rejected; eauto.
        * right. exists [], t, r, c. repeat split; auto; [constructor|]. rewrite Ha. exact I.
        * right. exists [], t, r, c. repeat split; auto; [constructor|]. rewrite Ha. exact I.
      + destruct (IH c) as [(c1 & Hs)|(pre & t' & post & c1 & -> & Hs & Hm' & Hact)].
        * left. exists c1. now constructor.
        * right. exists (t :: pre), t', post, c1. repeat split; auto. now constructor.
  Qed.

  (* skipping rejected candidates never changes the stored state or the lock, and the queue only grows *)
  Lemma skipped_grows e td cands c c1 : Skipped e td cands c c1 -> grows c c1.
  Proof.
    induction 1 as [c|t r c c1 _ _ IH|t r c c0 c1 v _ Ha _ IH]; auto using grows_refl.
    pose proof (activate_effect (atrans_of rm t) td c) as E. rewrite Ha in E. inversion E; subst.
    eapply grows_trans; eauto.
  Qed.

  (* the stored state after the candidate loop: the target of the fired transition, else unchanged *)
  Lemma try_candidates_field cands e (s : nat) td c :
    match try_candidates beh nested rm cands e s td c with
    | Ok c' _ => field c' = field c \/ exists t, In t cands /\ matches t e = true /\ field c' = Some (rt_tgt t)
    | Exn c' (XNotAllowed e' s') => e' = e /\ s' = s /\ field c' = field c
                                    \/ (exists t, In t cands /\ (field c' = field c \/ field c' = Some (rt_tgt t)))
    | Exn c' _ => exists t, In t cands /\ matches t e = true /\ (field c' = field c \/ field c' = Some (rt_tgt t))
    | Fuel => True
    end.
  Proof.
    destruct (candidates_cases e td cands c) as [(c1 & Hs)|(pre & t & post & c1 & -> & Hs & Hm & Hact)].
    - rewrite (none_qualifies _ _ _ _ _ _ Hs). pose proof (skipped_grows _ _ _ _ _ Hs) as (F & _).
      destruct (rm_allow rm); auto.
    - rewrite (skipped_app _ _ _ _ _ _ _ Hs). simpl. rewrite Hm.
      pose proof (skipped_grows _ _ _ _ _ Hs) as (F & _).
      pose proof (activate_effect (atrans_of rm t) td c1) as E.
      assert (Hin : In t (pre ++ t :: post)) by (apply in_or_app; right; left; reflexivity).
      destruct (activate beh nested rm (atrans_of rm t) td c1) as [c2 [b v]|c2 x|]; simpl; auto.
      + destruct b; [|contradiction]. inversion E; subst. right. exists t. simpl in *. auto.
      + assert (H : field c2 = field c \/ field c2 = Some (rt_tgt t)).
        { inversion E; subst; simpl in *; [left|right]; auto. destruct H0 as (F2 & _). congruence. }
        destruct x; eauto 6.
  Qed.
End Grows.

(* ================================================================================================
   Section 2: the drain loop always ends idle (queue empty, lock free), returning or raising
   ============================================================================================== *)
Definition idle (c : cfg) : Prop := queue c = [] /\ locked c = false.

Lemma drain_idle beh nested rm : forall fuel c first,
  match drain beh nested rm fuel c first with
  | Ok c' _ => idle c'
  | Exn c' _ => idle c'
  | Fuel => True
  end.
Proof.
  induction fuel as [|f IH]; intros c first; simpl; auto.
  destruct (queue c) as [|td q] eqn:Q.
  - split; simpl; auto.
  - destruct (trigger beh nested rm td (set_queue c q)) as [c1 r|c1 x|]; auto.
    + apply IH.
    + split; reflexivity.
Qed.

(* Event.__call__ in run-to-completion mode: from an idle machine every send ends idle again - the
   lock is released and nothing stays queued, whether the call returns or raises *)
Lemma send_rtc_idle beh rm fuel td c :
  locked c = false ->
  match send_rtc beh rm fuel td c with
  | Ok c' _ => idle c'
  | Exn c' _ => idle c'
  | Fuel => True
  end.
Proof.
  intros L. destruct fuel as [|f]; simpl; auto. rewrite L. apply drain_idle.
Qed.

(* while the lock is held (a callback is running), a send only appends to the queue and returns None *)
Lemma send_rtc_locked beh rm f td c :
  locked c = true -> send_rtc beh rm (S f) td c = Ok (enqueue td c) no_res.
Proof. intros L. simpl. rewrite L. reflexivity. Qed.

(* ================================================================================================
   Section 3: results (C14, C03)
   ============================================================================================== *)
Lemma res_val_none : res_val no_res = VNone. Proof. reflexivity. Qed.
Lemma res_val_single_before v : res_val ([v], []) = v. Proof. reflexivity. Qed.
Lemma res_val_single_on v : res_val ([], [v]) = v. Proof. reflexivity. Qed.
Lemma res_val_many rb ro : 2 <= length (rb ++ ro) -> res_val (rb, ro) = VList (rb ++ ro).
Proof.
  unfold res_val, unwrap; simpl. destruct (rb ++ ro) as [|a [|b l]]; simpl; intros; try lia. reflexivity.
Qed.

(* CallbacksExecutor.call yields exactly one value per admitted callback, in executor order -
   a callback that returns nothing contributes its None *)
Lemma call_list_length beh nested g x : forall ws c c' vs,
  call_list beh nested g x ws c = Ok c' vs -> length vs = length ws.
Proof.
  induction ws as [|w r IH]; intros c c' vs H; simpl in H.
  - inversion H. reflexivity.
  - destruct (run_wrapper beh nested g x w c) as [c1 v|c1 e|]; simpl in H; try discriminate.
    destruct (call_list beh nested g x r c1) as [c2 vs'|c2 e|] eqn:E; simpl in H; try discriminate.
    inversion H; subst. simpl. f_equal. eapply IH; eauto.
Qed.

Lemma call_group_length beh nested rm g x ws c c' vs :
  call_group beh nested rm g x ws c = Ok c' vs -> length vs = length (filter (admitted x) ws).
Proof. unfold call_group. intros H. destruct (order_shows _ _ _ _) in H; eapply call_list_length; eauto. Qed.

(* the result of an executed transition is made of the values returned by its `before` group and by
   its `on` group, in that order, and of nothing else *)
Lemma activate_result beh nested rm t td c c' rb ro :
  activate beh nested rm t td c = Ok c' (true, (rb, ro)) ->
  exists c2 c3 c4 c5,
    call_group beh nested rm GBefore (act_ctx t td c) (a_before t) c2 = Ok c3 rb /\
    call_group beh nested rm GOn (act_ctx t td c) (a_on t) c4 = Ok c5 ro.
Proof.
  unfold activate, activate_pre. set (x := act_ctx t td c). intros H.
  destruct (call_group beh nested rm GValidators x _ _) as [c1 v1|c1 e|]; simpl in H; try discriminate.
  destruct (all_group beh nested rm GCond x _ c1) as [c2 ok|c2 e|]; simpl in H; try discriminate.
  destruct (negb ok); simpl in H; try discriminate.
  destruct (call_group beh nested rm GBefore x _ c2) as [c3 rb'|c3 e|] eqn:EB; simpl in H; try discriminate.
  destruct (a_internal t).
  - simpl in H.
    destruct (call_group beh nested rm GOn x _ c3) as [c5 ro'|c5 e|] eqn:EO; simpl in H; try discriminate.
    destruct (activate_post beh nested rm t x c5) as [c6 u|c6 e|]; simpl in H; try discriminate.
    inversion H; subst. exists c2, c3, c3, c5. auto.
  - destruct (call_group beh nested rm GExit x _ c3) as [c4 ex|c4 e|]; simpl in H; try discriminate.
    destruct (call_group beh nested rm GOn x _ c4) as [c5 ro'|c5 e|] eqn:EO; simpl in H; try discriminate.
    destruct (activate_post beh nested rm t x c5) as [c6 u|c6 e|]; simpl in H; try discriminate.
    inversion H; subst. exists c2, c3, c4, c5. auto.
Qed.

(* once a first result is held, later events never replace it *)
Lemma drain_keeps_first beh nested rm : forall fuel c v c' v',
  drain beh nested rm fuel c (Some v) = Ok c' v' -> v' = v.
Proof.
  induction fuel as [|f IH]; intros c v c' v' H; simpl in H; try discriminate.
  destruct (queue c) as [|td q].
  - inversion H. reflexivity.
  - destruct (trigger beh nested rm td (set_queue c q)) as [c1 r|c1 x|]; try discriminate.
    eapply IH; eauto.
Qed.

(* the outermost call returns the result of the first event it processes; the `__initial__`
   trigger (whose result is the private sentinel, here None) never counts *)
Lemma drain_first_result beh nested rm f c td q c1 r c' v :
  queue c = td :: q ->
  trigger beh nested rm td (set_queue c q) = Ok c1 (Some r) ->
  drain beh nested rm (S f) c None = Ok c' v -> v = r.
Proof.
  intros Q T H. simpl in H. rewrite Q, T in H. eapply drain_keeps_first; eauto.
Qed.

Lemma trigger_initial_is_sentinel beh nested rm tag c c' r :
  trigger beh nested rm {| td_ev := None; td_tag := tag |} c = Ok c' r -> r = None.
Proof.
  unfold trigger. simpl. destruct (activate _ _ _ _ _ _) as [c1 a|c1 x|]; simpl; intros H; inversion H. reflexivity.
Qed.

(* ================================================================================================
   Section 4: initial activation (C11)
   ============================================================================================== *)

(* the `__initial__` pseudo-transition carries no validators, conditions, before, exit, on or after
   callbacks: only the enter group of the start state can run *)
Lemma initial_atrans_only_enter rm :
  a_validators (initial_atrans rm) = [] /\ a_cond (initial_atrans rm) = [] /\
  a_before (initial_atrans rm) = [] /\ a_exit (initial_atrans rm) = [] /\ a_on (initial_atrans rm) = [] /\
  a_after (initial_atrans rm) = [] /\ a_enter (initial_atrans rm) = state_enter rm (rm_start rm) /\
  a_tgt (initial_atrans rm) = rm_start rm /\ a_src (initial_atrans rm) = None.
Proof. repeat split. Qed.

Lemma call_group_nil beh nested rm g x c : call_group beh nested rm g x [] c = Ok c [].
Proof. reflexivity. Qed.

Lemma all_group_nil beh nested rm g x c : all_group beh nested rm g x [] c = Ok c true.
Proof. unfold all_group. simpl. destruct (rm_async rm); reflexivity. Qed.

(* activating the initial state = assign the start state, run its enter group, nothing else *)
Lemma activate_initial beh nested rm td c :
  activate beh nested rm (initial_atrans rm) td c =
    (do (c1, _n) <- call_group beh nested rm GEnter
                      (with_state (act_ctx (initial_atrans rm) td c) (Some (rm_start rm)))
                      (state_enter rm (rm_start rm))
                      (set_field (set_nact c (S (nact c))) (Some (rm_start rm)));
     Ok c1 (true, no_res)).
Proof.
  unfold activate, activate_pre, activate_post. simpl.
  rewrite all_group_nil. simpl.
  destruct (call_group beh nested rm GEnter _ _ _) as [c1 v|c1 e|]; reflexivity.
Qed.

(* sync engine, run-to-completion: constructing over a model that already stores a state, or
   calling activate_initial_state() again on an idle machine, runs no callback and changes nothing *)
Lemma run_loop_idle_noop beh rm f c :
  rm_rtc rm = true -> idle c ->
  exists c', run_loop beh rm (S f) c = Ok c' no_res /\
             field c' = field c /\ log c' = log c /\ calls c' = calls c /\ idle c' /\ nact c' = nact c.
Proof.
  intros R (Q & L). unfold run_loop. rewrite R, L. simpl. rewrite Q.
  eexists. split; [reflexivity|]. repeat split; auto.
Qed.

Lemma construct_resume_noop beh rm f c s :
  rm_rtc rm = true -> rm_async rm = false -> idle c -> field c = Some s ->
  exists c', construct beh rm (S f) c = Ok c' no_res /\
             field c' = Some s /\ log c' = log c /\ calls c' = calls c /\ idle c'.
Proof.
  intros R A I F. unfold construct. rewrite F, A.
  destruct (run_loop_idle_noop beh rm f c R I) as (c' & H & F' & Lg & K & I' & _).
  exists c'. repeat split; auto; try apply I'. congruence.
Qed.

(* rtc=False (after the repair of D3): the same two operations find nothing queued and do nothing *)
Lemma run_loop_nonrtc_empty beh rm f c :
  rm_rtc rm = false -> rm_async rm = false -> queue c = [] -> run_loop beh rm f c = Ok c no_res.
Proof. intros R A Q. unfold run_loop. rewrite R, A, Q. reflexivity. Qed.

(* async engine: the constructor processes nothing; with no stored state it leaves exactly one
   `__initial__` trigger in the queue, which the first loop entry processes before anything else *)
Lemma construct_async beh rm f c :
  rm_async rm = true -> rm_rtc rm = true ->
  construct beh rm f c =
    Ok (match field c with None => enqueue {| td_ev := None; td_tag := 0 |} c | Some _ => c end) no_res.
Proof. intros A R. unfold construct. rewrite A, R. reflexivity. Qed.

(* ================================================================================================
   Section 5: every top-level operation maps an idle machine to an idle machine (C04, C03)
   ============================================================================================== *)
Lemma run_loop_idle beh rm f c :
  rm_rtc rm = true -> locked c = false ->
  match run_loop beh rm f c with Ok c' _ | Exn c' _ => idle c' | Fuel => True end.
Proof. intros R L. unfold run_loop. rewrite R, L. simpl. apply drain_idle. Qed.

Lemma send_idle beh rm f td c :
  rm_rtc rm = true -> locked c = false ->
  match send beh rm f td c with Ok c' _ | Exn c' _ => idle c' | Fuel => True end.
Proof. intros R L. unfold send. rewrite R. simpl. apply send_rtc_idle. exact L. Qed.

(* ================================================================================================
   Section 6: the fixed order of the callback groups (C02)
   ============================================================================================== *)

(* an executed transition is exactly this chain of group executions, each starting where the
   previous one ended: validators, conditions (all hold), before, exit(source) unless internal, on,
   THE assignment of the state, enter(target) unless internal, after.  Callbacks of the first five
   groups receive the source as `state`, those of the last two the target. *)
Lemma activate_sequence beh nested rm t td c c' rb ro :
  activate beh nested rm t td c = Ok c' (true, (rb, ro)) ->
  let x := act_ctx t td c in
  let x' := with_state x (Some (a_tgt t)) in
  exists c1 c2 c3 c4 c5 c6 v1 v7,
    call_group beh nested rm GValidators x (a_validators t) (set_nact c (S (nact c))) = Ok c1 v1 /\
    all_group beh nested rm GCond x (a_cond t) c1 = Ok c2 true /\
    call_group beh nested rm GBefore x (a_before t) c2 = Ok c3 rb /\
    (if a_internal t then c4 = c3 else exists v, call_group beh nested rm GExit x (a_exit t) c3 = Ok c4 v) /\
    call_group beh nested rm GOn x (a_on t) c4 = Ok c5 ro /\
    (if a_internal t then c6 = set_field c5 (Some (a_tgt t))
     else exists v, call_group beh nested rm GEnter x' (a_enter t) (set_field c5 (Some (a_tgt t))) = Ok c6 v) /\
    call_group beh nested rm GAfter x' (a_after t) c6 = Ok c' v7.
Proof.
  intros H x x'. unfold activate, activate_pre, activate_post in H. fold x in H. fold x' in H.
  destruct (call_group beh nested rm GValidators x _ _) as [c1 v1|c1 e|] eqn:EV; simpl in H; try discriminate.
  destruct (all_group beh nested rm GCond x _ c1) as [c2 ok|c2 e|] eqn:EC; simpl in H; try discriminate.
  destruct ok; simpl in H; try discriminate.
  destruct (call_group beh nested rm GBefore x _ c2) as [c3 rb'|c3 e|] eqn:EB; simpl in H; try discriminate.
  destruct (a_internal t).
  - simpl in H.
    destruct (call_group beh nested rm GOn x _ c3) as [c5 ro'|c5 e|] eqn:EO; simpl in H; try discriminate.
    destruct (call_group beh nested rm GAfter x' _ _) as [c7 v7|c7 e|] eqn:EA; simpl in H; try discriminate.
    inversion H; subst. exists c1, c2, c3, c3, c5, (set_field c5 (Some (a_tgt t))), v1, v7. simpl. repeat split; auto.
  - destruct (call_group beh nested rm GExit x _ c3) as [c4 v4|c4 e|] eqn:EX; simpl in H; try discriminate.
    destruct (call_group beh nested rm GOn x _ c4) as [c5 ro'|c5 e|] eqn:EO; simpl in H; try discriminate.
    destruct (call_group beh nested rm GEnter x' _ _) as [c6 v6|c6 e|] eqn:EN; simpl in H; try discriminate.
    destruct (call_group beh nested rm GAfter x' _ c6) as [c7 v7|c7 e|] eqn:EA; simpl in H; try discriminate.
    inversion H; subst. exists c1, c2, c3, c4, c5, c6, v1, v7. repeat split; eauto.
Qed.

(* a rejected candidate ran its validators and its conditions (one of which failed) and nothing else *)
(* the assignment of the state after `on` is unconditional: whatever a callback of the first half stored
   through the low-level API ([AWrite]), the second half starts from the target - for internal
   transitions too *)
Lemma activate_post_overrides beh nested rm t x c f :
  activate_post beh nested rm t x (set_field c f) = activate_post beh nested rm t x c.
Proof. reflexivity. Qed.

Lemma activate_post_starts_from_target beh nested rm t x c :
  activate_post beh nested rm t x c =
    (let c0 := set_field c (Some (a_tgt t)) in
     let x0 := with_state x (Some (a_tgt t)) in
     do (c1, _n) <- (if a_internal t then Ok c0 [] else call_group beh nested rm GEnter x0 (a_enter t) c0);
     do (c2, _a) <- call_group beh nested rm GAfter x0 (a_after t) c1; Ok c2 tt).
Proof. reflexivity. Qed.

Lemma activate_rejected beh nested rm t td c c' v :
  activate beh nested rm t td c = Ok c' (false, v) ->
  exists c1 v1,
    call_group beh nested rm GValidators (act_ctx t td c) (a_validators t) (set_nact c (S (nact c))) = Ok c1 v1 /\
    all_group beh nested rm GCond (act_ctx t td c) (a_cond t) c1 = Ok c' false.
Proof.
  unfold activate, activate_pre. set (x := act_ctx t td c). intros H.
  destruct (call_group beh nested rm GValidators x _ _) as [c1 v1|c1 e|]; simpl in H; try discriminate.
  destruct (all_group beh nested rm GCond x _ c1) as [c2 ok|c2 e|] eqn:EC; simpl in H; try discriminate.
  destruct ok; simpl in H.
  - destruct (call_group beh nested rm GBefore x _ c2) as [c3 rb'|c3 e|]; simpl in H; try discriminate.
    destruct (if a_internal t then _ else _) as [c4 v4|c4 e|]; simpl in H; try discriminate.
    destruct (call_group beh nested rm GOn x _ c4) as [c5 ro'|c5 e|]; simpl in H; try discriminate.
    destruct (activate_post beh nested rm t x c5) as [c6 u|c6 e|]; simpl in H; discriminate.
  - inversion H; subst. eauto.
Qed.

(* event-named convention callbacks (before_<e>, on_<e>, after_<e>) carry the event they were
   declared for and are left out when another event of a multi-event transition is the trigger *)
Lemma call_group_skips_other_event beh nested rm g x w ws c :
  admitted x w = false ->
  call_group beh nested rm g x (w :: ws) c = call_group beh nested rm g x ws c.
Proof. intros H. unfold call_group. simpl. rewrite H. reflexivity. Qed.

Lemma admitted_iff x w :
  admitted x w = true <-> (w_evcond w = None \/ exists e, w_evcond w = Some e /\ x_ev x = Some e).
Proof.
  unfold admitted. destruct (w_evcond w) as [e|]; [|intuition].
  destruct (x_ev x) as [e'|].
  - rewrite Nat.eqb_eq. split.
    + intros ->. right. eauto.
    + intros [H|(e0 & H1 & H2)]; [discriminate|]. congruence.
  - split; [discriminate|]. intros [H|(e0 & H1 & H2)]; discriminate.
Qed.

(* ================================================================================================
   Section 7: the guard list of a transition is a conjunction (C08, C01)
   ============================================================================================== *)
Section Conjunction.
  Variable beh : behaviour.
  Variable nested : tdata -> cfg -> res pyres.

  (* [AllHold ws c c']: evaluating the guard entries [ws] in order from [c], every one holds, ending
     in [c'] *)
  Inductive AllHold (g : group) (x : ctx) : list wrapper -> cfg -> cfg -> Prop :=
  | AH_nil c : AllHold g x [] c c
  | AH_cons w r c c1 c2 v :
      run_wrapper beh nested g x w c = Ok c1 v -> truthy v = true ->
      AllHold g x r c1 c2 -> AllHold g x (w :: r) c c2.

  (* the list is satisfied iff every entry holds ... *)
  Lemma all_list_true_iff g x : forall ws c c',
    all_list beh nested g x ws c = Ok c' true <-> AllHold g x ws c c'.
  Proof.
    induction ws as [|w r IH]; intros c c'; simpl.
    - split; [intros H; inversion H; constructor|intros H; inversion H; reflexivity].
    - split.
      + intros H. destruct (run_wrapper beh nested g x w c) as [c1 v|c1 e|] eqn:E; simpl in H; try discriminate.
        destruct (truthy v) eqn:T; [|discriminate]. econstructor; eauto. apply IH. exact H.
      + intros H. inversion H as [|? ? ? c1 ? v E T Hr]; subst. rewrite E. simpl. rewrite T. apply IH. exact Hr.
  Qed.

  (* ... and fails at the first entry that does not hold; the entries after it are not evaluated *)
  Lemma all_list_false_at g x pre w post c c1 c2 v :
    AllHold g x pre c c1 -> run_wrapper beh nested g x w c1 = Ok c2 v -> truthy v = false ->
    all_list beh nested g x (pre ++ w :: post) c = Ok c2 false.
  Proof.
    intros H. revert post. induction H as [c|w0 r c c0 c3 v0 E T _ IH]; intros post Hw Tv; simpl.
    - rewrite Hw. simpl. rewrite Tv. reflexivity.
    - rewrite E. simpl. rewrite T. apply IH; auto.
  Qed.

  Lemma all_list_false_inv g x : forall ws c c',
    all_list beh nested g x ws c = Ok c' false ->
    exists pre w post c1 v, ws = pre ++ w :: post /\ AllHold g x pre c c1 /\
                            run_wrapper beh nested g x w c1 = Ok c' v /\ truthy v = false.
  Proof.
    induction ws as [|w r IH]; intros c c' H; simpl in H; [discriminate|].
    destruct (run_wrapper beh nested g x w c) as [c1 v|c1 e|] eqn:E; simpl in H; try discriminate.
    destruct (truthy v) eqn:T.
    - destruct (IH c1 c' H) as (pre & w' & post & c2 & v' & -> & HA & HW & HT).
      exists (w :: pre), w', post, c2, v'. repeat split; auto. econstructor; eauto.
    - inversion H; subst. exists [], w, r, c, v. repeat split; auto. constructor.
  Qed.

  (* one entry: `cond` expects a truthy value, `unless` a falsy one - compared on bool(value) *)
  Lemma wrapper_expected g x w c c' v b :
    run_wrapper beh nested g x w c = Ok c' v -> w_expected w = Some b ->
    exists u, run_chain beh nested g x (w_cbs w) c = Ok c' u /\ v = VBool (Bool.eqb (truthy u) b).
  Proof.
    unfold run_wrapper. intros H E. destruct (run_chain beh nested g x (w_cbs w) c) as [c1 u|c1 e|]; simpl in H; try discriminate.
    rewrite E in H. inversion H; subst. eauto.
  Qed.

  Lemma cond_holds_iff u : truthy (VBool (Bool.eqb (truthy u) true)) = truthy u.
  Proof. simpl. destruct (truthy u); reflexivity. Qed.

  Lemma unless_holds_iff u : truthy (VBool (Bool.eqb (truthy u) false)) = negb (truthy u).
  Proof. simpl. destruct (truthy u); reflexivity. Qed.
End Conjunction.

(* ================================================================================================
   Section 8: entry points and allowed events (C13)
   ============================================================================================== *)
From PySM Require Import Impl.History.

Lemma uniq_in x : forall l seen, In x (uniq seen l) <-> In x l /\ ~ In x seen.
Proof.
  induction l as [|y r IH]; intros seen; simpl.
  - tauto.
  - destruct (existsb (Nat.eqb y) seen) eqn:E.
    + rewrite IH. apply existsb_exists in E as (z & Hz & Ez). apply Nat.eqb_eq in Ez. subst z.
      split; [intros (H1 & H2); tauto|intros ([->|H1] & H2); [contradiction|tauto]].
    + simpl. rewrite IH. simpl.
      assert (~ In y seen) as Ny.
      { intros Hy. assert (existsb (Nat.eqb y) seen = true) as X
          by (apply existsb_exists; exists y; split; auto; apply Nat.eqb_refl). congruence. }
      split.
      * intros [->|(H1 & H2)]; [tauto|]. split; [tauto|]. intros H3. apply H2. now right.
      * intros ([->|H1] & H2); [now left|]. destruct (Nat.eq_dec y x) as [->|N]; [now left|].
        right. split; auto. intros [H3|H3]; [congruence|contradiction].
Qed.

Lemma uniq_nodup : forall l seen, NoDup (uniq seen l).
Proof.
  induction l as [|y r IH]; intros seen; simpl; [constructor|].
  destruct (existsb (Nat.eqb y) seen); [apply IH|].
  constructor; [|apply IH]. rewrite uniq_in. intros (_ & H). apply H. now left.
Qed.

(* allowed_events: each event once, and exactly the events bound to some transition leaving the state *)
Lemma allowed_events_nodup rm s : NoDup (allowed_events rm s).
Proof. apply uniq_nodup. Qed.

Lemma allowed_events_iff rm s e :
  In e (allowed_events rm s) <-> exists t, In t (outs rm s) /\ In e (rt_events t).
Proof.
  unfold allowed_events. rewrite uniq_in, in_flat_map. simpl. tauto.
Qed.

Lemma matches_iff t e : matches t e = true <-> In e (rt_events t).
Proof.
  unfold matches. rewrite existsb_exists. split.
  - intros (x & Hx & E). apply Nat.eqb_eq in E. subst. exact Hx.
  - intros H. exists e. split; auto. apply Nat.eqb_refl.
Qed.

(* a name that is bound to no transition leaving the current state - in particular any name that is
   not a declared event - fires nothing, runs no callback and changes nothing *)
Lemma no_candidate_skips beh nested rm e td : forall cands c,
  (forall t, In t cands -> matches t e = false) -> Skipped beh nested rm e td cands c c.
Proof.
  induction cands as [|t r IH]; intros c H; [constructor|].
  apply Sk_nomatch; [apply H; now left|]. apply IH. intros t' Ht. apply H. now right.
Qed.

Lemma unknown_event_touches_nothing beh nested rm e td cands (s : nat) c :
  (forall t, In t cands -> ~ In e (rt_events t)) ->
  try_candidates beh nested rm cands e s td c =
    if rm_allow rm then Ok c (Some no_res) else Exn c (XNotAllowed e s).
Proof.
  intros H. apply none_qualifies. apply no_candidate_skips.
  intros t Ht. destruct (matches t e) eqn:M; auto. apply matches_iff in M. exfalso. eapply H; eauto.
Qed.

Lemma styles_equal st1 st2 beh rm fuel td c : enter st1 beh rm fuel td c = enter st2 beh rm fuel td c.
Proof. destruct st1, st2; reflexivity. Qed.

(* ================================================================================================
   Section 9: guards that are pure and do not depend on how often they were asked (C05, C08)
   ============================================================================================== *)
Section PureGuards.
  Variable beh : behaviour.
  Variable nested : tdata -> cfg -> res pyres.

  Definition stateless_pure (cbs : list cbref) : Prop :=
    forall cb, In cb cbs -> forall n, acts (beh cb n) = [] /\ ret (beh cb n) = ret (beh cb 0).

  (* the value of a guard name provided by several objects: left-to-right `and` *)
  Fixpoint chain_val (cbs : list cbref) : pyval :=
    match cbs with
    | [] => VBool true
    | [cb] => ret (beh cb 0)
    | cb :: r => let v := ret (beh cb 0) in if truthy v then chain_val r else v
    end.

  Definition wrapper_val (w : wrapper) : pyval :=
    match w_expected w with
    | Some b => VBool (Bool.eqb (truthy (chain_val (w_cbs w))) b)
    | None => chain_val (w_cbs w)
    end.

  Lemma run_cb_pure g x cb c :
    (forall n, acts (beh cb n) = [] /\ ret (beh cb n) = ret (beh cb 0)) ->
    exists c', run_cb beh nested g x cb c = Ok c' (ret (beh cb 0)).
  Proof.
    intros H. unfold run_cb. destruct (H (count_calls cb (calls c))) as (A & R). rewrite A. simpl.
    rewrite R. eauto.
  Qed.

  Lemma run_chain_pure g x : forall cbs c, stateless_pure cbs ->
    exists c', run_chain beh nested g x cbs c = Ok c' (chain_val cbs).
  Proof.
    induction cbs as [|cb r IH]; intros c H; simpl; [eauto|].
    assert (Hcb : forall n, acts (beh cb n) = [] /\ ret (beh cb n) = ret (beh cb 0)) by (apply H; now left).
    assert (Hr : stateless_pure r) by (intros cb' Hin; apply H; now right).
    destruct r as [|cb2 r2]; [apply run_cb_pure; exact Hcb|].
    destruct (run_cb_pure g x cb c Hcb) as (c1 & E). rewrite E. simpl.
    destruct (truthy (ret (beh cb 0))); [apply IH; exact Hr|eauto].
  Qed.

  Lemma run_wrapper_pure g x w c : stateless_pure (w_cbs w) ->
    exists c', run_wrapper beh nested g x w c = Ok c' (wrapper_val w).
  Proof.
    intros H. unfold run_wrapper, wrapper_val. destruct (run_chain_pure g x (w_cbs w) c H) as (c1 & E).
    rewrite E. simpl. destruct (w_expected w); eauto.
  Qed.

  Definition all_pure (ws : list wrapper) : Prop := forall w, In w ws -> stateless_pure (w_cbs w).

  (* the sync executor (stop at the first failing entry) ... *)
  Lemma all_list_pure g x : forall ws c, all_pure ws ->
    exists c', all_list beh nested g x ws c = Ok c' (forallb (fun w => truthy (wrapper_val w)) ws).
  Proof.
    induction ws as [|w r IH]; intros c H; simpl; [eauto|].
    destruct (run_wrapper_pure g x w c (H w (or_introl eq_refl))) as (c1 & E). rewrite E. simpl.
    destruct (truthy (wrapper_val w)); simpl; [apply IH; intros w' Hw'; apply H; now right|eauto].
  Qed.

  (* ... and the async executor (every entry is evaluated) compute the same conjunction *)
  Lemma all_list_async_pure g x : forall ws c, all_pure ws ->
    exists c', all_list_async beh nested g x ws c = Ok c' (forallb (fun w => truthy (wrapper_val w)) ws).
  Proof.
    induction ws as [|w r IH]; intros c H; simpl; [eauto|].
    destruct (run_wrapper_pure g x w c (H w (or_introl eq_refl))) as (c1 & E). rewrite E. simpl.
    destruct (IH c1 (fun w' Hw' => H w' (or_intror Hw'))) as (c2 & E2). rewrite E2. simpl. eauto.
  Qed.

  Theorem sync_and_async_guards_agree g x ws c :
    all_pure ws ->
    exists c1 c2 b, all_list beh nested g x ws c = Ok c1 b /\ all_list_async beh nested g x ws c = Ok c2 b /\
                    b = forallb (fun w => truthy (wrapper_val w)) ws.
  Proof.
    intros H. destruct (all_list_pure g x ws c H) as (c1 & E1). destruct (all_list_async_pure g x ws c H) as (c2 & E2).
    exists c1, c2, (forallb (fun w => truthy (wrapper_val w)) ws). auto.
  Qed.
End PureGuards.
