(* C07: the binder computes exactly the declarative assignment [spec_bind]. *)
From Coq Require Import List Arith Bool Lia.
Import ListNotations.
From PySM Require Import Impl.Signature Spec.CallSpec.

Lemma lookup_remove_none n m kw : lookup n kw = None -> lookup n (remove m kw) = None.
Proof.
  induction kw as [|[k v] r IH]; simpl; auto.
  destruct (Nat.eqb n k) eqn:E; [discriminate|]. intros H.
  destruct (Nat.eqb m k); simpl; auto. rewrite E. auto.
Qed.

Lemma no_posonly_remove sig kw m : no_posonly_named sig kw -> no_posonly_named sig (remove m kw).
Proof. intros H p Hp K. apply lookup_remove_none, H; auto. Qed.

Lemma no_posonly_tail p r kw : no_posonly_named (p :: r) kw -> no_posonly_named r kw.
Proof. intros H q Hq. apply H. now right. Qed.

(* the keyword phase on a tail that starts where the positional values are exhausted *)
Lemma finish_spec : forall ps kw acc,
  shape ps = true \/ shape_kwonly ps = true -> no_posonly_named ps kw ->
  finish ps kw acc None = Bound (acc ++ spec_bind ps [] kw).
Proof.
  induction ps as [|p r IH]; intros kw acc S N.
  - unfold finish. simpl. destruct kw; rewrite app_nil_r; reflexivity.
  - assert (Nr : no_posonly_named r kw) by (eapply no_posonly_tail; eauto).
    unfold finish in *. simpl. destruct (p_kind p) eqn:K.
    + (* PosOnly: never named *)
      rewrite (N p (or_introl eq_refl) K).
      assert (Sr : shape r = true \/ shape_kwonly r = true).
      { destruct S as [S|S]; simpl in S; rewrite K in S; [left; exact S|discriminate]. }
      specialize (IH kw acc Sr Nr). exact IH.
    + assert (Sr : shape r = true \/ shape_kwonly r = true).
      { destruct S as [S|S]; simpl in S; rewrite K in S; [left; exact S|discriminate]. }
      destruct (lookup (p_name p) kw) as [v|] eqn:L.
      * specialize (IH (remove (p_name p) kw) (acc ++ [(p_name p, BOne v)]) Sr (no_posonly_remove _ _ _ Nr)).
        rewrite IH. rewrite <- app_assoc. reflexivity.
      * exact (IH kw acc Sr Nr).
    + assert (Sr : shape r = true \/ shape_kwonly r = true).
      { destruct S as [S|S]; simpl in S; rewrite K in S; [right; exact S|discriminate]. }
      exact (IH kw acc Sr Nr).
    + assert (Sr : shape r = true \/ shape_kwonly r = true).
      { destruct S as [S|S]; simpl in S; rewrite K in S; right; exact S. }
      destruct (lookup (p_name p) kw) as [v|] eqn:L.
      * specialize (IH (remove (p_name p) kw) (acc ++ [(p_name p, BOne v)]) Sr (no_posonly_remove _ _ _ Nr)).
        rewrite IH. rewrite <- app_assoc. reflexivity.
      * exact (IH kw acc Sr Nr).
    + (* VarKw is the last parameter *)
      assert (r = []) as -> by (destruct S as [S|S]; simpl in S; rewrite K in S; destruct r; auto; discriminate).
      simpl. destruct kw as [|x kw']; simpl; rewrite ?app_nil_r; reflexivity.
Qed.

Lemma spec_kwonly_ignores_args p r args kw :
  p_kind p = KwOnly -> spec_bind (p :: r) args kw = spec_bind (p :: r) [] kw.
Proof. intros K. simpl. rewrite K. reflexivity. Qed.

Lemma pos_phase_spec : forall ps args kw acc,
  shape ps = true -> no_posonly_named ps kw ->
  pos_phase ps args kw acc = Bound (acc ++ spec_bind ps args kw).
Proof.
  induction ps as [|p r IH]; intros args kw acc S N.
  - destruct args; simpl; unfold finish; simpl; destruct kw; rewrite app_nil_r; reflexivity.
  - assert (Nr : no_posonly_named r kw) by (eapply no_posonly_tail; eauto).
    destruct args as [|a rest].
    + (* positional values exhausted *)
      simpl pos_phase. destruct (p_kind p) eqn:K.
      * rewrite (N p (or_introl eq_refl) K). apply finish_spec; auto.
      * destruct (lookup (p_name p) kw); apply finish_spec; auto.
      * simpl in S. rewrite K in S.
        rewrite (finish_spec r kw acc (or_intror S) Nr). simpl. rewrite K. reflexivity.
      * destruct (lookup (p_name p) kw); apply finish_spec; auto.
      * destruct (lookup (p_name p) kw); apply finish_spec; auto.
    + simpl pos_phase. destruct (p_kind p) eqn:K.
      * simpl in S. rewrite K in S. rewrite (IH rest kw _ S Nr). simpl. rewrite K, <- app_assoc. reflexivity.
      * simpl in S. rewrite K in S. destruct (lookup (p_name p) kw) as [v|] eqn:L.
        -- rewrite (IH rest (remove (p_name p) kw) _ S (no_posonly_remove _ _ _ Nr)).
           simpl. rewrite K, L, <- app_assoc. reflexivity.
        -- rewrite (IH rest kw _ S Nr). simpl. rewrite K, L, <- app_assoc. reflexivity.
      * simpl in S. rewrite K in S.
        rewrite (finish_spec r kw _ (or_intror S) Nr). simpl. rewrite K, <- app_assoc. reflexivity.
      * rewrite (finish_spec (p :: r) kw acc (or_introl S) N).
        rewrite (spec_kwonly_ignores_args p r (a :: rest) kw K). reflexivity.
      * assert (r = []) as -> by (simpl in S; rewrite K in S; destruct r; auto; discriminate).
        unfold finish. simpl. rewrite K. destruct kw as [|x kw']; simpl; rewrite ?app_nil_r; reflexivity.
Qed.

(* for every signature `def` accepts, every list of positional values and every keyword map in which
   no positional-only parameter is named: the binder produces exactly the declarative assignment *)
Theorem bind_is_spec sig args kw :
  shape sig = true -> no_posonly_named sig kw ->
  bind_expected sig args kw = Bound (spec_bind sig args kw).
Proof. intros S N. unfold bind_expected. rewrite (pos_phase_spec sig args kw [] S N). reflexivity. Qed.
