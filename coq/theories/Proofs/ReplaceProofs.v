(* C08, textual layer: what replace_operators does to a guard text. *)
From Coq Require Import List Arith Bool Lia.
Import ListNotations.
From PySM Require Import Impl.Replace.

(* inside a run of word characters that is entered with a word character before it, everything is
   copied *)
Lemma word_run_after_word : forall w post,
  forallb is_word w = true -> replace_from true (w ++ post) = w ++ replace_from true post.
Proof.
  induction w as [|c w IH]; intros post H; simpl; auto.
  simpl in H. apply andb_true_iff in H. destruct H as [Hc Hw].
  assert (Nb : Nat.eqb c bang = false).
  { destruct (Nat.eqb c bang) eqn:E; auto. apply Nat.eqb_eq in E. subst. discriminate. }
  assert (Nc : Nat.eqb c caret = false).
  { destruct (Nat.eqb c caret) eqn:E; auto. apply Nat.eqb_eq in E. subst. discriminate. }
  rewrite Nb, Nc. simpl. rewrite andb_false_r. simpl. rewrite Hc. f_equal. apply IH. exact Hw.
Qed.

Lemma replace_step p c r :
  replace_from p (c :: r) =
    let next_word := match r with d :: _ => is_word d | [] => false end in
    let next_eq := match r with d :: _ => Nat.eqb d eq_sign | [] => false end in
    if Nat.eqb c bang && negb next_eq then s_not ++ replace_from false r
    else if Nat.eqb c caret then s_and ++ replace_from false r
    else if Nat.eqb c vee && negb p && negb next_word then s_or ++ replace_from true r
    else c :: replace_from (is_word c) r.
Proof. reflexivity. Qed.

(* names are never rewritten: a run of at least two word characters - an identifier such as valve, v2,
   not_v, or a number - is copied unchanged wherever it stands, whatever precedes and follows it *)
Theorem names_untouched : forall p w post,
  forallb is_word w = true -> 2 <= length w ->
  replace_from p (w ++ post) = w ++ replace_from true post.
Proof.
  intros p w post H L. destruct w as [|c [|d w]]; simpl in L; try lia.
  simpl in H. apply andb_true_iff in H. destruct H as [Hc H]. apply andb_true_iff in H. destruct H as [Hd Hw].
  assert (Nb : Nat.eqb c bang = false).
  { destruct (Nat.eqb c bang) eqn:E; auto. apply Nat.eqb_eq in E. subst. discriminate. }
  assert (Nc : Nat.eqb c caret = false).
  { destruct (Nat.eqb c caret) eqn:E; auto. apply Nat.eqb_eq in E. subst. discriminate. }
  change ((c :: d :: w) ++ post) with (c :: (d :: w) ++ post).
  rewrite replace_step. cbv zeta. rewrite Nb, Nc. change ((d :: w) ++ post) with (d :: w ++ post).
  cbv iota beta. rewrite Hd. simpl andb. rewrite andb_false_r. rewrite Hc.
  change ((c :: d :: w) ++ replace_from true post) with (c :: (d :: w) ++ replace_from true post).
  f_equal. apply (word_run_after_word (d :: w) post). simpl. rewrite Hd. exact Hw.
Qed.

(* a `v` standing alone (no word character on either side) is the disjunction *)
Theorem lone_v_is_or : forall post,
  match post with d :: _ => is_word d = false | [] => True end ->
  replace_from false (vee :: post) = s_or ++ replace_from true post.
Proof.
  intros post H. simpl. destruct post as [|d r]; simpl; auto. rewrite H. reflexivity.
Qed.

(* the result contains no ^ and no ! other than in != *)
Fixpoint bangs_ok (s : list nat) : bool :=
  match s with
  | [] => true
  | c :: r => (if Nat.eqb c bang then match r with d :: _ => Nat.eqb d eq_sign | [] => false end else true)
              && bangs_ok r
  end.

Lemma replace_head_eq : forall p d r, Nat.eqb d eq_sign = true -> exists t, replace_from p (d :: r) = d :: t.
Proof.
  intros p d r E. apply Nat.eqb_eq in E. subst d. simpl. eexists. reflexivity.
Qed.

Local Opaque replace_from.

Theorem output_has_only_python_operators : forall s p,
  existsb (Nat.eqb caret) (replace_from p s) = false /\ bangs_ok (replace_from p s) = true.
Proof.
  induction s as [|c r IH]; intros p.
  - split; reflexivity.
  - rewrite replace_step. cbv zeta. destruct (Nat.eqb c bang) eqn:Eb.
    + apply Nat.eqb_eq in Eb. subst c. destruct r as [|d r'].
      * split; reflexivity.
      * cbv iota. destruct (Nat.eqb d eq_sign) eqn:Ed.
        -- (* "!=" is kept *)
           change (existsb (Nat.eqb caret) (bang :: replace_from false (d :: r')) = false
                   /\ bangs_ok (bang :: replace_from false (d :: r')) = true).
           destruct (replace_head_eq false d r' Ed) as (t & Et). destruct (IH false) as (I1 & I2).
           rewrite Et in *. split.
           ++ change (existsb (Nat.eqb caret) (d :: t) = false). exact I1.
           ++ change ((Nat.eqb d eq_sign) && bangs_ok (d :: t) = true). rewrite Ed. exact I2.
        -- simpl. destruct (IH false) as (I1 & I2). split; [exact I1|exact I2].
    + simpl andb. cbv iota. destruct (Nat.eqb c caret) eqn:Ec.
      * simpl. destruct (IH false) as (I1 & I2). split; [exact I1|exact I2].
      * destruct (Nat.eqb c vee && negb p && negb match r with d :: _ => is_word d | [] => false end) eqn:Ev.
        -- simpl. destruct (IH true) as (I1 & I2). split; [exact I1|exact I2].
        -- split.
           ++ change (Nat.eqb caret c || existsb (Nat.eqb caret) (replace_from (is_word c) r) = false).
              rewrite Nat.eqb_sym, Ec. apply IH.
           ++ change ((if Nat.eqb c bang
                       then match replace_from (is_word c) r with d :: _ => Nat.eqb d eq_sign | [] => false end
                       else true) && bangs_ok (replace_from (is_word c) r) = true).
              rewrite Eb. apply IH.
Qed.

Local Transparent replace_from.

(* non-vacuity: "!a^valve v x!=v2" becomes "not a and valve or x!=v2" *)
Example replace_example :
  replace_operators [33; 97; 94; 118; 97; 108; 118; 101; 32; 118; 32; 120; 33; 61; 118; 50]
  = [110; 111; 116; 32; 97; 32; 97; 110; 100; 32; 118; 97; 108; 118; 101; 32; 32; 111; 114; 32; 32; 120; 33; 61; 118; 50].
Proof. vm_compute. reflexivity. Qed.
