(* Proofs about the diagram model (Impl/Diagram.v). *)
From Coq Require Import List Arith Bool Lia FinFun.
Import ListNotations.
From PySM Require Import Impl.Diagram.

Definition well_formed (m : dmachine) : Prop :=
  dm_initial m < nstates m /\ forall t, In t (dm_trans m) -> dt_src t < nstates m /\ dt_tgt t < nstates m.

(* exactly one node per state plus the initial pseudo-node, no identifier twice *)
Lemma nodes_ids m cur : map dn_id (graph_nodes m cur) = NInitial :: map NState (seq 0 (nstates m)).
Proof. unfold graph_nodes. simpl. f_equal. rewrite map_map. reflexivity. Qed.

Lemma nodes_count m cur : length (graph_nodes m cur) = S (nstates m).
Proof. unfold graph_nodes. simpl. rewrite map_length, seq_length. reflexivity. Qed.

Lemma node_ids_nodup m cur : NoDup (map dn_id (graph_nodes m cur)).
Proof.
  rewrite nodes_ids. constructor.
  - rewrite in_map_iff. intros (x & H & _). discriminate.
  - apply Injective_map_NoDup; [intros a b H; now inversion H|apply seq_NoDup].
Qed.

(* a double border exactly on final states *)
Lemma double_border_iff_final m cur s :
  dn_peripheries (state_node m cur s) = 2 <-> nth s (dm_final m) false = true.
Proof. simpl. destruct (nth s (dm_final m) false); split; intros H; auto; discriminate. Qed.

(* for an instance exactly the current state is highlighted; for a class none *)
Lemma highlighted_iff_current m c s : dn_highlighted (state_node m (Some c) s) = true <-> s = c.
Proof. simpl. rewrite Nat.eqb_eq. split; auto. Qed.

Lemma class_has_no_highlight m : forall n, In n (graph_nodes m None) -> dn_highlighted n = false.
Proof.
  intros n [<-|H]; [reflexivity|]. apply in_map_iff in H as (s & <- & _). reflexivity.
Qed.

Lemma exactly_one_highlighted m c :
  c < nstates m ->
  filter dn_highlighted (graph_nodes m (Some c)) = [state_node m (Some c) c].
Proof.
  intros L. unfold graph_nodes. simpl.
  replace (nstates m) with (c + S (nstates m - S c)) by lia.
  rewrite seq_app, map_app, filter_app. simpl. rewrite Nat.eqb_refl.
  assert (forall l, (forall s, In s l -> s <> c) -> filter dn_highlighted (map (state_node m (Some c)) l) = []) as Hn.
  { induction l as [|s r IH]; intros H; simpl; auto.
    destruct (Nat.eqb_spec c s) as [E|N]; [exfalso; apply (H s); [now left|auto]|].
    apply IH. intros s' Hs'. apply H. now right. }
  rewrite !Hn; auto; intros s Hs; apply in_seq in Hs; lia.
Qed.

(* exactly one edge leaves the initial pseudo-node, and it points at the initial state *)
Lemma one_initial_edge m :
  filter (fun e => match de_src e with NInitial => true | _ => false end) (graph_edges m) = [initial_edge m].
Proof.
  unfold graph_edges. simpl. f_equal.
  induction (seq 0 (nstates m)) as [|s r IH]; simpl; auto.
  rewrite filter_app, IH, app_nil_r.
  induction (filter (fun t => negb (dt_internal t)) (outs m s)) as [|t l IHl]; simpl; auto.
Qed.

(* the other edges: one per external transition, from its source to its target, labelled with its
   events and guards; internal transitions yield no edge *)
Lemma transition_edges m :
  tl (graph_edges m) =
  flat_map (fun s => map trans_edge (filter (fun t => negb (dt_internal t)) (outs m s))) (seq 0 (nstates m)).
Proof. reflexivity. Qed.

Lemma edge_of_external_transition m t :
  well_formed m -> In t (dm_trans m) -> dt_internal t = false -> In (trans_edge t) (tl (graph_edges m)).
Proof.
  intros (_ & W) Ht I. rewrite transition_edges, in_flat_map. exists (dt_src t). split.
  - apply in_seq. destruct (W t Ht). lia.
  - apply in_map, filter_In. split; [apply filter_In; split; [exact Ht|apply Nat.eqb_refl]|now rewrite I].
Qed.

Lemma every_edge_is_an_external_transition m e :
  In e (tl (graph_edges m)) -> exists t, In t (dm_trans m) /\ dt_internal t = false /\ e = trans_edge t.
Proof.
  rewrite transition_edges, in_flat_map. intros (s & _ & H).
  apply in_map_iff in H as (t & <- & H). apply filter_In in H as (H & I). apply filter_In in H as (H & _).
  exists t. repeat split; auto. now destruct (dt_internal t).
Qed.

(* internal transitions are listed inside their state's label *)
Lemma internal_listed_in_state m cur s :
  dn_internal_lines (state_node m cur s) = map dt_events (filter dt_internal (outs m s)).
Proof. reflexivity. Qed.
