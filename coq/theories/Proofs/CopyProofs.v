(* Proofs about cloning (History.OClone: __getstate__/__setstate__). *)
From Coq Require Import List Arith Bool Lia.
Import ListNotations.
From PySM Require Import Impl.Engine Impl.Registry Impl.History Proofs.EngineFrame Proofs.EngineProofs.

Lemma idle_new_engine c : idle c -> depth c = 0 -> new_engine c = c.
Proof. intros (Q & L) D. destruct c; simpl in *; subst. reflexivity. Qed.

(* sync engine, run-to-completion, a state is stored: starting the clone's engine does nothing, the
   clone's configuration IS the original's (state, call history, empty queue, free lock) *)
Lemma clone_keeps_configuration beh rm f c s :
  rm_rtc rm = true -> rm_async rm = false -> idle c -> depth c = 0 -> field c = Some s ->
  construct beh rm (S f) (new_engine c) = Ok c no_res.
Proof.
  intros R A I D F. rewrite (idle_new_engine c I D).
  unfold construct. rewrite F, A. unfold run_loop. rewrite R. simpl.
  destruct I as (Q & L). rewrite L, Q. f_equal. destruct c; simpl in *; subst; reflexivity.
Qed.

(* rtc = False as well (after the repair of D3) *)
Lemma clone_keeps_configuration_nonrtc beh rm f c s :
  rm_rtc rm = false -> rm_async rm = false -> idle c -> depth c = 0 -> field c = Some s ->
  construct beh rm f (new_engine c) = Ok c no_res.
Proof.
  intros R A I D F. rewrite (idle_new_engine c I D).
  unfold construct. rewrite F, A. unfold run_loop. rewrite R, A. simpl.
  destruct I as (Q & L). rewrite Q. reflexivity.
Qed.

(* async engine: the clone's engine is started too: a machine cloned before its activation still
   has exactly one `__initial__` trigger waiting (repaired defect D5); with a stored state nothing *)
Lemma clone_async_keeps_pending_activation beh rm f c :
  rm_async rm = true -> rm_rtc rm = true -> idle c -> depth c = 0 ->
  construct beh rm f (new_engine c) =
    Ok (match field c with None => enqueue {| td_ev := None; td_tag := 0 |} c | Some _ => c end) no_res.
Proof. intros A R I D. rewrite (idle_new_engine c I D). apply construct_async; auto. Qed.

Lemma uniq_nodup_id : forall l seen, NoDup l -> (forall x, In x l -> ~ In x seen) -> uniq seen l = l.
Proof.
  induction l as [|x r IH]; intros seen N H; simpl; auto.
  inversion N as [|? ? Nx Nr]; subst.
  assert (existsb (Nat.eqb x) seen = false) as ->.
  { destruct (existsb (Nat.eqb x) seen) eqn:E; auto. apply existsb_exists in E as (y & Hy & Ey).
    apply Nat.eqb_eq in Ey. subst y. exfalso. apply (H x); [now left|exact Hy]. }
  f_equal. apply IH; auto. intros y Hy [<-|Hs]; [contradiction|]. apply (H y); [now right|exact Hs].
Qed.

(* a machine built by its constructor alone (one resolution round, each provider once): the clone's
   registry is the original's *)
Lemma clone_md_same md r :
  md_rounds md = [r] -> NoDup r -> md_erounds md = 1 -> clone_md md = md.
Proof. intros _ _ _. reflexivity. Qed.

(* whatever the rounds: the clone replays the registration rounds of its original *)
Lemma clone_md_id md : clone_md md = md.
Proof. reflexivity. Qed.

(* hence: cloning such a machine at any idle point and going on with the clone gives exactly the
   observations of going on with the original, for every suffix *)
Theorem clone_then_suffix_equals_suffix_any_rounds beh md f c s ops :
  rm_rtc (resolve md) = true -> rm_async (resolve md) = false ->
  idle c -> depth c = 0 -> field c = Some s -> log c = [] -> amb c = false -> ambc c = false ->
  tl (run_ops beh md (S f) (OClone :: ops) c) = run_ops beh md (S f) ops c.
Proof.
  intros R A I D F Lg A1 A2.
  assert (CL : clear_log c = c) by (destruct c; simpl in *; subst; reflexivity).
  cbn [run_ops]. unfold run_op at 1. rewrite CL, (clone_md_id md).
  rewrite (clone_keeps_configuration beh (resolve md) f c s R A I D F). simpl. reflexivity.
Qed.

Theorem clone_then_suffix_equals_suffix beh md r f c s ops :
  md_rounds md = [r] -> NoDup r -> md_erounds md = 1 ->
  rm_rtc (resolve md) = true -> rm_async (resolve md) = false ->
  idle c -> depth c = 0 -> field c = Some s -> log c = [] -> amb c = false -> ambc c = false ->
  tl (run_ops beh md (S f) (OClone :: ops) c) = run_ops beh md (S f) ops c.
Proof. intros _ _ _. apply clone_then_suffix_equals_suffix_any_rounds. Qed.
