(* Parity of attachment time.  For the action / validator groups (everything but the guard list) the
   wrappers an executor ends up with are exactly one per (callback spec, provider that has the
   attribute), over ALL providers attached so far - however they were spread over resolution rounds
   (constructor, one or several add_listener calls, the single round of a clone).  Hence a listener
   attached later gets the same callbacks as one passed to the constructor, and a clone gets the
   callbacks of its original.  (For the guard list the statement is false: deviation D25.) *)
From Coq Require Import List Arith Bool Lia.
Import ListNotations.
From PySM Require Import Impl.Engine Impl.Registry Proofs.EngineProofs Proofs.RegistryProofs.

Lemma cbname_eqb_eq a b : cbname_eqb a b = true -> a = b.
Proof.
  unfold cbname_eqb. destruct a, b; simpl; intros H; try discriminate; try reflexivity;
    repeat (apply andb_true_iff in H; destruct H as [_ H]);
    apply Nat.eqb_eq in H; subst; reflexivity.
Qed.

Lemma cbref_eqb_eq a b : cbref_eqb a b = true -> a = b.
Proof.
  unfold cbref_eqb. destruct a as [p n], b as [p' n']; simpl. intros H.
  apply andb_true_iff in H as (Hp & Hn). apply Nat.eqb_eq in Hp. apply cbname_eqb_eq in Hn. subst. reflexivity.
Qed.

Lemma same_key_single w p n p' n' :
  w_cbs w = [{| cb_prov := p; cb_name := n |}] ->
  forall w', w_cbs w' = [{| cb_prov := p'; cb_name := n' |}] -> same_key w w' = true -> p = p' /\ n = n'.
Proof.
  intros Hw w' Hw' H. unfold same_key in H. rewrite Hw, Hw' in H. simpl in H.
  rewrite andb_true_r in H. apply cbref_eqb_eq in H. inversion H. auto.
Qed.

Section Parity.
  Variable provs : list provider.
  Variable g : group.
  Hypothesis not_guards : g <> GCond.
  Variable specs : list spec.
  (* one spec per name and group: what CallbackSpecList._add / dedup_specs guarantees *)
  Hypothesis uniq : forall sp sp', In sp specs -> In sp' specs -> sp_name sp = sp_name sp' -> sp = sp'.

  Definition wrapper_of (sp : spec) (p : nat) : wrapper :=
    mkw sp [{| cb_prov := p; cb_name := sp_name sp |}].

  (* where a wrapper comes from *)
  Definition origin (ps : list nat) (w : wrapper) : Prop :=
    exists sp p, In sp specs /\ In p ps /\ has_attr provs p (sp_name sp) = true /\ w = wrapper_of sp p.

  Lemma spec_wrappers round sp w :
    In w (resolve_spec provs g round sp) <->
    exists p, In p round /\ has_attr provs p (sp_name sp) = true /\ w = wrapper_of sp p.
  Proof.
    rewrite one_wrapper_per_provider by exact not_guards. rewrite in_map_iff. split.
    - intros (p & <- & Hp). apply filter_In in Hp as (Hin & Ha). exists p. auto.
    - intros (p & Hin & Ha & ->). exists p. split; [reflexivity|]. apply filter_In. auto.
  Qed.

  (* ---- nothing but wrappers with an origin ever enters an executor ---- *)
  Lemma add_in ex w x : In x (executor_add ex w) -> In x ex \/ x = w.
  Proof.
    unfold executor_add. destruct (existsb (same_key w) ex); auto.
    intros H. apply in_app_iff in H as [H|[H|[]]]; auto.
  Qed.

  Lemma fold_add_in : forall ws ex x, In x (fold_left executor_add ws ex) -> In x ex \/ In x ws.
  Proof.
    induction ws as [|w r IH]; intros ex x H; simpl in *; auto.
    apply IH in H as [H|H]; auto. apply add_in in H as [H|H]; auto.
  Qed.

  Lemma round_in round : forall sps ex x,
    In x (resolve_round provs g sps ex round) ->
    In x ex \/ exists sp, In sp sps /\ In x (resolve_spec provs g round sp).
  Proof.
    unfold resolve_round. induction sps as [|sp r IH]; intros ex x H; simpl in *; auto.
    apply IH in H as [H|(sp' & Hs & Hx)].
    - apply fold_add_in in H as [H|H]; auto. right. exists sp. auto.
    - right. exists sp'. auto.
  Qed.

  Lemma group_in : forall rounds ex x,
    In x (fold_left (resolve_round provs g specs) rounds ex) ->
    In x ex \/ origin (concat rounds) x.
  Proof.
    induction rounds as [|round r IH]; intros ex x H; simpl in *; auto.
    apply IH in H as [H|(sp & p & Hs & Hp & Ha & ->)].
    - apply round_in in H as [H|(sp & Hs & Hx)]; auto.
      apply spec_wrappers in Hx as (p & Hp & Ha & ->).
      right. exists sp, p. repeat split; auto. apply in_app_iff. auto.
    - right. exists sp, p. repeat split; auto. apply in_app_iff. auto.
  Qed.

  (* ---- every wrapper with an origin is there (by key), and keys determine wrappers ---- *)
  Lemma group_keeps : forall rounds ex w,
    has ex w = true -> has (fold_left (resolve_round provs g specs) rounds ex) w = true.
  Proof. induction rounds as [|round r IH]; intros ex w H; simpl; auto. apply IH, round_keeps, H. Qed.

  Lemma group_has : forall rounds ex round sp w,
    In round rounds -> In sp specs -> In w (resolve_spec provs g round sp) ->
    has (fold_left (resolve_round provs g specs) rounds ex) w = true.
  Proof.
    induction rounds as [|r0 r IH]; intros ex round sp w Hr Hs Hw; simpl; [contradiction|].
    destruct Hr as [->|Hr].
    - apply group_keeps. eapply round_has; eauto.
    - eapply IH; eauto.
  Qed.

  Lemma has_in ex w : has ex w = true -> exists w', In w' ex /\ same_key w w' = true.
  Proof. unfold has. intros H. apply existsb_exists in H as (w' & Hin & Hk). eauto. Qed.

  Lemma in_concat_round {A} (x : A) rounds : In x (concat rounds) -> exists round, In round rounds /\ In x round.
  Proof.
    induction rounds as [|r rs IH]; simpl; [contradiction|]. intros H.
    apply in_app_iff in H as [H|H]; [exists r; auto|]. destruct (IH H) as (round & Hr & Hx). exists round. auto.
  Qed.

  (* THE characterisation *)
  Theorem group_wrappers rounds w :
    In w (resolve_group provs g specs rounds) <-> origin (concat rounds) w.
  Proof.
    unfold resolve_group. split.
    - intros H. apply group_in in H as [[]|H]. exact H.
    - intros (sp & p & Hs & Hp & Ha & ->).
      destruct (in_concat_round p rounds Hp) as (round & Hr & Hpr).
      assert (Hw : In (wrapper_of sp p) (resolve_spec provs g round sp)).
      { apply spec_wrappers. exists p. auto. }
      pose proof (group_has rounds [] round sp _ Hr Hs Hw) as Hh.
      apply has_in in Hh as (w' & Hin & Hk).
      pose proof Hin as Ho. apply group_in in Ho as [[]|(sp' & p' & Hs' & Hp' & Ha' & ->)].
      assert (p = p' /\ sp_name sp = sp_name sp') as (-> & Hn).
      { apply (same_key_single (wrapper_of sp p) p (sp_name sp) p' (sp_name sp') eq_refl
                                 (wrapper_of sp' p') eq_refl Hk). }
      rewrite (uniq sp sp' Hs Hs' Hn). exact Hin.
  Qed.

  (* the wrappers do not depend on how the providers were spread over resolution rounds *)
  Theorem wrappers_independent_of_rounds rounds1 rounds2 :
    (forall p, In p (concat rounds1) <-> In p (concat rounds2)) ->
    forall w, In w (resolve_group provs g specs rounds1) <-> In w (resolve_group provs g specs rounds2).
  Proof.
    intros H w. rewrite !group_wrappers. unfold origin.
    split; intros (sp & p & Hs & Hp & Ha & ->); exists sp, p; repeat split; auto; apply H; exact Hp.
  Qed.

  (* a listener attached later (its own round) = the same listener passed to the constructor *)
  Corollary late_listener_same_as_constructor_listener ctor late :
    forall w, In w (resolve_group provs g specs [ctor; late]) <-> In w (resolve_group provs g specs [ctor ++ late]).
  Proof. apply wrappers_independent_of_rounds. intros p. simpl. rewrite !app_nil_r. reflexivity. Qed.
End Parity.

(* what dedup_specs (CallbackSpecList._add) returns has one spec per name *)
Lemma dedup_in : forall l seen sp, In sp (dedup_specs seen l) -> In sp l /\ existsb (cbname_eqb (sp_name sp)) seen = false.
Proof.
  induction l as [|s r IH]; intros seen sp H; simpl in *; [contradiction|].
  destruct (existsb (cbname_eqb (sp_name s)) seen) eqn:E.
  - apply IH in H as (Hin & Hs). auto.
  - destruct H as [<-|H]; [auto|].
    apply IH in H as (Hin & Hs). split; auto.
    simpl in Hs. apply orb_false_iff in Hs as (_ & Hs). exact Hs.
Qed.

Lemma dedup_unique : forall l seen sp sp',
  In sp (dedup_specs seen l) -> In sp' (dedup_specs seen l) -> sp_name sp = sp_name sp' -> sp = sp'.
Proof.
  induction l as [|s r IH]; intros seen sp sp' H H' Hn; simpl in *; [contradiction|].
  destruct (existsb (cbname_eqb (sp_name s)) seen) eqn:E.
  - eapply IH; eauto.
  - destruct H as [<-|H], H' as [<-|H']; auto.
    + apply dedup_in in H' as (_ & Hs). simpl in Hs. rewrite <- Hn, cbname_eqb_refl in Hs. discriminate.
    + apply dedup_in in H as (_ & Hs). simpl in Hs. rewrite Hn, cbname_eqb_refl in Hs. discriminate.
    + eapply IH; eauto.
Qed.

(* instantiated for the specs of a declared transition / state *)
Theorem transition_wrappers_independent_of_rounds provs t g rounds1 rounds2 :
  g <> GCond ->
  (forall p, In p (concat rounds1) <-> In p (concat rounds2)) ->
  forall w, In w (resolve_group provs g (trans_specs t g) rounds1) <->
            In w (resolve_group provs g (trans_specs t g) rounds2).
Proof.
  intros Hg H. apply wrappers_independent_of_rounds; auto.
  unfold trans_specs. intros sp sp'. apply dedup_unique.
Qed.

Theorem state_wrappers_independent_of_rounds provs s sd g rounds1 rounds2 :
  g <> GCond ->
  (forall p, In p (concat rounds1) <-> In p (concat rounds2)) ->
  forall w, In w (resolve_group provs g (state_specs s sd g) rounds1) <->
            In w (resolve_group provs g (state_specs s sd g) rounds2).
Proof.
  intros Hg H. apply wrappers_independent_of_rounds; auto.
  unfold state_specs. intros sp sp'. apply dedup_unique.
Qed.

(* ---- the clone: machine, model and every listener attached so far, in one round ---- *)
From PySM Require Import Impl.History.

Lemma uniq_in : forall l seen x, In x (uniq seen l) <-> In x l /\ ~ In x seen.
Proof.
  induction l as [|y r IH]; intros seen x; simpl.
  - tauto.
  - destruct (existsb (Nat.eqb y) seen) eqn:E.
    + rewrite IH. apply existsb_exists in E as (z & Hz & Hyz). apply Nat.eqb_eq in Hyz. subst z.
      split; [tauto|]. intros ([<-|H] & Hn); [contradiction|tauto].
    + simpl. rewrite IH. simpl.
      assert (Hy : ~ In y seen).
      { intros Hin. assert (existsb (Nat.eqb y) seen = true) as C; [|congruence].
        apply existsb_exists. exists y. split; auto. apply Nat.eqb_refl. }
      split.
      * intros [<-|(H & Hn)]; [tauto|]. split; [tauto|]. intros Hs. apply Hn. auto.
      * intros ([<-|H] & Hn); [auto|].
        destruct (Nat.eq_dec y x) as [->|Hne]; [left; reflexivity|].
        right. split; auto. intros [Hyx|Hs]; [congruence|tauto].
Qed.

Theorem clone_has_the_callbacks_of_its_original md t g :
  g <> GCond ->
  forall w, In w (resolve_group (md_providers (clone_md md)) g (trans_specs t g) (md_rounds (clone_md md))) <->
            In w (resolve_group (md_providers md) g (trans_specs t g) (md_rounds md)).
Proof.
  intros Hg w. unfold clone_md. tauto.
Qed.
