(* Invariants of the concurrent-senders protocol (Impl/Conc.v), for every number of senders, every
   plan of sends and every schedule, by induction over the schedule. *)
From Coq Require Import List Arith Bool Lia FinFun.
Import ListNotations.
From PySM Require Import Impl.Conc.

Definition holds_lock (p : pc) : bool := match p with Test | Proc | Rel => true | _ => false end.

(* complete Begin/End blocks, one after the other *)
Inductive closed : list marker -> Prop :=
| closed_nil : closed []
| closed_block l e t : closed l -> closed (l ++ [Begin e t; End e t]).

Definition opened (l : list marker) (e : event) (t : nat) : Prop := exists l0, closed l0 /\ l = l0 ++ [Begin e t].

Definition of_sender (t : nat) (l : list event) : list event := filter (fun e => Nat.eqb (fst e) t) l.

Record Inv (g : granularity) (plan : nat -> nat) (w : world) : Prop := {
  (* the lock is held by exactly the thread that is inside the loop *)
  inv_holder : forall t, holds_lock (t_pc (w_threads w t)) = true <-> w_holder w = Some t;
  (* the log is a sequence of complete blocks, plus one open block iff somebody is processing *)
  inv_closed : (forall t, t_pc (w_threads w t) <> Proc) -> closed (w_log w);
  inv_open : forall t, t_pc (w_threads w t) = Proc -> exists e, opened (w_log w) e t;
  (* per sender: what was begun, then what is queued, then what is still to be sent = its plan *)
  inv_order : forall t, of_sender t (begun (w_log w) ++ w_queue w) ++ t_todo (w_threads w t) = sends t (plan t);
  inv_todo : forall t e, In e (t_todo (w_threads w t)) -> fst e = t;
  (* asyncio: the release is part of the emptiness test *)
  inv_norel : g = Await -> forall t, t_pc (w_threads w t) <> Rel /\ t_pc (w_threads w t) <> Recheck;
  (* a non-empty queue always has somebody in charge: a sender that has not tried the lock yet, the
     lock holder, or a thread that released the lock and has not looked at the queue again yet *)
  inv_charge : w_queue w <> [] ->
               (exists t, t_pc (w_threads w t) = Acq) \/ (exists t, w_holder w = Some t)
               \/ (exists t, t_pc (w_threads w t) = Recheck)
}.

Lemma upd_same f t s : upd f t s t = s.
Proof. unfold upd. rewrite Nat.eqb_refl. reflexivity. Qed.

Lemma upd_other f t s t' : t' <> t -> upd f t s t' = f t'.
Proof. intros H. unfold upd. destruct (Nat.eqb_spec t' t); [contradiction|reflexivity]. Qed.

Lemma begun_app l1 l2 : begun (l1 ++ l2) = begun l1 ++ begun l2.
Proof. unfold begun. apply flat_map_app. Qed.

Lemma of_sender_app t l1 l2 : of_sender t (l1 ++ l2) = of_sender t l1 ++ of_sender t l2.
Proof. unfold of_sender. apply filter_app. Qed.

Lemma sends_fst t n e : In e (sends t n) -> fst e = t.
Proof. unfold sends. rewrite in_map_iff. intros (k & <- & _). reflexivity. Qed.

Lemma of_sender_all t l : (forall e, In e l -> fst e = t) -> of_sender t l = l.
Proof.
  induction l as [|e r IH]; intros H; simpl; auto.
  rewrite (H e (or_introl eq_refl)), Nat.eqb_refl. f_equal. apply IH. intros x Hx. apply H. now right.
Qed.

Lemma inv_init g plan : Inv g plan (init plan).
Proof.
  constructor; simpl.
  - intros t. split; intros H; discriminate.
  - intros _. constructor.
  - intros t H. discriminate.
  - intros t. reflexivity.
  - intros t e H. eapply sends_fst; eauto.
  - intros _ t. split; discriminate.
  - intros H. contradiction.
Qed.

Lemma last_begin l0 e t : rev (l0 ++ [Begin e t]) = Begin e t :: rev l0.
Proof. rewrite rev_app_distr. reflexivity. Qed.

(* the bookkeeping parts of the invariant for a step that only changes thread t's program counter
   (and possibly its todo list) *)
Ltac other_thread t' t N :=
  destruct (Nat.eq_dec t' t) as [->|N]; [rewrite ?upd_same in *|rewrite ?upd_other in * by exact N].

Lemma inv_step g plan w t : Inv g plan w -> Inv g plan (step g w t).
Proof.
  intros I. unfold step.
  pose proof (inv_order _ _ _ I) as IO.
  pose proof (inv_todo _ _ _ I) as IT. pose proof (inv_norel _ _ _ I) as IN.
  destruct (t_pc (w_threads w t)) eqn:P.
  - (* Idle *)
    destruct (t_todo (w_threads w t)) as [|e r] eqn:T; [exact I|].
    assert (Fe : fst e = t) by (apply (IT t); rewrite T; now left).
    constructor; simpl.
    + intros t'. other_thread t' t N; simpl.
      * split; [discriminate|]. intros H. apply (inv_holder _ _ _ I) in H. rewrite P in H. discriminate.
      * apply (inv_holder _ _ _ I).
    + intros H. apply (inv_closed _ _ _ I). intros t'. specialize (H t').
      other_thread t' t N; [rewrite P; discriminate|exact H].
    + intros t' H. other_thread t' t N; [discriminate|]. apply (inv_open _ _ _ I). exact H.
    + intros t'. pose proof (IO t') as O. rewrite app_assoc, of_sender_app. simpl.
      other_thread t' t N; simpl.
      * rewrite Fe, Nat.eqb_refl. try rewrite T in O. rewrite <- app_assoc. simpl. exact O.
      * assert (Nat.eqb (fst e) t' = false) as -> by (apply Nat.eqb_neq; congruence).
        rewrite app_nil_r. exact O.
    + intros t' x H. other_thread t' t N; simpl in *; [apply (IT t); rewrite T; now right|eapply IT; eauto].
    + intros G t'. other_thread t' t N; [split; discriminate|apply (IN G)].
    + intros _. left. exists t. rewrite upd_same. reflexivity.
  - (* Acq *)
    destruct (w_holder w) as [h|] eqn:H.
    + assert (Nh : h <> t).
      { intros ->. apply (inv_holder _ _ _ I) in H. rewrite P in H. discriminate. }
      constructor; simpl.
      * intros t'. other_thread t' t N; simpl.
        -- split; [discriminate|]. intros E. inversion E. congruence.
        -- rewrite <- H. apply (inv_holder _ _ _ I).
      * intros Hn. apply (inv_closed _ _ _ I). intros t'. specialize (Hn t').
        other_thread t' t N; [rewrite P; discriminate|exact Hn].
      * intros t' Hp. other_thread t' t N; [discriminate|]. apply (inv_open _ _ _ I). exact Hp.
      * intros t'. pose proof (IO t') as O. other_thread t' t N; exact O.
      * intros t' x Hx. other_thread t' t N; eapply IT; eauto.
      * intros G t'. other_thread t' t N; [split; discriminate|apply (IN G)].
      * intros Q. right. left. exists h. reflexivity.
    + constructor; simpl.
      * intros t'. other_thread t' t N; simpl.
        -- split; auto.
        -- split; [intros E; apply (inv_holder _ _ _ I) in E; congruence|intros E; inversion E; congruence].
      * intros Hn. apply (inv_closed _ _ _ I). intros t'. specialize (Hn t').
        other_thread t' t N; [rewrite P; discriminate|exact Hn].
      * intros t' Hp. other_thread t' t N; [discriminate|]. apply (inv_open _ _ _ I). exact Hp.
      * intros t'. pose proof (IO t') as O. other_thread t' t N; exact O.
      * intros t' x Hx. other_thread t' t N; eapply IT; eauto.
      * intros G t'. other_thread t' t N; [split; discriminate|apply (IN G)].
      * intros Q. right. left. exists t. reflexivity.
  - (* Test *)
    assert (Ht : w_holder w = Some t) by (apply (inv_holder _ _ _ I); rewrite P; reflexivity).
    assert (NoProc : forall t', t_pc (w_threads w t') <> Proc).
    { intros t' E. assert (w_holder w = Some t') as X by (apply (inv_holder _ _ _ I); rewrite E; reflexivity).
      rewrite Ht in X. inversion X; subst. rewrite P in E. discriminate. }
    destruct (w_queue w) as [|e q] eqn:Q.
    + destruct g.
      * constructor; simpl.
        -- intros t'. other_thread t' t N; simpl; [split; auto|apply (inv_holder _ _ _ I)].
        -- intros _. apply (inv_closed _ _ _ I). exact NoProc.
        -- intros t' Hp. other_thread t' t N; [discriminate|]. exfalso. eapply NoProc; eauto.
        -- intros t'. pose proof (IO t') as O. try rewrite Q in O. other_thread t' t N; exact O.
        -- intros t' x Hx. other_thread t' t N; eapply IT; eauto.
        -- intros G. discriminate.
        -- intros X. contradiction.
      * constructor; simpl.
        -- intros t'. other_thread t' t N; simpl.
           ++ split; discriminate.
           ++ split; [|discriminate]. intros E. apply (inv_holder _ _ _ I) in E. rewrite Ht in E. inversion E. congruence.
        -- intros _. apply (inv_closed _ _ _ I). exact NoProc.
        -- intros t' Hp. other_thread t' t N; [discriminate|]. exfalso. eapply NoProc; eauto.
        -- intros t'. pose proof (IO t') as O. try rewrite Q in O. other_thread t' t N; exact O.
        -- intros t' x Hx. other_thread t' t N; eapply IT; eauto.
        -- intros G t'. other_thread t' t N; [split; discriminate|apply (IN G)].
        -- intros X. contradiction.
    + constructor; simpl.
      * intros t'. other_thread t' t N; simpl; [split; auto|apply (inv_holder _ _ _ I)].
      * intros Hn. exfalso. apply (Hn t). rewrite upd_same. reflexivity.
      * intros t' Hp. other_thread t' t N.
        -- exists e, (w_log w). split; auto. apply (inv_closed _ _ _ I). exact NoProc.
        -- exfalso. eapply NoProc; eauto.
      * intros t'. pose proof (IO t') as O. try rewrite Q in O.
        rewrite begun_app. simpl. rewrite <- app_assoc. simpl. other_thread t' t N; exact O.
      * intros t' x Hx. other_thread t' t N; eapply IT; eauto.
      * intros G t'. other_thread t' t N; [split; discriminate|apply (IN G)].
      * intros _. right. left. exists t. exact Ht.
  - (* Proc *)
    assert (Ht : w_holder w = Some t) by (apply (inv_holder _ _ _ I); rewrite P; reflexivity).
    destruct (inv_open _ _ _ I t P) as (e & l0 & C0 & L).
    rewrite L, last_begin.
    constructor; simpl.
    + intros t'. other_thread t' t N; simpl; [split; auto|apply (inv_holder _ _ _ I)].
    + intros _. rewrite <- app_assoc. simpl. constructor. exact C0.
    + intros t' Hp. other_thread t' t N; [discriminate|]. exfalso.
      assert (w_holder w = Some t') as X by (apply (inv_holder _ _ _ I); rewrite Hp; reflexivity).
      rewrite Ht in X. inversion X. congruence.
    + intros t'. pose proof (IO t') as O. rewrite L in O.
      rewrite (begun_app (l0 ++ [Begin e t]) [End e t]). simpl. rewrite app_nil_r.
      other_thread t' t N; exact O.
    + intros t' x Hx. other_thread t' t N; eapply IT; eauto.
    + intros G t'. other_thread t' t N; [split; discriminate|apply (IN G)].
    + intros _. right. left. exists t. exact Ht.
  - (* Rel *)
    assert (Ht : w_holder w = Some t) by (apply (inv_holder _ _ _ I); rewrite P; reflexivity).
    assert (NoProc : forall t', t_pc (w_threads w t') <> Proc).
    { intros t' E. assert (w_holder w = Some t') as X by (apply (inv_holder _ _ _ I); rewrite E; reflexivity).
      rewrite Ht in X. inversion X; subst. rewrite P in E. discriminate. }
    constructor; simpl.
    + intros t'. other_thread t' t N; simpl.
      * split; discriminate.
      * split; [|discriminate]. intros E. apply (inv_holder _ _ _ I) in E. rewrite Ht in E. inversion E. congruence.
    + intros _. apply (inv_closed _ _ _ I). exact NoProc.
    + intros t' Hp. other_thread t' t N; [discriminate|]. exfalso. eapply NoProc; eauto.
    + intros t'. pose proof (IO t') as O. other_thread t' t N; exact O.
    + intros t' x Hx. other_thread t' t N; eapply IT; eauto.
    + intros G. exfalso. destruct (IN G t) as (X & _). apply X. exact P.
    + intros _. right. right. exists t. rewrite upd_same. reflexivity.
  - (* Recheck *)
    assert (NotHolder : w_holder w <> Some t).
    { intros E. apply (inv_holder _ _ _ I) in E. rewrite P in E. discriminate. }
    constructor; simpl.
    + intros t'. other_thread t' t N; simpl.
      * split; [destruct (w_queue w); discriminate|]. intros E. contradiction.
      * apply (inv_holder _ _ _ I).
    + intros Hn. apply (inv_closed _ _ _ I). intros t'. specialize (Hn t').
      other_thread t' t N; [rewrite P; discriminate|exact Hn].
    + intros t' Hp. other_thread t' t N; [simpl in Hp; destruct (w_queue w); discriminate|].
      apply (inv_open _ _ _ I). exact Hp.
    + intros t'. pose proof (IO t') as O. other_thread t' t N; exact O.
    + intros t' x Hx. other_thread t' t N; eapply IT; eauto.
    + intros G. exfalso. destruct (IN G t) as (_ & X). apply X. exact P.
    + intros Q. destruct (w_queue w) as [|e q] eqn:E; [contradiction|].
      left. exists t. rewrite upd_same. reflexivity.
Qed.

Theorem inv_run g plan : forall sched w, Inv g plan w -> Inv g plan (run g sched w).
Proof. induction sched as [|t r IH]; intros w I; simpl; auto. apply IH, inv_step, I. Qed.

Theorem reachable_inv g plan sched : Inv g plan (run g sched (init plan)).
Proof. apply inv_run, inv_init. Qed.

(* ---------- the four statements ---------- *)

(* mutual exclusion: callback blocks of different events never overlap *)
Theorem mutual_exclusion g plan sched :
  let w := run g sched (init plan) in
  closed (w_log w) \/ exists e t, opened (w_log w) e t.
Proof.
  intros w. pose proof (reachable_inv g plan sched) as I. fold w in I.
  destruct (w_holder w) as [h|] eqn:H.
  - destruct (t_pc (w_threads w h)) eqn:P;
      try (left; apply (inv_closed _ _ _ I); intros t E;
           assert (w_holder w = Some t) as X by (apply (inv_holder _ _ _ I); rewrite E; reflexivity);
           rewrite H in X; inversion X; subst; congruence).
    right. destruct (inv_open _ _ _ I h P) as (e & O). eauto.
  - left. apply (inv_closed _ _ _ I). intros t E.
    assert (w_holder w = Some t) as X by (apply (inv_holder _ _ _ I); rewrite E; reflexivity). congruence.
Qed.

(* each sender's events are processed in the order it sent them, none twice, none invented:
   what was begun for sender t, then what is queued of t, then what t has still to send, is t's plan *)
Theorem sender_order g plan sched t :
  let w := run g sched (init plan) in
  of_sender t (begun (w_log w)) ++ of_sender t (w_queue w) ++ t_todo (w_threads w t) = sends t (plan t).
Proof.
  intros w. pose proof (inv_order _ _ _ (reachable_inv g plan sched) t) as O. fold w in O.
  rewrite of_sender_app, <- app_assoc in O. exact O.
Qed.

Lemma sends_nodup t n : NoDup (sends t n).
Proof.
  unfold sends. apply Injective_map_NoDup; [intros a b H; now inversion H|apply seq_NoDup].
Qed.

Lemma nodup_app_l {A} (l1 l2 : list A) : NoDup (l1 ++ l2) -> NoDup l1.
Proof. induction l1 as [|x r IH]; simpl; intros H; [constructor|]. inversion H; subst. constructor; [intros Hx; apply H2, in_or_app; now left|auto]. Qed.

(* exactly once: no event of a sender is begun twice *)
Theorem processed_at_most_once g plan sched t :
  NoDup (of_sender t (begun (w_log (run g sched (init plan))))).
Proof.
  pose proof (sender_order g plan sched t) as O. simpl in O.
  eapply nodup_app_l. rewrite O. apply sends_nodup.
Qed.

(* once all senders have returned no event is left unprocessed - OS threads and asyncio tasks alike *)
Theorem nothing_stranded g plan sched :
  let w := run g sched (init plan) in
  (forall t, finished w t = true) -> w_queue w = [].
Proof.
  intros w F. pose proof (reachable_inv g plan sched) as I. fold w in I.
  destruct (w_queue w) as [|e q] eqn:Q; auto. exfalso.
  assert (Idl : forall t, t_pc (w_threads w t) = Idle).
  { intros t. specialize (F t). unfold finished in F. destruct (t_pc (w_threads w t)); auto; discriminate. }
  destruct (inv_charge _ _ _ I) as [(t & A)|[(t & H)|(t & A)]].
  - rewrite Q. discriminate.
  - rewrite Idl in A. discriminate.
  - apply (inv_holder _ _ _ I) in H. rewrite Idl in H. discriminate.
  - rewrite Idl in A. discriminate.
Qed.

(* ... and then every sent event has been begun (processed), in each sender's order *)
Theorem all_processed g plan sched t :
  let w := run g sched (init plan) in
  (forall t, finished w t = true) -> of_sender t (begun (w_log w)) = sends t (plan t).
Proof.
  intros w F. pose proof (sender_order g plan sched t) as O. cbv zeta in O. fold w in O.
  pose proof (nothing_stranded g plan sched F) as Q. fold w in Q. try rewrite Q in O. simpl in O.
  specialize (F t). unfold finished in F.
  destruct (t_pc (w_threads w t)); try discriminate. destruct (t_todo (w_threads w t)); try discriminate.
  rewrite app_nil_r in O. exact O.
Qed.

(* the schedule that stranded event (1,0) before the repair of D12 (sender 0 sees the queue empty and is
   preempted before releasing; sender 1 enqueues and loses the try-lock; sender 0 releases): with the
   re-check after the release sender 0 starts over and processes it *)
Definition race_schedule : list nat := [0; 0; 0; 0; 0; 1; 1; 0; 0; 0; 0; 0; 0; 0; 0].

Theorem race_schedule_no_longer_strands :
  let w := run Line race_schedule (init (fun _ => 1)) in
  finished w 0 = true /\ finished w 1 = true /\ w_queue w = [] /\ begun (w_log w) = [(0, 0); (1, 0)].
Proof. vm_compute. repeat split. Qed.
