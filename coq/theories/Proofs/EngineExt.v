(* The engine reads a machine only through: the transitions leaving one state, in their order
   ([outs]); the states' enter / exit executors; the start state; the three options.  Two resolved
   machines that agree on these behave identically - every entry point, every behaviour, trigger,
   configuration and amount of fuel - however differently their global transition lists are
   ordered.  (Used by C15: renderings that create the same transitions in another global order but
   the same order per source state are the same machine.) *)
From Coq Require Import List Arith Bool Lia.
Import ListNotations.
From PySM Require Import Impl.Engine.

Section TwoMachines.
  Variable beh : behaviour.
  Variables rm1 rm2 : rmachine.
  Hypothesis Hstates : rm_states rm1 = rm_states rm2.
  Hypothesis Hstart : rm_start rm1 = rm_start rm2.
  Hypothesis Hrtc : rm_rtc rm1 = rm_rtc rm2.
  Hypothesis Hallow : rm_allow rm1 = rm_allow rm2.
  Hypothesis Hasync : rm_async rm1 = rm_async rm2.
  Hypothesis Houts : forall s, outs rm1 s = outs rm2 s.

  Variables n1 n2 : tdata -> cfg -> res pyres.
  Hypothesis agree : forall td c, n1 td c = n2 td c.

  Lemma x_run_acts : forall l c, run_acts n1 l c = run_acts n2 l c.
  Proof.
    induction l as [|a l IH]; intros c; simpl; auto.
    destruct a as [e tag|x|s]; auto.
    rewrite agree. destruct (n2 _ c) as [c' v|c' x|]; auto.
  Qed.

  Lemma x_run_cb g x cb c : run_cb beh n1 g x cb c = run_cb beh n2 g x cb c.
  Proof. unfold run_cb. rewrite x_run_acts. reflexivity. Qed.

  Lemma x_run_chain g x : forall cbs c, run_chain beh n1 g x cbs c = run_chain beh n2 g x cbs c.
  Proof.
    induction cbs as [|cb r IH]; intros c; simpl; auto.
    destruct r as [|cb2 r2]; [apply x_run_cb|].
    rewrite x_run_cb.
    destruct (run_cb beh n2 g x cb c) as [c1 v|c1 e|]; simpl; auto.
    destruct (truthy v); auto. apply IH.
  Qed.

  Lemma x_run_wrapper g x w c : run_wrapper beh n1 g x w c = run_wrapper beh n2 g x w c.
  Proof. unfold run_wrapper. rewrite x_run_chain. reflexivity. Qed.

  Lemma x_call_list g x : forall ws c, call_list beh n1 g x ws c = call_list beh n2 g x ws c.
  Proof.
    induction ws as [|w r IH]; intros c; simpl; auto.
    rewrite x_run_wrapper.
    destruct (run_wrapper beh n2 g x w c) as [c1 v|c1 e|]; simpl; auto.
    rewrite IH. reflexivity.
  Qed.

  Lemma x_order_shows c cbs : order_shows beh rm1 c cbs = order_shows beh rm2 c cbs.
  Proof. unfold order_shows. rewrite Hrtc. reflexivity. Qed.

  Lemma x_call_group g x ws c : call_group beh n1 rm1 g x ws c = call_group beh n2 rm2 g x ws c.
  Proof. unfold call_group. rewrite x_order_shows. destruct (order_shows beh rm2 c _); apply x_call_list. Qed.

  Lemma x_all_list g x : forall ws c, all_list beh n1 g x ws c = all_list beh n2 g x ws c.
  Proof.
    induction ws as [|w r IH]; intros c; simpl; auto.
    rewrite x_run_wrapper.
    destruct (run_wrapper beh n2 g x w c) as [c1 v|c1 e|]; simpl; auto.
    destruct (truthy v); auto.
  Qed.

  Lemma x_all_list_async g x : forall ws c, all_list_async beh n1 g x ws c = all_list_async beh n2 g x ws c.
  Proof.
    induction ws as [|w r IH]; intros c; simpl; auto.
    rewrite x_run_wrapper.
    destruct (run_wrapper beh n2 g x w c) as [c1 v|c1 e|]; simpl; auto.
    rewrite IH. reflexivity.
  Qed.

  Lemma x_all_group g x ws c : all_group beh n1 rm1 g x ws c = all_group beh n2 rm2 g x ws c.
  Proof.
    unfold all_group. rewrite x_order_shows, Hasync.
    destruct (order_shows beh rm2 c _); destruct (rm_async rm2);
      first [rewrite x_all_list | rewrite x_all_list_async]; reflexivity.
  Qed.

  Lemma x_activate_pre t x c : activate_pre beh n1 rm1 t x c = activate_pre beh n2 rm2 t x c.
  Proof.
    unfold activate_pre.
    rewrite x_call_group.
    destruct (call_group beh n2 rm2 GValidators x (a_validators t) c) as [c1 v|c1 e|]; simpl; auto.
    rewrite x_all_group.
    destruct (all_group beh n2 rm2 GCond x (a_cond t) c1) as [c2 ok|c2 e|]; simpl; auto.
    destruct (negb ok); auto.
    rewrite x_call_group.
    destruct (call_group beh n2 rm2 GBefore x (a_before t) c2) as [c3 rb|c3 e|]; simpl; auto.
    destruct (a_internal t); simpl.
    - rewrite x_call_group. reflexivity.
    - rewrite x_call_group.
      destruct (call_group beh n2 rm2 GExit x (a_exit t) c3) as [c4 ex|c4 e|]; simpl; auto.
      rewrite x_call_group. reflexivity.
  Qed.

  Lemma x_activate_post t x c : activate_post beh n1 rm1 t x c = activate_post beh n2 rm2 t x c.
  Proof.
    unfold activate_post.
    destruct (a_internal t); simpl.
    - rewrite x_call_group. reflexivity.
    - rewrite x_call_group.
      destruct (call_group beh n2 rm2 GEnter _ (a_enter t) _) as [c1 v|c1 e|]; simpl; auto.
      rewrite x_call_group. reflexivity.
  Qed.

  Lemma x_activate t td c : activate beh n1 rm1 t td c = activate beh n2 rm2 t td c.
  Proof.
    unfold activate.
    rewrite x_activate_pre.
    destruct (activate_pre beh n2 rm2 t _ _) as [c1 r|c1 e|]; simpl; auto.
    destruct r as [v|]; auto.
    rewrite x_activate_post. reflexivity.
  Qed.

  Lemma x_atrans_of t : atrans_of rm1 t = atrans_of rm2 t.
  Proof. unfold atrans_of, state_exit, state_enter. rewrite Hstates. reflexivity. Qed.

  Lemma x_initial_atrans : initial_atrans rm1 = initial_atrans rm2.
  Proof. unfold initial_atrans, state_enter. rewrite Hstates, Hstart. reflexivity. Qed.

  Lemma x_try_candidates e s td : forall cands c,
    try_candidates beh n1 rm1 cands e s td c = try_candidates beh n2 rm2 cands e s td c.
  Proof.
    induction cands as [|t r IH]; intros c; simpl.
    - rewrite Hallow. reflexivity.
    - destruct (matches t e); [|apply IH].
      rewrite x_activate, x_atrans_of.
      destruct (activate beh n2 rm2 (atrans_of rm2 t) td c) as [c1 er|c1 x|]; simpl; auto.
      destruct (fst er); auto.
  Qed.

  Lemma x_trigger td c : trigger beh n1 rm1 td c = trigger beh n2 rm2 td c.
  Proof.
    unfold trigger.
    destruct (td_ev td) as [e|].
    - simpl. destruct (field c) as [s|]; auto. rewrite x_try_candidates, Houts. reflexivity.
    - rewrite x_activate, x_initial_atrans. reflexivity.
  Qed.

  Lemma x_drain : forall fuel c first, drain beh n1 rm1 fuel c first = drain beh n2 rm2 fuel c first.
  Proof.
    induction fuel as [|f IH]; intros c first; simpl; auto.
    destruct (queue c) as [|td q]; auto.
    rewrite x_trigger.
    destruct (trigger beh n2 rm2 td (set_queue c q)) as [c1 r|c1 x|]; auto.
  Qed.
End TwoMachines.

Section Sends.
  Variable beh : behaviour.
  Variables rm1 rm2 : rmachine.
  Hypothesis Hstates : rm_states rm1 = rm_states rm2.
  Hypothesis Hstart : rm_start rm1 = rm_start rm2.
  Hypothesis Hrtc : rm_rtc rm1 = rm_rtc rm2.
  Hypothesis Hallow : rm_allow rm1 = rm_allow rm2.
  Hypothesis Hasync : rm_async rm1 = rm_async rm2.
  Hypothesis Houts : forall s, outs rm1 s = outs rm2 s.

  Lemma x_send_rtc : forall fuel td c, send_rtc beh rm1 fuel td c = send_rtc beh rm2 fuel td c.
  Proof.
    induction fuel as [|f IH]; intros td c; cbn [send_rtc]; auto.
    destruct (locked (enqueue td c)); auto.
    apply x_drain; auto.
  Qed.

  Lemma x_send_nonrtc : forall fuel td c, send_nonrtc beh rm1 fuel td c = send_nonrtc beh rm2 fuel td c.
  Proof.
    induction fuel as [|f IH]; intros td c; cbn [send_nonrtc]; auto.
    destruct (queue (enqueue td c)) as [|td0 q]; auto.
    rewrite (x_trigger beh rm1 rm2 Hstates Hstart Hrtc Hallow Hasync Houts _ _ IH). reflexivity.
  Qed.

  Theorem x_send fuel td c : send beh rm1 fuel td c = send beh rm2 fuel td c.
  Proof. unfold send. rewrite Hrtc, Hasync, x_send_rtc, x_send_nonrtc. reflexivity. Qed.

  Theorem x_run_loop fuel c : run_loop beh rm1 fuel c = run_loop beh rm2 fuel c.
  Proof.
    unfold run_loop. rewrite Hrtc, Hasync.
    destruct (rm_rtc rm2 || rm_async rm2).
    - destruct (locked c); auto. apply x_drain; auto. apply x_send_rtc.
    - destruct (queue c) as [|td0 q]; auto.
      rewrite (x_trigger beh rm1 rm2 Hstates Hstart Hrtc Hallow Hasync Houts _ _ (x_send_nonrtc fuel)).
      reflexivity.
  Qed.

  Theorem x_construct fuel c : construct beh rm1 fuel c = construct beh rm2 fuel c.
  Proof. unfold construct. rewrite Hasync, Hrtc, x_run_loop. reflexivity. Qed.
End Sends.
