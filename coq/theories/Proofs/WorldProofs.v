(* A consistent cache is transparent: if the key separates callables with different adapters, binding
   through the process-wide cache gives every callable its own signature, whatever was bound before. *)
From Coq Require Import List Arith Bool Lia.
Import ListNotations.
From PySM Require Import Impl.World.

(* the key is injective on the callables of the process, up to their adapter *)
Definition key_separates (universe : list callable) : Prop :=
  forall f g, In f universe -> In g universe -> c_key f = c_key g -> own f = own g.

Definition consistent (universe : list callable) (c : cache) : Prop :=
  forall k a, cache_get k c = Some a -> exists g, In g universe /\ c_key g = k /\ own g = a.

Lemma from_callable_consistent universe f c :
  In f universe -> consistent universe c -> consistent universe (snd (from_callable f c)).
Proof.
  intros Hf Hc. unfold from_callable. destruct (cache_get (c_key f) c) as [a|] eqn:E; simpl; auto.
  intros k a H. simpl in H. destruct (Nat.eqb k (c_key f)) eqn:K.
  - apply Nat.eqb_eq in K. inversion H; subst. exists f. auto.
  - apply Hc. exact H.
Qed.

Lemma bind_all_consistent universe : forall fs c,
  (forall g, In g fs -> In g universe) -> consistent universe c -> consistent universe (bind_all fs c).
Proof.
  induction fs as [|g r IH]; intros c H Hc; simpl; auto.
  apply IH; [intros x Hx; apply H; now right|].
  apply from_callable_consistent; auto. apply H. now left.
Qed.

Theorem cache_is_transparent universe others f :
  key_separates universe -> In f universe -> (forall g, In g others -> In g universe) ->
  bind_after others f = own f.
Proof.
  intros K Hf Ho. unfold bind_after, from_callable.
  assert (C : consistent universe (bind_all others [])).
  { apply bind_all_consistent; auto. intros k a H. discriminate. }
  destruct (cache_get (c_key f) (bind_all others [])) as [a|] eqn:E; simpl; auto.
  destruct (C _ _ E) as (g & Hg & Hk & Ha). rewrite <- Ha. symmetry. apply K; auto.
Qed.

(* without separation the statement fails: two callables with the same key and different
   signatures - the second is bound with the first one's adapter (deviation D7) *)
Definition f_sync : callable :=
  {| c_key := 7; c_sig := [ {| p_name := 1; p_kind := PosOrKw; p_default := false |} ]; c_coro := false |}.
Definition f_async : callable :=
  {| c_key := 7; c_sig := [ {| p_name := 1; p_kind := KwOnly; p_default := true |} ]; c_coro := true |}.

Lemma cache_collision_refuted : bind_after [f_sync] f_async <> own f_async.
Proof. vm_compute. discriminate. Qed.
