(* C14, frame over the behaviour: the values returned by validators, exit, enter and after callbacks
   never matter.  If two behaviours perform the same actions everywhere and return the same values
   from every callback that occurs in a `before`, `on` or guard list, then every send gives the same
   result and the same configuration (state, queue, log, call counters) under both. *)
From Coq Require Import List Arith Bool Lia.
Import ListNotations.
From PySM Require Import Impl.Engine Proofs.EngineFrame.

Lemma filter_acts_len (h : list action -> bool) : forall l1 l2 : list script,
  map acts l1 = map acts l2 ->
  length (filter (fun s => h (acts s)) l1) = length (filter (fun s => h (acts s)) l2).
Proof.
  induction l1 as [|s r IH]; intros [|s2 r2] A; simpl in *; try discriminate; auto.
  inversion A as [[A1 A2]]. rewrite A1. destruct (h (acts s2)); simpl; auto.
Qed.

Lemma exists_acts (h : list action -> bool) : forall l1 l2 : list script,
  map acts l1 = map acts l2 ->
  existsb (fun s => h (acts s)) l1 = existsb (fun s => h (acts s)) l2.
Proof.
  induction l1 as [|s r IH]; intros [|s2 r2] A; simpl in *; try discriminate; auto.
  inversion A as [[A1 A2]]. rewrite A1, (IH _ A2). reflexivity.
Qed.

Section TwoBehaviours.
  Variables b1 b2 : behaviour.
  Variable Sx : cbref -> bool.            (* the callbacks whose return value may differ *)
  Hypothesis same_acts : forall cb n, acts (b1 cb n) = acts (b2 cb n).
  Hypothesis same_ret : forall cb n, Sx cb = false -> ret (b1 cb n) = ret (b2 cb n).

  Variable rm : rmachine.
  Variables n1 n2 : tdata -> cfg -> res pyres.
  Hypothesis same_nested : forall td c, n1 td c = n2 td c.

  Lemma scripts_same_acts c cbs :
    map acts (map (fun cb => b1 cb (count_calls cb (calls c))) cbs)
    = map acts (map (fun cb => b2 cb (count_calls cb (calls c))) cbs).
  Proof. rewrite !map_map. apply map_ext. intros. apply same_acts. Qed.

  Definition avoid (ws : list wrapper) : Prop := forall w cb, In w ws -> In cb (w_cbs w) -> Sx cb = false.

  (* same configuration; same value when [strict] *)
  Definition rel {A} (strict : bool) (r1 r2 : res A) : Prop :=
    match r1, r2 with
    | Ok c1 v1, Ok c2 v2 => c1 = c2 /\ (strict = true -> v1 = v2)
    | Exn c1 x1, Exn c2 x2 => c1 = c2 /\ x1 = x2
    | Fuel, Fuel => True
    | _, _ => False
    end.

  Lemma rel_refl {A} strict (r : res A) : rel strict r r.
  Proof. destruct r; simpl; auto. Qed.

  Lemma run_acts_same l c : run_acts n1 l c = run_acts n2 l c.
  Proof.
    revert c. induction l as [|a r IH]; intros c; simpl; auto.
    destruct a; auto. rewrite same_nested. destruct (n2 _ c); auto.
  Qed.

  Lemma run_cb_rel g x cb c : rel (negb (Sx cb)) (run_cb b1 n1 g x cb c) (run_cb b2 n2 g x cb c).
  Proof.
    unfold run_cb. rewrite same_acts, run_acts_same.
    destruct (run_acts n2 _ _) as [c1 u|c1 e|]; simpl; auto.
    split; auto. intros H. apply same_ret. destruct (Sx cb); [discriminate|reflexivity].
  Qed.

  Lemma run_chain_rel g x : forall cbs c,
    (forall cb, In cb cbs -> Sx cb = false) ->
    run_chain b1 n1 g x cbs c = run_chain b2 n2 g x cbs c.
  Proof.
    induction cbs as [|cb r IH]; intros c H; simpl; auto.
    assert (Hcb : Sx cb = false) by (apply H; now left).
    pose proof (run_cb_rel g x cb c) as R. rewrite Hcb in R. simpl in R.
    destruct r as [|cb2 r2].
    - destruct (run_cb b1 n1 g x cb c), (run_cb b2 n2 g x cb c); simpl in R; try contradiction; auto.
      + destruct R as (-> & E). rewrite E; auto.
      + destruct R as (-> & ->). reflexivity.
    - destruct (run_cb b1 n1 g x cb c), (run_cb b2 n2 g x cb c); simpl in R; try contradiction; auto.
      + destruct R as (-> & E). rewrite E by reflexivity. simpl.
        destruct (truthy a0); auto. apply IH. intros cb' Hc. apply H. now right.
      + destruct R as (-> & ->). reflexivity.
  Qed.

  (* a wrapper over callbacks outside Sx: identical; any single-callback wrapper: same configuration *)
  Lemma run_wrapper_same g x w c :
    (forall cb, In cb (w_cbs w) -> Sx cb = false) ->
    run_wrapper b1 n1 g x w c = run_wrapper b2 n2 g x w c.
  Proof. intros H. unfold run_wrapper. rewrite run_chain_rel by exact H. reflexivity. Qed.

  Lemma run_wrapper_rel g x w c :
    (exists cb, w_cbs w = [cb]) -> w_expected w = None ->
    rel false (run_wrapper b1 n1 g x w c) (run_wrapper b2 n2 g x w c).
  Proof.
    intros (cb & E) X. unfold run_wrapper. rewrite E, X. simpl.
    pose proof (run_cb_rel g x cb c) as R.
    destruct (run_cb b1 n1 g x cb c), (run_cb b2 n2 g x cb c); simpl in *; try contradiction; auto.
    destruct R as (-> & _). split; auto. discriminate.
  Qed.

  Definition plain (ws : list wrapper) : Prop :=
    forall w, In w ws -> (exists cb, w_cbs w = [cb]) /\ w_expected w = None.

  Lemma call_list_same g x : forall ws c, avoid ws ->
    call_list b1 n1 g x ws c = call_list b2 n2 g x ws c.
  Proof.
    induction ws as [|w r IH]; intros c H; simpl; auto.
    rewrite run_wrapper_same by (intros cb Hc; apply (H w cb); [left; reflexivity|exact Hc]).
    destruct (run_wrapper b2 n2 g x w c) as [c1 v|c1 e|]; simpl; auto.
    rewrite IH; auto. intros w' cb Hw Hc. apply (H w' cb); [right; exact Hw|exact Hc].
  Qed.

  Lemma call_list_rel g x : forall ws c, plain ws ->
    rel false (call_list b1 n1 g x ws c) (call_list b2 n2 g x ws c).
  Proof.
    induction ws as [|w r IH]; intros c H; simpl; [split; auto; discriminate|].
    destruct (H w (or_introl eq_refl)) as (Hs & Hx).
    pose proof (run_wrapper_rel g x w c Hs Hx) as R.
    destruct (run_wrapper b1 n1 g x w c), (run_wrapper b2 n2 g x w c); simpl in *; try contradiction; auto.
    destruct R as (-> & _).
    assert (Hr : plain r) by (intros w' Hw'; apply H; now right).
    specialize (IH c1 Hr).
    destruct (call_list b1 n1 g x r c1), (call_list b2 n2 g x r c1); simpl in *; try contradiction; auto.
    destruct IH as (-> & _). split; auto. discriminate.
  Qed.

  Lemma order_shows_same c cbs : order_shows b1 rm c cbs = order_shows b2 rm c cbs.
  Proof.
    unfold order_shows, cur_script.
    rewrite (filter_acts_len (existsb is_send) _ _ (scripts_same_acts c cbs)).
    rewrite (exists_acts (existsb is_raise) _ _ (scripts_same_acts c cbs)).
    rewrite (exists_acts (existsb is_write) _ _ (scripts_same_acts c cbs)).
    rewrite (exists_acts (fun a => match a with [] => false | _ => true end) _ _ (scripts_same_acts c cbs)).
    reflexivity.
  Qed.

  Lemma call_group_same g x ws c : avoid ws ->
    call_group b1 n1 rm g x ws c = call_group b2 n2 rm g x ws c.
  Proof.
    intros H. unfold call_group. rewrite order_shows_same.
    assert (H' : avoid (filter (admitted x) ws)) by (intros w cb Hw Hc; apply filter_In in Hw; eapply H; [apply Hw|exact Hc]).
    destruct (order_shows b2 rm c _); apply call_list_same; exact H'.
  Qed.

  Lemma call_group_rel g x ws c : plain ws ->
    rel false (call_group b1 n1 rm g x ws c) (call_group b2 n2 rm g x ws c).
  Proof.
    intros H. unfold call_group. rewrite order_shows_same.
    assert (H' : plain (filter (admitted x) ws)) by (intros w Hw; apply filter_In in Hw; apply H; apply Hw).
    destruct (order_shows b2 rm c _); apply call_list_rel; exact H'.
  Qed.

  Lemma all_list_same g x : forall ws c, avoid ws -> all_list b1 n1 g x ws c = all_list b2 n2 g x ws c.
  Proof.
    induction ws as [|w r IH]; intros c H; simpl; auto.
    rewrite run_wrapper_same by (intros cb Hc; apply (H w cb); [left; reflexivity|exact Hc]).
    destruct (run_wrapper b2 n2 g x w c) as [c1 v|c1 e|]; simpl; auto.
    destruct (truthy v); auto. apply IH. intros w' cb Hw Hc. apply (H w' cb); [right; exact Hw|exact Hc].
  Qed.

  Lemma all_list_async_same g x : forall ws c, avoid ws ->
    all_list_async b1 n1 g x ws c = all_list_async b2 n2 g x ws c.
  Proof.
    induction ws as [|w r IH]; intros c H; simpl; auto.
    rewrite run_wrapper_same by (intros cb Hc; apply (H w cb); [left; reflexivity|exact Hc]).
    destruct (run_wrapper b2 n2 g x w c) as [c1 v|c1 e|]; simpl; auto.
    rewrite IH; auto. intros w' cb Hw Hc. apply (H w' cb); [right; exact Hw|exact Hc].
  Qed.

  Lemma all_group_same g x ws c : avoid ws -> all_group b1 n1 rm g x ws c = all_group b2 n2 rm g x ws c.
  Proof.
    intros H. unfold all_group. rewrite order_shows_same.
    destruct (order_shows b2 rm c _); destruct (rm_async rm);
      first [rewrite all_list_same by exact H | rewrite all_list_async_same by exact H]; reflexivity.
  Qed.

  (* the transition: guards, before and on lists avoid Sx; validators, exit, enter, after are plain
     action lists whose values are thrown away *)
  Record fine (t : atrans) : Prop := {
    f_val : plain (a_validators t); f_cond : avoid (a_cond t); f_before : avoid (a_before t);
    f_exit : plain (a_exit t); f_on : avoid (a_on t); f_enter : plain (a_enter t); f_after : plain (a_after t) }.

  (* a group whose values are thrown away: only the configuration matters *)
  Lemma discard_rel {A B} (r1 r2 : res A) (k1 k2 : cfg -> res B) :
    rel false r1 r2 -> (forall c, k1 c = k2 c) -> bind r1 (fun c _ => k1 c) = bind r2 (fun c _ => k2 c).
  Proof.
    destruct r1 as [c1 v1|c1 e1|], r2 as [c2 v2|c2 e2|]; simpl; intros H K; try contradiction; auto.
    - destruct H as (-> & _). apply K.
    - destruct H as (-> & ->). reflexivity.
  Qed.

  Lemma bind_ext {A B} (r1 r2 : res A) (k1 k2 : cfg -> A -> res B) :
    r1 = r2 -> (forall c v, k1 c v = k2 c v) -> bind r1 k1 = bind r2 k2.
  Proof. intros -> K. destruct r2; simpl; auto. Qed.

  Lemma activate_pre_same t x c : fine t -> activate_pre b1 n1 rm t x c = activate_pre b2 n2 rm t x c.
  Proof.
    intros F. unfold activate_pre.
    apply discard_rel; [apply call_group_rel, (f_val t F)|]. intros c1.
    apply bind_ext; [apply all_group_same, (f_cond t F)|]. intros c2 ok.
    destruct (negb ok); auto.
    apply bind_ext; [apply call_group_same, (f_before t F)|]. intros c3 rb.
    apply discard_rel.
    { destruct (a_internal t); [apply rel_refl|apply call_group_rel, (f_exit t F)]. }
    intros c4.
    apply bind_ext; [apply call_group_same, (f_on t F)|]. intros c5 ro. reflexivity.
  Qed.

  Lemma activate_post_same t x c : fine t -> activate_post b1 n1 rm t x c = activate_post b2 n2 rm t x c.
  Proof.
    intros F. unfold activate_post.
    apply discard_rel.
    { destruct (a_internal t); [apply rel_refl|apply call_group_rel, (f_enter t F)]. }
    intros c1.
    apply discard_rel; [apply call_group_rel, (f_after t F)|]. intros c2. reflexivity.
  Qed.

  Lemma activate_same t td c : fine t -> activate b1 n1 rm t td c = activate b2 n2 rm t td c.
  Proof.
    intros F. unfold activate.
    apply bind_ext; [apply activate_pre_same, F|]. intros c1 r.
    destruct r as [v|]; auto.
    apply discard_rel; [rewrite activate_post_same by exact F; apply rel_refl|]. intros c2. reflexivity.
  Qed.

  (* every transition and the initial pseudo-transition of the machine are fine *)
  Definition fine_machine : Prop :=
    (forall t, In t (rm_trans rm) -> fine (atrans_of rm t)) /\ fine (initial_atrans rm).

  Lemma try_candidates_same e s td : fine_machine -> forall cands c,
    (forall t, In t cands -> In t (rm_trans rm)) ->
    try_candidates b1 n1 rm cands e s td c = try_candidates b2 n2 rm cands e s td c.
  Proof.
    intros FM. induction cands as [|t r IH]; intros c H; simpl; auto.
    destruct (matches t e); [|apply IH; intros t' Ht'; apply H; now right].
    apply bind_ext; [apply activate_same, (proj1 FM), H; now left|]. intros c1 er.
    destruct (fst er); auto. apply IH. intros t' Ht'. apply H. now right.
  Qed.

  Lemma trigger_same td c : fine_machine -> trigger b1 n1 rm td c = trigger b2 n2 rm td c.
  Proof.
    intros FM. unfold trigger. destruct (td_ev td) as [e|].
    - simpl. destruct (field c) as [s|]; auto.
      rewrite try_candidates_same; auto. intros t Ht. unfold outs in Ht. apply filter_In in Ht. tauto.
    - rewrite activate_same by apply (proj2 FM). reflexivity.
  Qed.

  Lemma drain_same : fine_machine -> forall fuel c first,
    drain b1 n1 rm fuel c first = drain b2 n2 rm fuel c first.
  Proof.
    intros FM. induction fuel as [|f IH]; intros c first; simpl; auto.
    destruct (queue c) as [|td q]; auto.
    rewrite trigger_same by exact FM.
    destruct (trigger b2 n2 rm td (set_queue c q)); auto.
  Qed.
End TwoBehaviours.

(* the theorem: under run-to-completion every send gives the same result and configuration *)
Theorem results_ignore_other_groups b1 b2 Sx rm :
  (forall cb n, acts (b1 cb n) = acts (b2 cb n)) ->
  (forall cb n, Sx cb = false -> ret (b1 cb n) = ret (b2 cb n)) ->
  fine_machine Sx rm ->
  forall fuel td c, send_rtc b1 rm fuel td c = send_rtc b2 rm fuel td c.
Proof.
  intros A R FM. induction fuel as [|f IH]; intros td c; simpl; auto.
  destruct (locked c); auto.
  apply (drain_same b1 b2 Sx A R rm (send_rtc b1 rm f) (send_rtc b2 rm f) IH FM).
Qed.
