(* Frame lemmas for the engine model: any relation between configurations that is reflexive,
   transitive, closed under the bookkeeping updates (call counters, log, activation counter, depth,
   ambiguity flags) and respected by whatever a nested send does, is respected by every layer of the
   callback machinery (run_acts .. call_group / all_group), whether it returns or raises.
   Instances: the lock is never touched; field and lock unchanged and the queue only grows (RTC);
   the log only grows. *)
From Coq Require Import List Arith Bool Lia.
Import ListNotations.
From PySM Require Import Impl.Engine.

Definition Rres {A} (R : cfg -> cfg -> Prop) (c : cfg) (r : res A) : Prop :=
  match r with Ok c' _ => R c c' | Exn c' _ => R c c' | Fuel => True end.

Section Frame.
  Variable beh : behaviour.
  Variable nested : tdata -> cfg -> res pyres.
  Variable rm : rmachine.
  Variable R : cfg -> cfg -> Prop.
  Hypothesis R_refl : forall c, R c c.
  Hypothesis R_trans : forall a b c, R a b -> R b c -> R a c.
  Hypothesis R_calls : forall c k, R c (set_calls c k).
  Hypothesis R_log : forall c e, R c (add_log c e).
  Hypothesis R_nact : forall c n, R c (set_nact c n).
  Hypothesis R_depth : forall c n, R c (set_depth c n).
  Hypothesis R_amb : forall c b, R c (set_amb c b).
  Hypothesis R_ambc : forall c b, R c (set_ambc c b).
  Hypothesis R_nested : forall td c, Rres R c (nested td c).
  (* a callback may assign the state itself (AWrite): either the relation ignores the stored state, or the
     behaviour has no such callback *)
  Hypothesis R_write : (forall c f, R c (set_field c f)) \/ no_writes beh.

  Lemma Rres_bind {A B} (c : cfg) (r : res A) (k : cfg -> A -> res B) :
    Rres R c r -> (forall c' a, r = Ok c' a -> Rres R c' (k c' a)) -> Rres R c (bind r k).
  Proof.
    intros Hr Hk. destruct r as [c' a|c' x|]; simpl in *; auto.
    specialize (Hk c' a eq_refl). destruct (k c' a); simpl in *; eauto.
  Qed.

  Lemma Rres_pre {A} (c c0 : cfg) (r : res A) : R c c0 -> Rres R c0 r -> Rres R c r.
  Proof. intros H Hr. destruct r; simpl in *; eauto. Qed.

  Lemma run_acts_R : forall l c,
    ((forall c f, R c (set_field c f)) \/ existsb is_write l = false) -> Rres R c (run_acts nested l c).
  Proof.
    induction l as [|a l IH]; intros c W; simpl; auto.
    destruct a as [e tag|x|s]; simpl; auto.
    - assert (W' : (forall c f, R c (set_field c f)) \/ existsb is_write l = false)
        by (destruct W as [W|W]; [left; exact W|right; exact W]).
      pose proof (R_nested {| td_ev := Some e; td_tag := tag |} c) as Hn.
      destruct (nested _ c) as [c' v|c' x|]; simpl in *; auto.
      + eapply Rres_pre; [|apply IH; exact W']. eauto.
      + eauto.
    - destruct W as [W|W]; [|simpl in W; discriminate].
      eapply Rres_pre; [apply W|]. apply IH. left; exact W.
  Qed.

  Lemma run_cb_R : forall g x cb c, Rres R c (run_cb beh nested g x cb c).
  Proof.
    intros g x cb c. unfold run_cb.
    apply Rres_bind.
    - eapply Rres_pre; [|apply run_acts_R; destruct R_write as [W|W]; [left; exact W|right; apply W]]. eauto.
    - intros c' a _. simpl. auto.
  Qed.

  Lemma run_chain_R : forall g x cbs c, Rres R c (run_chain beh nested g x cbs c).
  Proof.
    induction cbs as [|cb r IH]; intros c; simpl; auto.
    destruct r as [|cb2 r2].
    - apply run_cb_R.
    - apply Rres_bind; [apply run_cb_R|].
      intros c' v _. destruct (truthy v); [apply IH|simpl; auto].
  Qed.

  Lemma run_wrapper_R : forall g x w c, Rres R c (run_wrapper beh nested g x w c).
  Proof.
    intros. unfold run_wrapper. apply Rres_bind; [apply run_chain_R|].
    intros c' v _. destruct (w_expected w); simpl; auto.
  Qed.

  Lemma call_list_R : forall g x ws c, Rres R c (call_list beh nested g x ws c).
  Proof.
    induction ws as [|w r IH]; intros c; simpl; auto.
    apply Rres_bind; [apply run_wrapper_R|]. intros c1 v _.
    apply Rres_bind; [apply IH|]. intros c2 vs _. simpl. auto.
  Qed.

  Lemma call_group_R : forall g x ws c, Rres R c (call_group beh nested rm g x ws c).
  Proof.
    intros. unfold call_group.
    destruct (order_shows beh rm c _); [eapply Rres_pre; [apply R_amb|]|]; apply call_list_R.
  Qed.

  Lemma all_list_R : forall g x ws c, Rres R c (all_list beh nested g x ws c).
  Proof.
    induction ws as [|w r IH]; intros c; simpl; auto.
    apply Rres_bind; [apply run_wrapper_R|]. intros c1 v _.
    destruct (truthy v); [apply IH|simpl; auto].
  Qed.

  Lemma all_list_async_R : forall g x ws c, Rres R c (all_list_async beh nested g x ws c).
  Proof.
    induction ws as [|w r IH]; intros c; simpl; auto.
    apply Rres_bind; [apply run_wrapper_R|]. intros c1 v _.
    apply Rres_bind; [apply IH|]. intros c2 b _. simpl. auto.
  Qed.

  Lemma all_group_R : forall g x ws c, Rres R c (all_group beh nested rm g x ws c).
  Proof.
    intros. unfold all_group.
    apply Rres_bind.
    - destruct (order_shows beh rm c _);
        [eapply Rres_pre; [eapply R_trans; [apply R_amb|apply R_ambc]|]|];
        destruct (rm_async rm); auto using all_list_R, all_list_async_R.
    - intros c1 b _. simpl. destruct (_ && _); auto.
  Qed.

  (* relations that also ignore the assignment of the state pass through the whole of _activate,
     the candidate loop and _trigger *)
  Hypothesis R_field : forall c f, R c (set_field c f).

  Lemma activate_pre_R : forall t x c, Rres R c (activate_pre beh nested rm t x c).
  Proof.
    intros. unfold activate_pre.
    apply Rres_bind; [apply call_group_R|]. intros c1 _ _.
    apply Rres_bind; [apply all_group_R|]. intros c2 ok _.
    destruct (negb ok); [simpl; auto|].
    apply Rres_bind; [apply call_group_R|]. intros c3 rb _.
    apply Rres_bind; [destruct (a_internal t); [simpl; auto|apply call_group_R]|]. intros c4 _ _.
    apply Rres_bind; [apply call_group_R|]. intros c5 ro _. simpl. auto.
  Qed.

  Lemma activate_post_R : forall t x c, Rres R c (activate_post beh nested rm t x c).
  Proof.
    intros. unfold activate_post. eapply Rres_pre; [apply R_field|].
    apply Rres_bind; [destruct (a_internal t); [simpl; auto|apply call_group_R]|]. intros c1 _ _.
    apply Rres_bind; [apply call_group_R|]. intros c2 _ _. simpl. auto.
  Qed.

  Lemma activate_R : forall t td c, Rres R c (activate beh nested rm t td c).
  Proof.
    intros. unfold activate. eapply Rres_pre; [apply R_nact|].
    apply Rres_bind; [apply activate_pre_R|]. intros c1 r _.
    destruct r as [v|]; [|simpl; auto].
    apply Rres_bind; [apply activate_post_R|]. intros c2 _ _. simpl. auto.
  Qed.

  Lemma try_candidates_R : forall cands e s td c, Rres R c (try_candidates beh nested rm cands e s td c).
  Proof.
    induction cands as [|t r IH]; intros; simpl.
    - destruct (rm_allow rm); simpl; auto.
    - destruct (matches t e); [|apply IH].
      apply Rres_bind; [apply activate_R|]. intros c1 er _.
      destruct (fst er); [simpl; auto|apply IH].
  Qed.

  Lemma trigger_R : forall td c, Rres R c (trigger beh nested rm td c).
  Proof.
    intros. unfold trigger.
    match goal with |- Rres R c (match ?r with _ => _ end) => assert (H : Rres R c r); [|destruct r; simpl in *; eauto] end.
    eapply Rres_pre; [apply R_depth|].
    destruct (td_ev td) as [e|].
    - simpl. destruct (field c) as [s|]; [apply try_candidates_R|simpl; auto].
    - apply Rres_bind; [apply activate_R|]. intros; simpl; auto.
  Qed.
End Frame.

(* ---------- instance 1: nothing in the callback machinery touches the lock ---------- *)
Definition same_lock (c c' : cfg) : Prop := locked c' = locked c.

Section SameLock.
  Variable beh : behaviour.
  Variable nested : tdata -> cfg -> res pyres.
  Variable rm : rmachine.
  Hypothesis nested_lock : forall td c, Rres same_lock c (nested td c).

  Lemma sl_refl c : same_lock c c. Proof. reflexivity. Qed.
  Lemma sl_trans a b c : same_lock a b -> same_lock b c -> same_lock a c.
  Proof. unfold same_lock; congruence. Qed.

  Definition SL {A} (f : cfg -> res A) := forall c, Rres same_lock c (f c).

  Lemma sl_run_acts l : SL (run_acts nested l).
  Proof. intro c. apply run_acts_R; first [exact sl_refl | exact sl_trans | exact nested_lock | (intros; reflexivity) | (left; intros; reflexivity)]. Qed.
  Lemma sl_run_cb g x cb : SL (run_cb beh nested g x cb).
  Proof. intro c. apply run_cb_R; first [exact sl_refl | exact sl_trans | exact nested_lock | (intros; reflexivity) | (left; intros; reflexivity)]. Qed.
  Lemma sl_run_chain g x cbs : SL (run_chain beh nested g x cbs).
  Proof. intro c. apply run_chain_R; first [exact sl_refl | exact sl_trans | exact nested_lock | (intros; reflexivity) | (left; intros; reflexivity)]. Qed.
  Lemma sl_run_wrapper g x w : SL (run_wrapper beh nested g x w).
  Proof. intro c. apply run_wrapper_R; first [exact sl_refl | exact sl_trans | exact nested_lock | (intros; reflexivity) | (left; intros; reflexivity)]. Qed.
  Lemma sl_call_list g x ws : SL (call_list beh nested g x ws).
  Proof. intro c. apply call_list_R; first [exact sl_refl | exact sl_trans | exact nested_lock | (intros; reflexivity) | (left; intros; reflexivity)]. Qed.
  Lemma sl_call_group g x ws : SL (call_group beh nested rm g x ws).
  Proof. intro c. apply call_group_R; first [exact sl_refl | exact sl_trans | exact nested_lock | (intros; reflexivity) | (left; intros; reflexivity)]. Qed.
  Lemma sl_all_list g x ws : SL (all_list beh nested g x ws).
  Proof. intro c. apply all_list_R; first [exact sl_refl | exact sl_trans | exact nested_lock | (intros; reflexivity) | (left; intros; reflexivity)]. Qed.
  Lemma sl_all_list_async g x ws : SL (all_list_async beh nested g x ws).
  Proof. intro c. apply all_list_async_R; first [exact sl_refl | exact sl_trans | exact nested_lock | (intros; reflexivity) | (left; intros; reflexivity)]. Qed.
  Lemma sl_all_group g x ws : SL (all_group beh nested rm g x ws).
  Proof. intro c. apply all_group_R; first [exact sl_refl | exact sl_trans | exact nested_lock | (intros; reflexivity) | (left; intros; reflexivity)]. Qed.
  Lemma sl_activate_pre t x : SL (activate_pre beh nested rm t x).
  Proof. intro c. apply activate_pre_R; first [exact sl_refl | exact sl_trans | exact nested_lock | (intros; reflexivity) | (left; intros; reflexivity)]. Qed.
  Lemma sl_activate_post t x : SL (activate_post beh nested rm t x).
  Proof. intro c. apply activate_post_R; first [exact sl_refl | exact sl_trans | exact nested_lock | (intros; reflexivity) | (left; intros; reflexivity)]. Qed.
  Lemma sl_activate t td : SL (activate beh nested rm t td).
  Proof. intro c. apply activate_R; first [exact sl_refl | exact sl_trans | exact nested_lock | (intros; reflexivity) | (left; intros; reflexivity)]. Qed.
  Lemma sl_try_candidates cands e s td : SL (try_candidates beh nested rm cands e s td).
  Proof. intro c. apply try_candidates_R; first [exact sl_refl | exact sl_trans | exact nested_lock | (intros; reflexivity) | (left; intros; reflexivity)]. Qed.
  Lemma sl_trigger td : SL (trigger beh nested rm td).
  Proof. intro c. apply trigger_R; first [exact sl_refl | exact sl_trans | exact nested_lock | (intros; reflexivity) | (left; intros; reflexivity)]. Qed.
End SameLock.

(* ---------- instance 2: field and lock unchanged, queue only grows at the back ---------- *)
Definition grows (c c' : cfg) : Prop :=
  field c' = field c /\ locked c' = locked c /\ exists q, queue c' = queue c ++ q.

Lemma grows_refl c : grows c c.
Proof. repeat split; auto. exists []. now rewrite app_nil_r. Qed.

Lemma grows_trans a b c : grows a b -> grows b c -> grows a c.
Proof.
  intros (F1 & L1 & q1 & Q1) (F2 & L2 & q2 & Q2). repeat split; try congruence.
  exists (q1 ++ q2). rewrite Q2, Q1, app_assoc. reflexivity.
Qed.

Lemma grows_flat td c : Rres grows c (flat_nested td c).
Proof. simpl. repeat split; auto. exists [td]. reflexivity. Qed.

(* ---------- instance 3: the log only grows ---------- *)
Definition log_grows (c c' : cfg) : Prop := exists l, log c' = l ++ log c.

Lemma log_grows_refl c : log_grows c c.
Proof. exists []. reflexivity. Qed.

Lemma log_grows_trans a b c : log_grows a b -> log_grows b c -> log_grows a c.
Proof. intros (l1 & H1) (l2 & H2). exists (l2 ++ l1). rewrite H2, H1, app_assoc. reflexivity. Qed.
