From Coq Require Import List Arith Bool Lia.
Import ListNotations.
From PySM Require Import Impl.Graph Spec.GraphSpec.

(* ------------------------------------------------------------------ *)
(* Part 1: the deque/visited-set loop computes reachability           *)
(* ------------------------------------------------------------------ *)

Lemma mem_In s l : mem s l = true <-> In s l.
Proof.
  unfold mem. rewrite existsb_exists. split.
  - intros [x [Hx He]]. apply Nat.eqb_eq in He. subst. exact Hx.
  - intros H. exists s. split; [exact H | apply Nat.eqb_refl].
Qed.

Lemma mem_false_In s l : mem s l = false <-> ~ In s l.
Proof.
  rewrite <- mem_In. destruct (mem s l); split; intros H.
  - discriminate.
  - exfalso. apply H. reflexivity.
  - intros H'. discriminate.
  - reflexivity.
Qed.

Section BFS.
  Variable es : list gtrans.

  Definition E (a b : nat) : Prop := In b (succs es a).

  Inductive R : nat -> nat -> Prop :=
  | R_refl : forall a, R a a
  | R_step : forall a b c, R a b -> E b c -> R a c.

  Definition unseen (seen : list nat) (t : gtrans) : bool := negb (mem (g_src t) seen).

  Definition pot (work seen : list nat) : nat :=
    length work + length (filter (unseen seen) es).

  Lemma unseen_cons s seen t :
    unseen (s :: seen) t = negb (Nat.eqb (g_src t) s) && unseen seen t.
  Proof. unfold unseen, mem. cbn [existsb]. rewrite negb_orb. reflexivity. Qed.

  Lemma unseen_split (l : list gtrans) s seen :
    mem s seen = false ->
    length (filter (unseen seen) l)
    = length (map g_tgt (filter (fun t => Nat.eqb (g_src t) s) l))
      + length (filter (unseen (s :: seen)) l).
  Proof.
    intros Hs. induction l as [|t l IH]; [reflexivity|].
    cbn [filter]. rewrite unseen_cons.
    destruct (Nat.eqb (g_src t) s) eqn:Hts.
    - assert (Hu : unseen seen t = true).
      { unfold unseen. apply Nat.eqb_eq in Hts. rewrite Hts, Hs. reflexivity. }
      rewrite Hu. cbn [negb andb map length]. rewrite IH. lia.
    - cbn [negb andb]. destruct (unseen seen t); cbn [length]; rewrite IH; lia.
  Qed.

  Lemma visit_loop_fuel : forall fuel work seen,
      pot work seen < fuel -> exists l, visit_loop es fuel work seen = Some l.
  Proof.
    induction fuel as [|f IH]; intros work seen Hp; [lia|].
    cbn [visit_loop]. destruct work as [|s w]; [eexists; reflexivity|].
    destruct (mem s seen) eqn:Hm.
    - apply IH. unfold pot in *. cbn [length] in Hp. lia.
    - apply IH. unfold pot in *. cbn [length] in Hp.
      rewrite app_length. unfold succs.
      rewrite (unseen_split es s seen Hm) in Hp. lia.
  Qed.

  Lemma filter_unseen_nil (l : list gtrans) : filter (unseen []) l = l.
  Proof. induction l as [|t l IH]; [reflexivity|]. cbn. rewrite IH. reflexivity. Qed.

  Lemma visit_fuel_enough a : exists l, visit_loop es (visit_fuel es) [a] [] = Some l.
  Proof.
    apply visit_loop_fuel. unfold pot, visit_fuel. rewrite filter_unseen_nil. cbn. lia.
  Qed.

  Lemma closed_contains (seen : list nat) :
    (forall x y, In x seen -> E x y -> In y seen) ->
    forall a b, R a b -> In a seen -> In b seen.
  Proof.
    intros Hc a b Hr. induction Hr as [a0|a0 b0 c0 Hr IHr He]; intros Ha; [exact Ha|].
    eapply Hc; [apply IHr; exact Ha | exact He].
  Qed.

  Section Inv.
    Variable a : nat.

    Definition Inv (work seen : list nat) : Prop :=
      (forall x, In x work \/ In x seen -> R a x)
      /\ (forall x y, In x seen -> E x y -> In y seen \/ In y work)
      /\ (In a seen \/ In a work).

    Lemma visit_loop_correct : forall fuel work seen l,
        visit_loop es fuel work seen = Some l -> Inv work seen ->
        forall b, In b l <-> R a b.
    Proof.
      induction fuel as [|f IH]; intros work seen l Hv HI b; [discriminate|].
      cbn [visit_loop] in Hv. destruct work as [|s w].
      - injection Hv as <-. destruct HI as (I1 & I2 & I3). split.
        + intros Hb. apply I1. right. exact Hb.
        + intros Hr. eapply closed_contains; [|exact Hr|].
          * intros x y Hx He. destruct (I2 _ _ Hx He) as [H|[]]. exact H.
          * destruct I3 as [H|[]]. exact H.
      - destruct (mem s seen) eqn:Hm.
        + apply (IH _ _ _ Hv). apply mem_In in Hm. destruct HI as (I1 & I2 & I3).
          split; [|split].
          * intros x [Hx|Hx]; apply I1; [left; right; exact Hx | right; exact Hx].
          * intros x y Hx He. destruct (I2 _ _ Hx He) as [H|[H|H]].
            -- left; exact H.
            -- subst. left; exact Hm.
            -- right; exact H.
          * destruct I3 as [H|[H|H]]; [left; exact H | subst; left; exact Hm | right; exact H].
        + apply (IH _ _ _ Hv). destruct HI as (I1 & I2 & I3).
          assert (Hs : R a s) by (apply I1; left; left; reflexivity).
          split; [|split].
          * intros x [Hx|[Hx|Hx]].
            -- apply in_app_or in Hx. destruct Hx as [Hx|Hx].
               ++ apply I1. left; right; exact Hx.
               ++ eapply R_step; [exact Hs | exact Hx].
            -- subst. exact Hs.
            -- apply I1. right; exact Hx.
          * intros x y [Hx|Hx] He.
            -- subst. right. apply in_or_app. right. exact He.
            -- destruct (I2 _ _ Hx He) as [H|[H|H]].
               ++ left; right; exact H.
               ++ subst. left; left; reflexivity.
               ++ right. apply in_or_app. left; exact H.
          * destruct I3 as [H|[H|H]].
            -- left; right; exact H.
            -- subst. left; left; reflexivity.
            -- right. apply in_or_app. left; exact H.
    Qed.
  End Inv.

  Theorem visit_spec a b : In b (visit es a) <-> R a b.
  Proof.
    unfold visit. destruct (visit_fuel_enough a) as [l Hl]. rewrite Hl.
    apply (visit_loop_correct a _ _ _ _ Hl).
    split; [|split].
    - intros x [[Hx|[]]|[]]. subst. constructor.
    - intros x y [].
    - right; left; reflexivity.
  Qed.

  (* the visited list has no duplicates *)
  Lemma visit_loop_nodup : forall fuel work seen l,
      visit_loop es fuel work seen = Some l -> NoDup seen -> NoDup l.
  Proof.
    induction fuel as [|f IH]; intros work seen l Hv Hn; [discriminate|].
    cbn [visit_loop] in Hv. destruct work as [|s w].
    - injection Hv as <-. exact Hn.
    - destruct (mem s seen) eqn:Hm.
      + eapply IH; eassumption.
      + eapply IH; [eassumption|]. constructor; [|exact Hn].
        apply mem_false_In. exact Hm.
  Qed.

  Theorem visit_nodup a : NoDup (visit es a).
  Proof.
    unfold visit. destruct (visit_fuel_enough a) as [l Hl]. rewrite Hl.
    eapply visit_loop_nodup; [exact Hl | constructor].
  Qed.
End BFS.

(* ------------------------------------------------------------------ *)
(* Part 2: the metaclass checks decide exactly the Spec predicates     *)
(* ------------------------------------------------------------------ *)

Lemma nonempty_exists {A} (l : list A) : nonempty l = true <-> exists x, In x l.
Proof.
  destruct l as [|x l]; cbn; split; intros H; try discriminate.
  - destruct H as [x []].
  - exists x. left; reflexivity.
  - reflexivity.
Qed.

Lemma nonempty_false {A} (l : list A) : nonempty l = false <-> l = [].
Proof. destruct l; cbn; split; intros H; congruence. Qed.

Lemma filter_seq_In f n s : In s (filter f (seq 0 n)) <-> s < n /\ f s = true.
Proof. rewrite filter_In, in_seq. split; intros [H1 H2]; split; auto; lia. Qed.

Lemma existsb_seq f n : existsb f (seq 0 n) = true <-> exists s, s < n /\ f s = true.
Proof.
  rewrite existsb_exists. split; intros [s [H1 H2]]; exists s; split; auto.
  - apply in_seq in H1. lia.
  - apply in_seq. lia.
Qed.

Lemma existsb_false {A} (f : A -> bool) l : existsb f l = false <-> forall x, In x l -> f x = false.
Proof.
  split.
  - intros H x Hx. destruct (f x) eqn:Hf; [|reflexivity].
    assert (existsb f l = true) by (apply existsb_exists; exists x; auto). congruence.
  - intros H. destruct (existsb f l) eqn:He; [|reflexivity].
    apply existsb_exists in He. destruct He as [x [Hx Hf]]. rewrite (H x Hx) in Hf. discriminate.
Qed.

Lemma singleton_filter (f : nat -> bool) (l : list nat) i :
  NoDup l ->
  (filter f l = [i] <-> In i l /\ f i = true /\ forall j, In j l -> f j = true -> j = i).
Proof.
  intros Hn. split.
  - intros H. assert (Hi : In i (filter f l)) by (rewrite H; left; reflexivity).
    apply filter_In in Hi. destruct Hi as [Hi Hf]. split; [exact Hi|]. split; [exact Hf|].
    intros j Hj Hfj. assert (In j (filter f l)) by (apply filter_In; auto).
    rewrite H in H0. destruct H0 as [H0|[]]. congruence.
  - intros (Hi & Hf & Hu).
    assert (Hnd : NoDup (filter f l)) by (apply NoDup_filter; exact Hn).
    assert (Hall : forall x, In x (filter f l) -> x = i).
    { intros x Hx. apply filter_In in Hx. destruct Hx. apply Hu; auto. }
    assert (Hin : In i (filter f l)) by (apply filter_In; auto).
    destruct (filter f l) as [|x [|y r]].
    + destruct Hin.
    + rewrite (Hall x) by (left; reflexivity). reflexivity.
    + exfalso. assert (x = i) by (apply Hall; left; reflexivity).
      assert (y = i) by (apply Hall; right; left; reflexivity). subst.
      inversion Hnd as [|? ? Hni _]. apply Hni. left; reflexivity.
Qed.

Section Checks.
  Variable cd : classdef.
  Let n := nstates cd.
  Hypothesis Hidx : idx_ok cd.

  Lemma In_expand_any y t :
    In t (expand_any cd y) <->
    exists s, s < n /\ is_final cd s = false
              /\ t = {| g_src := s; g_tgt := a_tgt y; g_internal := false; g_hasev := true |}.
  Proof.
    unfold expand_any. rewrite in_map_iff. split.
    - intros [s [Ht Hs]]. apply filter_seq_In in Hs. destruct Hs as [Hs Hf].
      exists s. split; [exact Hs|]. split; [|symmetry; exact Ht].
      destruct (is_final cd s); [discriminate|reflexivity].
    - intros [s (Hs & Hf & Ht)]. exists s. split; [symmetry; exact Ht|].
      apply filter_seq_In. split; [exact Hs|]. rewrite Hf. reflexivity.
  Qed.

  Lemma edge_iff a b :
    (exists t, In t (all_edges cd) /\ g_src t = a /\ g_tgt t = b) <-> Edge cd a b.
  Proof.
    unfold all_edges, Edge. split.
    - intros [t (Ht & Ha & Hb)]. apply in_app_or in Ht. destruct Ht as [Ht|Ht].
      + left. exists t. auto.
      + right. apply in_flat_map in Ht. destruct Ht as [y [Hy Ht]].
        apply In_expand_any in Ht. destruct Ht as [s (Hs & Hf & ->)]. cbn in Ha, Hb. subst.
        exists y. auto.
    - intros [[t (Ht & Ha & Hb)]|[y (Hy & Hb & Ha & Hf)]].
      + exists t. split; [apply in_or_app; left; exact Ht | auto].
      + exists {| g_src := a; g_tgt := a_tgt y; g_internal := false; g_hasev := true |}.
        split; [|cbn; auto].
        apply in_or_app. right. apply in_flat_map. exists y. split; [exact Hy|].
        apply In_expand_any. exists a. auto.
  Qed.

  Lemma E_iff a b : E (all_edges cd) a b <-> Edge cd a b.
  Proof.
    rewrite <- edge_iff. unfold E, succs. rewrite in_map_iff. split.
    - intros [t [Hb Ht]]. apply filter_In in Ht. destruct Ht as [Ht Ha].
      apply Nat.eqb_eq in Ha. exists t. auto.
    - intros [t (Ht & Ha & Hb)]. exists t. split; [exact Hb|].
      apply filter_In. split; [exact Ht|]. apply Nat.eqb_eq. exact Ha.
  Qed.

  Lemma R_iff a b : R (all_edges cd) a b <-> Reach cd a b.
  Proof.
    split; intros H; induction H as [a0|a0 b0 c0 H IH He].
    - constructor.
    - econstructor; [exact IH | apply E_iff; exact He].
    - constructor.
    - econstructor; [exact IH | apply E_iff; exact He].
  Qed.

  Lemma visit_iff a b : In b (visit (all_edges cd) a) <-> Reach cd a b.
  Proof. rewrite visit_spec. apply R_iff. Qed.

  Lemma has_out_iff s : has_out (all_edges cd) s = true <-> exists b, Edge cd s b.
  Proof.
    unfold has_out. rewrite existsb_exists. split.
    - intros [t [Ht Hs]]. apply Nat.eqb_eq in Hs. exists (g_tgt t). apply edge_iff. exists t. auto.
    - intros [b Hb]. apply edge_iff in Hb. destruct Hb as [t (Ht & Ha & _)].
      exists t. split; [exact Ht | apply Nat.eqb_eq; exact Ha].
  Qed.

  Lemma has_out_false s : has_out (all_edges cd) s = false <-> forall b, ~ Edge cd s b.
  Proof.
    split.
    - intros H b Hb. assert (has_out (all_edges cd) s = true) by (apply has_out_iff; eauto).
      congruence.
    - intros H. destruct (has_out (all_edges cd) s) eqn:Ho; [|reflexivity].
      apply has_out_iff in Ho. destruct Ho as [b Hb]. exfalso. eapply H; eauto.
  Qed.

  Lemma bad_internal_false :
    bad_internal cd = false <->
    (forall t, In t (cd_trans cd) -> g_internal t = true -> g_src t = g_tgt t)
    /\ (forall y, In y (cd_any cd) -> a_internal y = false).
  Proof.
    unfold bad_internal. rewrite orb_false_iff, !existsb_false. split.
    - intros [H1 H2]. split; [|exact H2].
      intros t Ht Hi. specialize (H1 t Ht). rewrite Hi in H1. cbn in H1.
      apply negb_false_iff in H1. apply Nat.eqb_eq. exact H1.
    - intros [H1 H2]. split; [|exact H2].
      intros t Ht. destruct (g_internal t) eqn:Hi; [|reflexivity]. cbn.
      apply negb_false_iff. apply Nat.eqb_eq. apply H1; auto.
  Qed.

  Lemma has_events_iff : has_events cd = true <-> HasEvent cd.
  Proof.
    unfold has_events, HasEvent. rewrite orb_true_iff, existsb_exists. split.
    - intros [H|H]; [left; exact H|right].
      destruct (cd_any cd); [discriminate|congruence].
    - intros [H|H]; [left; exact H|right].
      destruct (cd_any cd); [congruence|reflexivity].
  Qed.

  Lemma initials_iff i : initials cd = [i] <-> OneInitial cd i.
  Proof.
    unfold initials, OneInitial. rewrite singleton_filter by apply seq_NoDup.
    fold n. split.
    - intros (Hi & Hf & Hu). apply in_seq in Hi. split; [lia|]. split; [exact Hf|].
      intros j Hj Hfj. apply Hu; [apply in_seq; lia | exact Hfj].
    - intros (Hi & Hf & Hu). split; [apply in_seq; lia|]. split; [exact Hf|].
      intros j Hj Hfj. apply in_seq in Hj. apply Hu; [lia | exact Hfj].
  Qed.

  Lemma final_with_transitions_false :
    final_with_transitions cd = false <->
    forall t, In t (cd_trans cd) -> is_final cd (g_src t) = false.
  Proof.
    unfold final_with_transitions. rewrite existsb_false. fold n. split.
    - intros H t Ht. destruct Hidx as [Hi _]. destruct (Hi t Ht) as [Hs _].
      specialize (H (g_src t)). rewrite in_seq in H. specialize (H ltac:(fold n; lia)).
      apply andb_false_iff in H. destruct H as [H|H]; [exact H|].
      exfalso. rewrite has_out_false in H. apply (H (g_tgt t)). left. exists t. auto.
    - intros H s Hs. destruct (is_final cd s) eqn:Hf; [|reflexivity]. cbn.
      apply has_out_false. intros b [[t (Ht & Ha & Hb)]|[y (Hy & Hb & Ha & Hnf)]].
      + specialize (H t Ht). rewrite Ha in H. congruence.
      + congruence.
  Qed.

  Lemma unreachable_nil i :
    nonempty (unreachable cd i) = false <-> forall s, s < n -> Reach cd i s.
  Proof.
    rewrite nonempty_false. unfold unreachable. fold n. split.
    - intros H s Hs. apply visit_iff. apply mem_In.
      destruct (mem s (visit (all_edges cd) i)) eqn:Hm; [reflexivity|].
      assert (In s (filter (fun s0 => negb (mem s0 (visit (all_edges cd) i))) (seq 0 n))).
      { apply filter_seq_In. split; [exact Hs|]. rewrite Hm. reflexivity. }
      rewrite H in H0. destruct H0.
    - intros H. destruct (filter _ (seq 0 n)) as [|s r] eqn:Hf; [reflexivity|].
      assert (Hs : In s (filter (fun s0 => negb (mem s0 (visit (all_edges cd) i))) (seq 0 n)))
        by (rewrite Hf; left; reflexivity).
      apply filter_seq_In in Hs. destruct Hs as [Hs Hm].
      apply negb_true_iff in Hm. apply mem_false_In in Hm. exfalso. apply Hm.
      apply visit_iff. apply H. exact Hs.
  Qed.

  Lemma trap_iff : nonempty (trap_states cd) = true <-> exists s, Trap cd s.
  Proof.
    rewrite nonempty_exists. unfold trap_states, Trap. fold n.
    split; intros [s Hs]; exists s.
    - apply filter_seq_In in Hs. destruct Hs as [Hs Hb]. apply andb_true_iff in Hb.
      destruct Hb as [Hf Ho]. apply negb_true_iff in Hf, Ho. split; [exact Hs|]. split; [exact Hf|].
      apply has_out_false. exact Ho.
    - destruct Hs as (Hs & Hf & Ho). apply filter_seq_In. split; [exact Hs|].
      rewrite Hf. cbn. apply negb_true_iff. apply has_out_false. exact Ho.
  Qed.

  Lemma nopath_iff :
    has_finals cd && nonempty (no_path_to_final cd) = true <-> exists s, NoPathToFinal cd s.
  Proof.
    rewrite andb_true_iff, nonempty_exists. unfold has_finals, no_path_to_final, NoPathToFinal.
    fold n. rewrite existsb_seq. split.
    - intros [Hfin [s Hs]]. exists s. split; [exact Hfin|].
      apply filter_seq_In in Hs. destruct Hs as [Hs Hb]. apply andb_true_iff in Hb.
      destruct Hb as [Hf Hv]. apply negb_true_iff in Hf, Hv. split; [exact Hs|]. split; [exact Hf|].
      intros f Hr. rewrite existsb_false in Hv. apply Hv. apply visit_iff. exact Hr.
    - intros [s (Hfin & Hs & Hf & Hv)]. split; [exact Hfin|]. exists s.
      apply filter_seq_In. split; [exact Hs|]. rewrite Hf. cbn. apply negb_true_iff.
      apply existsb_false. intros f Hin. apply Hv. apply visit_iff. exact Hin.
  Qed.

  Definition StrictOk : Prop :=
    cd_strict cd = true -> (forall s, ~ Trap cd s) /\ (forall s, ~ NoPathToFinal cd s).

  Theorem accepts_iff :
    0 < n -> ((exists w, accepts cd = Accepted w) <-> WellFormed cd /\ StrictOk).
  Proof.
    intros Hn. unfold accepts, WellFormed, StrictOk. fold n.
    assert (Hne : nonempty (cd_states cd) = true).
    { unfold n, nstates in Hn. destruct (cd_states cd); [cbn in Hn; lia | reflexivity]. }
    rewrite Hne. cbn [negb andb].
    destruct (bad_internal cd) eqn:Hbi.
    { split; [intros [w H]; discriminate|].
      intros [(_ & _ & H1 & H2 & _) _].
      assert (bad_internal cd = false) by (apply bad_internal_false; auto). congruence. }
    apply bad_internal_false in Hbi. destruct Hbi as [Hb1 Hb2].
    destruct (has_events cd) eqn:Hev; cbn [negb].
    2:{ split; [intros [w H]; discriminate|].
        intros [(_ & H & _) _]. apply has_events_iff in H. congruence. }
    apply has_events_iff in Hev.
    destruct (initials cd) as [|i [|i' r]] eqn:Hini.
    1,3: split; [intros [w H]; discriminate|];
      intros [(_ & _ & _ & _ & _ & [i0 [Hi0 _]]) _]; apply initials_iff in Hi0; congruence.
    apply initials_iff in Hini.
    destruct (final_with_transitions cd) eqn:Hft.
    { split; [intros [w H]; discriminate|].
      intros [(_ & _ & _ & _ & H & _) _]. apply final_with_transitions_false in H. congruence. }
    pose proof (proj1 final_with_transitions_false Hft) as Hft'.
    destruct (nonempty (unreachable cd i)) eqn:Hun.
    { split; [intros [w H]; discriminate|].
      intros [(_ & _ & _ & _ & _ & [i0 [Hi0 Hr]]) _].
      assert (i0 = i).
      { destruct Hini as (Hi & Hf & _). destruct Hi0 as (_ & _ & Hu). symmetry. apply Hu; auto. }
      subst. apply unreachable_nil in Hr. congruence. }
    pose proof (proj1 (unreachable_nil i) Hun) as Hun'.
    assert (HWF : 0 < n /\ HasEvent cd
                  /\ (forall t, In t (cd_trans cd) -> g_internal t = true -> g_src t = g_tgt t)
                  /\ (forall y, In y (cd_any cd) -> a_internal y = false)
                  /\ (forall t, In t (cd_trans cd) -> is_final cd (g_src t) = false)
                  /\ exists i, OneInitial cd i /\ forall s, s < n -> Reach cd i s).
    { repeat (split; [assumption|]). exists i. split; assumption. }
    destruct (cd_strict cd) eqn:Hst.
    - rewrite !andb_true_r.
      destruct (nonempty (trap_states cd)) eqn:Htr.
      { split; [intros [w H]; discriminate|].
        intros [_ H]. destruct (H eq_refl) as [H1 _]. apply trap_iff in Htr.
        destruct Htr as [s Hs]. exfalso. eapply H1; eauto. }
      destruct (has_finals cd && nonempty (no_path_to_final cd)) eqn:Hnp.
      { split; [intros [w H]; discriminate|].
        intros [_ H]. destruct (H eq_refl) as [_ H2]. apply nopath_iff in Hnp.
        destruct Hnp as [s Hs]. exfalso. eapply H2; eauto. }
      split; [|intros _; eexists; reflexivity].
      intros _. split; [exact HWF|]. intros _. split; intros s Hs.
      + assert (nonempty (trap_states cd) = true) by (apply trap_iff; eauto). congruence.
      + assert (has_finals cd && nonempty (no_path_to_final cd) = true)
          by (apply nopath_iff; eauto). congruence.
    - rewrite !andb_false_r. split; [|intros _; eexists; reflexivity].
      intros _. split; [exact HWF|]. intros H; discriminate.
  Qed.

  Theorem accepts_warning w :
    accepts cd = Accepted w ->
    (w = true <-> (exists s, Trap cd s) \/ (exists s, NoPathToFinal cd s)).
  Proof.
    unfold accepts.
    destruct (bad_internal cd); [discriminate|].
    destruct (negb (nonempty (cd_states cd)) && negb (has_events cd)); [discriminate|].
    destruct (negb (nonempty (cd_states cd))); [discriminate|].
    destruct (negb (has_events cd)); [discriminate|].
    destruct (initials cd) as [|i [|i' r]]; try discriminate.
    destruct (final_with_transitions cd); [discriminate|].
    destruct (nonempty (unreachable cd i)); [discriminate|].
    destruct (nonempty (trap_states cd) && cd_strict cd); [discriminate|].
    destruct (has_finals cd && nonempty (no_path_to_final cd) && cd_strict cd); [discriminate|].
    intros H. injection H as <-. rewrite orb_true_iff, trap_iff, nopath_iff. reflexivity.
  Qed.

  Theorem accepts_never_abstract : 0 < n -> accepts cd <> Abstract.
  Proof.
    intros Hn. unfold accepts.
    assert (Hne : nonempty (cd_states cd) = true).
    { unfold n, nstates in Hn. destruct (cd_states cd); [cbn in Hn; lia | reflexivity]. }
    rewrite Hne. cbn [negb andb].
    destruct (bad_internal cd); [discriminate|].
    destruct (negb (has_events cd)); [discriminate|].
    destruct (initials cd) as [|i [|i' r]]; try discriminate.
    destruct (final_with_transitions cd); [discriminate|].
    destruct (nonempty (unreachable cd i)); [discriminate|].
    destruct (nonempty (trap_states cd) && cd_strict cd); [discriminate|].
    destruct (has_finals cd && nonempty (no_path_to_final cd) && cd_strict cd); discriminate.
  Qed.
End Checks.

Theorem rejects_otherwise cd :
  idx_ok cd -> 0 < nstates cd -> ~ (WellFormed cd /\ StrictOk cd) ->
  exists k, accepts cd = Rejected k.
Proof.
  intros Hi Hn Hno. destruct (accepts cd) as [|w|k] eqn:Ha.
  - exfalso. eapply accepts_never_abstract; eauto.
  - exfalso. apply Hno. apply (accepts_iff cd Hi Hn). eauto.
  - eauto.
Qed.
