(* Chained comparisons, read sequence included.  The closure tree that build_expression builds for
   `a < b < c` evaluates exactly like Python evaluates the conjunction of the adjacent pairs,
   `(a < b) and (b < c)` - same value, same TypeError, same sequence of name reads (the middle
   operand is read once per comparison it takes part in) - and this for every expression of the
   grammar, with chains of any length at any depth.  For expressions without chains the
   rewriting is the identity, which gives build_is_python_chain_free again. *)
From Coq Require Import List Arith Bool ZArith Lia.
Import ListNotations.
From PySM Require Import Impl.Guards Proofs.GuardsProofs.

Section DPairs.
  Variable ds : expr -> expr.
  (* the adjacent pairs of  left op1 y1 op2 y2 ...  as separate two-operand comparisons *)
  Fixpoint dpairs (left : expr) (l : list (cmpop * expr)) : list expr :=
    match l with
    | [] => []
    | (op, y) :: t => ECmp left [(op, ds y)] :: dpairs (ds y) t
    end.
End DPairs.

(* every chain, at any depth, rewritten into the conjunction of its adjacent pairs *)
Fixpoint desugar (e : expr) : expr :=
  match e with
  | EName n => EName n
  | EConst v => EConst v
  | ENot x => ENot (desugar x)
  | EAnd x r => EAnd (desugar x) (map desugar r)
  | EOr x r => EOr (desugar x) (map desugar r)
  | ECmp x r => match dpairs desugar (desugar x) r with
                | [] => ECmp (desugar x) []
                | [c] => c
                | c :: cs => EAnd c cs
                end
  end.

Section Chain.
  Variable rho : env.
  Notation ev := (py_eval rho).
  Notation ek := (eval_closure rho).

  Definition same_d (e : expr) : Prop := ek (build e) = ev (desugar e).

  (* a left-nested conjunction of closures evaluates like Python's n-ary `and` over expressions
     that evaluate like the closures one by one *)
  Lemma kand_fold_error : forall ks acc rd,
    ek acc = (ETypeError, rd) -> ek (fold_left KAnd ks acc) = (ETypeError, rd).
  Proof. induction ks as [|k ks IH]; intros acc rd H; simpl; auto. apply IH. simpl. rewrite H. reflexivity. Qed.

  Lemma kand_fold_eval : forall ks cs, Forall2 (fun k c => ek k = ev c) ks cs ->
    forall acc v rd, ek acc = (EV v, rd) ->
    ek (fold_left KAnd ks acc) = (let '(res, rd') := and_rest ev v cs in (res, rd ++ rd')).
  Proof.
    induction 1 as [|k c ks cs Hkc HF IH]; intros acc v rd H; simpl.
    - rewrite H, app_nil_r. reflexivity.
    - destruct (truthy v) eqn:T.
      + destruct (ev c) as [[w|] rdc] eqn:E.
        * rewrite (IH (KAnd acc k) w (rd ++ rdc)).
          -- destruct (and_rest ev w cs) as [res rd']. rewrite app_assoc. reflexivity.
          -- simpl. rewrite H, T, Hkc. reflexivity.
        * apply kand_fold_error. simpl. rewrite H, T, Hkc. reflexivity.
      + rewrite (IH (KAnd acc k) v rd).
        * destruct cs as [|c' cs']; simpl; [reflexivity|]. rewrite T. reflexivity.
        * simpl. rewrite H, T. reflexivity.
  Qed.

  Lemma kor_fold_error : forall ks acc rd,
    ek acc = (ETypeError, rd) -> ek (fold_left KOr ks acc) = (ETypeError, rd).
  Proof. induction ks as [|k ks IH]; intros acc rd H; simpl; auto. apply IH. simpl. rewrite H. reflexivity. Qed.

  Lemma kor_fold_eval : forall ks cs, Forall2 (fun k c => ek k = ev c) ks cs ->
    forall acc v rd, ek acc = (EV v, rd) ->
    ek (fold_left KOr ks acc) = (let '(res, rd') := or_rest ev v cs in (res, rd ++ rd')).
  Proof.
    induction 1 as [|k c ks cs Hkc HF IH]; intros acc v rd H; simpl.
    - rewrite H, app_nil_r. reflexivity.
    - destruct (truthy v) eqn:T.
      + rewrite (IH (KOr acc k) v rd).
        * destruct cs as [|c' cs']; simpl; [reflexivity|]. rewrite T. reflexivity.
        * simpl. rewrite H, T. reflexivity.
      + destruct (ev c) as [[w|] rdc] eqn:E.
        * rewrite (IH (KOr acc k) w (rd ++ rdc)).
          -- destruct (or_rest ev w cs) as [res rd']. rewrite app_assoc. reflexivity.
          -- simpl. rewrite H, T, Hkc. reflexivity.
        * apply kor_fold_error. simpl. rewrite H, T, Hkc. reflexivity.
  Qed.

  Lemma fold_and_is_fold_left : forall l acc, fold_and build acc l = fold_left KAnd (map build l) acc.
  Proof. induction l as [|x r IH]; intros acc; simpl; auto. Qed.

  Lemma fold_or_is_fold_left : forall l acc, fold_or build acc l = fold_left KOr (map build l) acc.
  Proof. induction l as [|x r IH]; intros acc; simpl; auto. Qed.

  Lemma operands_related : forall l, Forall same_d l ->
    Forall2 (fun k c => ek k = ev c) (map build l) (map desugar l).
  Proof. induction 1 as [|x r Hx _ IH]; simpl; constructor; auto. Qed.

  (* one two-operand comparison *)
  Lemma pair_same : forall op kl le y,
    ek kl = ev le -> same_d y -> ek (KCmp op kl (build y)) = ev (ECmp le [(op, desugar y)]).
  Proof.
    intros op kl le y Hl Hy. unfold same_d in Hy. simpl. rewrite Hl, Hy.
    destruct (ev le) as [[v|] rd]; [|reflexivity].
    destruct (ev (desugar y)) as [[w|] rdy]; [|reflexivity].
    destruct (py_cmp op v w) as [[|]|]; simpl; rewrite ?app_nil_r; reflexivity.
  Qed.

  Lemma pairs_related : forall r, Forall (fun oe => same_d (snd oe)) r ->
    forall kl le, ek kl = ev le ->
    Forall2 (fun k c => ek k = ev c) (pairs build kl r) (dpairs desugar le r).
  Proof.
    induction 1 as [|[op y] t Hy _ IH]; intros kl le Hl; simpl.
    - constructor.
    - constructor.
      + apply pair_same; assumption.
      + apply IH. exact Hy.
  Qed.

  (* THE theorem: value, TypeError and read sequence, every expression *)
  Theorem build_is_python_of_desugared : forall e, ek (build e) = ev (desugar e).
  Proof.
    induction e as [n|v|x IH|x r IHx IHr|x r IHx IHr|x r IHx IHr] using expr_ind'.
    - reflexivity.
    - reflexivity.
    - simpl. rewrite IH. reflexivity.
    - simpl. rewrite fold_and_is_fold_left.
      destruct (ev (desugar x)) as [[v|] rd] eqn:E.
      + rewrite (kand_fold_eval _ _ (operands_related r IHr) (build x) v rd) by exact IHx.
        reflexivity.
      + apply kand_fold_error. exact IHx.
    - simpl. rewrite fold_or_is_fold_left.
      destruct (ev (desugar x)) as [[v|] rd] eqn:E.
      + rewrite (kor_fold_eval _ _ (operands_related r IHr) (build x) v rd) by exact IHx.
        reflexivity.
      + apply kor_fold_error. exact IHx.
    - pose proof (pairs_related r IHr (build x) (desugar x) IHx) as HP.
      cbn [build desugar].
      destruct HP as [|k c ks cs Hkc HF].
      + cbn [py_eval]. rewrite IHx. destruct (ev (desugar x)) as [[v|] rd]; reflexivity.
      + destruct HF as [|k2 c2 ks2 cs2 Hkc2 HF2].
        * simpl. exact Hkc.
        * remember (k2 :: ks2) as KS. remember (c2 :: cs2) as CS.
          assert (HF : Forall2 (fun k c => ek k = ev c) KS CS) by (subst; constructor; assumption).
          cbn [py_eval].
          destruct (ev c) as [[v|] rd] eqn:E.
          -- rewrite (kand_fold_eval KS CS HF k v rd) by exact Hkc. reflexivity.
          -- apply kand_fold_error. exact Hkc.
  Qed.
End Chain.

(* without chains there is nothing to rewrite *)
Lemma desugar_chain_free : forall e, chain_free e = true -> desugar e = e.
Proof.
  induction e as [n|v|x IH|x r IHx IHr|x r IHx IHr|x r IHx IHr] using expr_ind'; intros C; simpl in *.
  - reflexivity.
  - reflexivity.
  - rewrite IH by exact C. reflexivity.
  - apply andb_true_iff in C as (Cx & Cr). rewrite IHx by exact Cx. f_equal.
    rewrite forallb_forall in Cr. rewrite Forall_forall in IHr.
    rewrite <- (map_id r) at 2. apply map_ext_in. intros y Hy. apply IHr; auto.
  - apply andb_true_iff in C as (Cx & Cr). rewrite IHx by exact Cx. f_equal.
    rewrite forallb_forall in Cr. rewrite Forall_forall in IHr.
    rewrite <- (map_id r) at 2. apply map_ext_in. intros y Hy. apply IHr; auto.
  - apply andb_true_iff in C as (Cx & Cr).
    destruct r as [|[op y] [|z r']]; try discriminate.
    + simpl. rewrite IHx by exact Cx. reflexivity.
    + inversion IHr as [|? ? Hy _]; subst. simpl in Hy. simpl.
      rewrite IHx by exact Cx. rewrite Hy by exact Cr. reflexivity.
Qed.

(* the shape of the rewriting on a chain of three and of four operands *)
Lemma desugar_chain3 : forall a b c op1 op2,
  desugar (ECmp (EName a) [(op1, EName b); (op2, EName c)]) =
  EAnd (ECmp (EName a) [(op1, EName b)]) [ECmp (EName b) [(op2, EName c)]].
Proof. reflexivity. Qed.

(* the read sequence of a chain of three names whose first comparison holds: a b b c *)
Lemma chain3_reads : forall rho a b c op1 op2,
  py_cmp op1 (rho a) (rho b) = Some true ->
  snd (eval_closure rho (build (ECmp (EName a) [(op1, EName b); (op2, EName c)]))) = [a; b; b; c].
Proof.
  intros rho a b c op1 op2 H. rewrite build_is_python_of_desugared, desugar_chain3.
  simpl. rewrite H. simpl. destruct (py_cmp op2 (rho b) (rho c)) as [[|]|]; reflexivity.
Qed.

(* ... and a b when it does not (the second comparison is not evaluated) *)
Lemma chain3_reads_short : forall rho a b c op1 op2,
  py_cmp op1 (rho a) (rho b) = Some false ->
  eval_closure rho (build (ECmp (EName a) [(op1, EName b); (op2, EName c)])) = (EV (VBool false), [a; b]).
Proof.
  intros rho a b c op1 op2 H. rewrite build_is_python_of_desugared, desugar_chain3.
  simpl. rewrite H. reflexivity.
Qed.
