(* C07: handing inspect's BoundArguments.args / .kwargs back to CPython's call binding re-creates
   the bound arguments (for well-formed bound arguments), or fails with "missing required argument"
   exactly when a parameter without default is unbound. *)
From Coq Require Import List Arith Bool Lia.
Import ListNotations.
From PySM Require Import Impl.Signature Spec.CallSpec.

(* ---------- association lists ---------- *)
Lemma arg_lookup_app n a b :
  arg_lookup n (a ++ b) = match arg_lookup n a with Some x => Some x | None => arg_lookup n b end.
Proof.
  induction a as [|[m v] a IH]; simpl; auto. destruct (Nat.eqb n m); auto.
Qed.

Definition toB (nv : nat * nat) : nat * bval := (fst nv, BOne (snd nv)).

Lemma arg_lookup_toB_none n K : ~ In n (map fst K) -> arg_lookup n (map toB K) = None.
Proof.
  induction K as [|[m v] K IH]; simpl; auto. intros H.
  destruct (Nat.eqb n m) eqn:E. { apply Nat.eqb_eq in E. subst. exfalso. apply H. now left. }
  apply IH. intros H1. apply H. now right.
Qed.

(* ---------- signatures ---------- *)
Lemma names_distinct_tail p r : names_distinct (p :: r) = true -> names_distinct r = true.
Proof. simpl. intros H. apply andb_true_iff in H. tauto. Qed.

Lemma names_distinct_head p r q :
  names_distinct (p :: r) = true -> In q r -> Nat.eqb (p_name q) (p_name p) = false.
Proof.
  simpl. intros H Hq. apply andb_true_iff in H. destruct H as [H _].
  apply negb_true_iff in H. destruct (Nat.eqb (p_name q) (p_name p)) eqn:E; auto.
  apply Nat.eqb_eq in E. assert (X : existsb (fun q0 => Nat.eqb (p_name p) (p_name q0)) r = true).
  { apply existsb_exists. exists q. split; auto. apply Nat.eqb_eq. auto. }
  congruence.
Qed.

Lemma find_param_in sig : names_distinct sig = true -> forall p, In p sig -> find_param (p_name p) sig = Some p.
Proof.
  induction sig as [|q r IH]; intros D p Hp; [contradiction|].
  unfold find_param in *. simpl. destruct Hp as [->|Hp].
  - rewrite Nat.eqb_refl. reflexivity.
  - destruct (Nat.eqb (p_name q) (p_name p)) eqn:E.
    + apply Nat.eqb_eq in E. pose proof (names_distinct_head q r p D Hp) as X.
      rewrite E, Nat.eqb_refl in X. discriminate.
    + apply IH; auto. eapply names_distinct_tail; eauto.
Qed.

Lemma shape_kwonly_no_positional r : shape_kwonly r = true -> forall q, In q r -> p_kind q = KwOnly \/ p_kind q = VarKw.
Proof.
  induction r as [|p r IH]; simpl; intros S q []; subst.
  - destruct (p_kind q); auto; discriminate.
  - destruct (p_kind p); try discriminate; auto. destruct r; [contradiction|discriminate].
Qed.

Section RoundTrip.
Variable B : arguments.
Notation lk n := (arg_lookup n B).

(* the leading positional parameters that are bound, as CPython assigns them from positional values *)
Fixpoint lead (ps : list param) : arguments :=
  match ps with
  | p :: r => if is_positional p
              then match lk (p_name p) with Some (BOne v) => (p_name p, BOne v) :: lead r | _ => [] end
              else []
  | [] => []
  end.

(* the positional surplus that reaches *args *)
Fixpoint star (ps : list param) : list nat :=
  match ps with
  | p :: r => if is_positional p
              then match lk (p_name p) with Some (BOne _) => star r | _ => [] end
              else match p_kind p with
                   | VarPos => match lk (p_name p) with Some (BTuple l) => l | _ => [] end
                   | _ => []
                   end
  | [] => []
  end.

Definition typed_on (ps : list param) : Prop :=
  forall p b, In p ps -> lk (p_name p) = Some b -> typed p b.

Lemma typed_on_tail p r : typed_on (p :: r) -> typed_on r.
Proof. intros H q b Hq. apply H. now right. Qed.

Lemma ba_args_kwonly r : shape_kwonly r = true -> ba_args r B = [].
Proof. destruct r as [|p r]; simpl; auto. destruct (p_kind p); auto; discriminate. Qed.

Lemma call_pos_ba : forall ps acc, shape ps = true -> typed_on ps ->
  exists ps', call_pos ps (ba_args ps B) acc = (acc ++ lead ps, star ps, ps').
Proof.
  induction ps as [|p r IH]; intros acc S T.
  - simpl. exists []. rewrite app_nil_r. reflexivity.
  - pose proof (T p) as Tp. specialize (Tp) with (1 := or_introl eq_refl).
    simpl ba_args. simpl lead. simpl star. unfold is_positional in *. simpl in S.
    destruct (p_kind p) eqn:K.
    + (* PosOnly *)
      destruct (lk (p_name p)) as [[v|l|d]|] eqn:L.
      * simpl. unfold is_positional. rewrite K.
        destruct (IH (acc ++ [(p_name p, BOne v)]) S (typed_on_tail _ _ T)) as [ps' E].
        exists ps'. rewrite E. rewrite <- app_assoc. reflexivity.
      * specialize (Tp _ eq_refl). unfold typed in Tp. rewrite K in Tp. contradiction.
      * specialize (Tp _ eq_refl). unfold typed in Tp. rewrite K in Tp. contradiction.
      * simpl. exists (p :: r). rewrite app_nil_r. reflexivity.
    + destruct (lk (p_name p)) as [[v|l|d]|] eqn:L.
      * simpl. unfold is_positional. rewrite K.
        destruct (IH (acc ++ [(p_name p, BOne v)]) S (typed_on_tail _ _ T)) as [ps' E].
        exists ps'. rewrite E. rewrite <- app_assoc. reflexivity.
      * specialize (Tp _ eq_refl). unfold typed in Tp. rewrite K in Tp. contradiction.
      * specialize (Tp _ eq_refl). unfold typed in Tp. rewrite K in Tp. contradiction.
      * simpl. exists (p :: r). rewrite app_nil_r. reflexivity.
    + (* VarPos *)
      destruct (lk (p_name p)) as [[v|l|d]|] eqn:L.
      * specialize (Tp _ eq_refl). unfold typed in Tp. rewrite K in Tp. contradiction.
      * rewrite (ba_args_kwonly r S), app_nil_r. exists (p :: r).
        destruct l as [|a l]; simpl; rewrite ?app_nil_r; auto.
        unfold is_positional. rewrite K. reflexivity.
      * specialize (Tp _ eq_refl). unfold typed in Tp. rewrite K in Tp. contradiction.
      * simpl. exists (p :: r). rewrite app_nil_r. reflexivity.
    + simpl. exists (p :: r). rewrite app_nil_r. reflexivity.
    + simpl. exists (p :: r). rewrite app_nil_r. reflexivity.
Qed.

(* ---------- the keywords: named parameters, then the **kwargs dict ---------- *)
Fixpoint kwe (ps : list param) (started : bool) : kwmap :=
  match ps with
  | [] => []
  | p :: r =>
      match p_kind p with
      | VarKw => kwe r true
      | KwOnly => match lk (p_name p) with Some (BOne v) => (p_name p, v) :: kwe r true | _ => kwe r true end
      | VarPos => kwe r (if started then true else match lk (p_name p) with Some _ => false | None => true end)
      | _ => match lk (p_name p) with
             | Some (BOne v) => if started then (p_name p, v) :: kwe r true else kwe r false
             | Some _ => kwe r started
             | None => kwe r true
             end
      end
  end.

Fixpoint dict_of (ps : list param) : kwmap :=
  match ps with
  | [] => []
  | p :: r => match p_kind p with
              | VarKw => match lk (p_name p) with Some (BDict d) => d | _ => [] end
              | _ => dict_of r
              end
  end.

Lemma shape_of_kwonly r : shape_kwonly r = true -> shape r = true.
Proof. destruct r as [|p r]; simpl; auto. destruct (p_kind p); auto; discriminate. Qed.

Lemma shape_tail p r : shape (p :: r) = true -> shape r = true.
Proof.
  simpl. destruct (p_kind p); auto using shape_of_kwonly.
  destruct r; [reflexivity|discriminate].
Qed.

Ltac ill_typed Tp K := exfalso; specialize (Tp _ eq_refl); unfold typed in Tp; rewrite K in Tp; exact Tp.

Lemma ba_kwargs_split : forall ps s, shape ps = true -> typed_on ps ->
  ba_kwargs ps B s = kwe ps s ++ dict_of ps.
Proof.
  induction ps as [|p r IH]; intros s S T; [reflexivity|].
  pose proof (T p) as Tp. specialize (Tp) with (1 := or_introl eq_refl).
  pose proof (shape_tail _ _ S) as Sr. pose proof (typed_on_tail _ _ T) as Tr.
  simpl ba_kwargs. simpl kwe. simpl dict_of. simpl in S.
  destruct (p_kind p) eqn:K.
  - destruct (lk (p_name p)) as [[v|l|d]|] eqn:L; try (ill_typed Tp K); destruct s; simpl; rewrite ?IH; auto.
  - destruct (lk (p_name p)) as [[v|l|d]|] eqn:L; try (ill_typed Tp K); destruct s; simpl; rewrite ?IH; auto.
  - destruct (lk (p_name p)) as [[v|l|d]|] eqn:L; try (ill_typed Tp K); destruct s; simpl; rewrite ?IH; auto.
  - destruct (lk (p_name p)) as [[v|l|d]|] eqn:L; try (ill_typed Tp K); destruct s; simpl; rewrite ?IH; auto.
  - assert (r = []) as -> by (destruct r; auto; discriminate).
    destruct (lk (p_name p)) as [[v|l|d]|] eqn:L; try (ill_typed Tp K); destruct s; simpl; rewrite ?app_nil_r; auto.
Qed.

Definition noPO (ps : list param) : Prop := forall q, In q ps -> p_kind q = PosOnly -> lk (p_name q) = None.

Lemma noPO_tail p r : noPO (p :: r) -> noPO r.
Proof. intros H q Hq. apply H. now right. Qed.

Lemma noPO_kwonly r : shape_kwonly r = true -> noPO r.
Proof. intros S q Hq K. destruct (shape_kwonly_no_positional r S q Hq); congruence. Qed.

Lemma prefix_closed_tail p r : prefix_closed (p :: r) B -> prefix_closed r B.
Proof. intros H P q T E. apply (H (p :: P) q T). simpl. rewrite E. reflexivity. Qed.

Lemma prefix_closed_absent p r : prefix_closed (p :: r) B -> is_positional p = true -> lk (p_name p) = None ->
  forall q, In q r -> (p_kind q = PosOnly \/ p_kind q = VarPos) -> lk (p_name q) = None.
Proof. intros H. apply (H [] p r). reflexivity. Qed.

Lemma kwe_names : forall ps s n, In n (map fst (kwe ps s)) -> exists p, In p ps /\ p_name p = n.
Proof.
  induction ps as [|p r IH]; intros s n H; [contradiction|]. simpl in H.
  assert (X : forall s', In n (map fst (kwe r s')) -> exists q, In q (p :: r) /\ p_name q = n).
  { intros s' H'. destruct (IH _ _ H') as [q [Hq E]]. exists q. split; auto. now right. }
  destruct (p_kind p); destruct (lk (p_name p)) as [[v|l|d]|]; try destruct s; simpl in H; eauto;
    destruct H as [<-|H]; eauto; exists p; split; auto; now left.
Qed.

Lemma kwe_entries : forall ps s, shape ps = true -> typed_on ps -> prefix_closed ps B -> (s = true -> noPO ps) ->
  forall n v, In (n, v) (kwe ps s) ->
    exists p, In p ps /\ p_name p = n /\ (p_kind p = PosOrKw \/ p_kind p = KwOnly) /\ lk n = Some (BOne v).
Proof.
  induction ps as [|p r IH]; intros s S T PC NP n v H; [contradiction|].
  pose proof (T p) as Tp. specialize (Tp) with (1 := or_introl eq_refl).
  pose proof (shape_tail _ _ S) as Sr. pose proof (typed_on_tail _ _ T) as Tr.
  pose proof (prefix_closed_tail _ _ PC) as PCr.
  assert (X : forall s', (s' = true -> noPO r) -> In (n, v) (kwe r s') ->
            exists q, In q (p :: r) /\ p_name q = n /\ (p_kind q = PosOrKw \/ p_kind q = KwOnly) /\ lk n = Some (BOne v)).
  { intros s' N' H'. destruct (IH s' Sr Tr PCr N' _ _ H') as [q [Hq E]]. exists q. split; auto. now right. }
  simpl in H. simpl in S. destruct (p_kind p) eqn:K.
  - (* PosOnly *)
    destruct (lk (p_name p)) as [[w|l|d]|] eqn:L; try (ill_typed Tp K).
    + destruct s.
      * pose proof (NP eq_refl p (or_introl eq_refl) K). congruence.
      * apply (X false); auto. discriminate.
    + apply (X true); auto. intros _ q Hq Kq.
      apply (prefix_closed_absent p r PC); auto. unfold is_positional. rewrite K. reflexivity.
  - (* PosOrKw *)
    destruct (lk (p_name p)) as [[w|l|d]|] eqn:L; try (ill_typed Tp K).
    + destruct s.
      * destruct H as [H|H].
        -- inversion H; subst. exists p. repeat split; auto. now left.
        -- apply (X true); auto. intros _. apply noPO_tail with p. auto.
      * apply (X false); auto. discriminate.
    + apply (X true); auto. intros _ q Hq Kq.
      apply (prefix_closed_absent p r PC); auto. unfold is_positional. rewrite K. reflexivity.
  - (* VarPos *)
    eapply X; eauto. intros _. apply noPO_kwonly. exact S.
  - (* KwOnly *)
    destruct (lk (p_name p)) as [[w|l|d]|] eqn:L; try (ill_typed Tp K).
    + destruct H as [H|H].
      * inversion H; subst. exists p. repeat split; auto. now left.
      * apply (X true); auto. intros _. apply noPO_kwonly. exact S.
    + apply (X true); auto. intros _. apply noPO_kwonly. exact S.
  - assert (r = []) as -> by (destruct r; auto; discriminate). simpl in H. contradiction.
Qed.

Lemma kwe_nodup : forall ps s, names_distinct ps = true -> NoDup (map fst (kwe ps s)).
Proof.
  induction ps as [|p r IH]; intros s D; [constructor|].
  pose proof (names_distinct_tail _ _ D) as Dr.
  assert (Fresh : forall s', ~ In (p_name p) (map fst (kwe r s'))).
  { intros s' H. destruct (kwe_names _ _ _ H) as [q [Hq E]].
    pose proof (names_distinct_head p r q D Hq) as X. rewrite E, Nat.eqb_refl in X. discriminate. }
  simpl. destruct (p_kind p); destruct (lk (p_name p)) as [[v|l|d]|]; try destruct s; simpl; auto;
    constructor; auto.
Qed.

Lemma lead_names : forall ps n b, arg_lookup n (lead ps) = Some b -> exists p, In p ps /\ p_name p = n /\ is_positional p = true.
Proof.
  induction ps as [|p r IH]; intros n b H; [discriminate|]. simpl in H.
  destruct (is_positional p) eqn:IP; [|discriminate].
  destruct (lk (p_name p)) as [[v|l|d]|]; try discriminate. simpl in H.
  destruct (Nat.eqb n (p_name p)) eqn:E.
  - apply Nat.eqb_eq in E. exists p. repeat split; auto. now left.
  - destruct (IH _ _ H) as [q [Hq X]]. exists q. split; [now right|exact X].
Qed.

Lemma kwe_not_in_lead : forall ps, names_distinct ps = true ->
  forall n, In n (map fst (kwe ps false)) -> arg_lookup n (lead ps) = None.
Proof.
  induction ps as [|p r IH]; intros D n H; [reflexivity|].
  pose proof (names_distinct_tail _ _ D) as Dr. simpl in *.
  destruct (is_positional p) eqn:IP; [|reflexivity].
  unfold is_positional in IP.
  destruct (lk (p_name p)) as [[v|l|d]|] eqn:L; try reflexivity.
  destruct (p_kind p) eqn:K; try discriminate; simpl.
  - destruct (kwe_names _ _ _ H) as [q [Hq E]].
    pose proof (names_distinct_head p r q D Hq) as X. rewrite E in X. rewrite X. apply IH; auto.
  - destruct (kwe_names _ _ _ H) as [q [Hq E]].
    pose proof (names_distinct_head p r q D Hq) as X. rewrite E in X. rewrite X. apply IH; auto.
Qed.

(* ---------- CPython's keyword loop on these keywords ---------- *)
Lemma call_kw_named sig hv : forall Kp K' acc extra,
  (forall n v, In (n, v) Kp -> exists p, find_param n sig = Some p /\ (p_kind p = PosOrKw \/ p_kind p = KwOnly)) ->
  NoDup (map fst Kp) -> (forall n, In n (map fst Kp) -> arg_lookup n acc = None) ->
  call_kw sig hv (Kp ++ K') acc extra = call_kw sig hv K' (acc ++ map toB Kp) extra.
Proof.
  induction Kp as [|[n v] Kp IH]; intros K' acc extra HK ND HA.
  - simpl. rewrite app_nil_r. reflexivity.
  - simpl. destruct (HK n v (or_introl eq_refl)) as [p [F Kd]]. rewrite F.
    inversion ND as [|x l Hn ND']; subst.
    assert (A : arg_lookup n acc = None) by (apply HA; now left).
    assert (Step : call_kw sig hv (Kp ++ K') (acc ++ [(n, BOne v)]) extra
                   = call_kw sig hv K' ((acc ++ [(n, BOne v)]) ++ map toB Kp) extra).
    { apply IH; auto.
      - intros m w Hm. apply (HK m w). now right.
      - intros m Hm. rewrite arg_lookup_app. rewrite (HA m (or_intror Hm)). simpl.
        destruct (Nat.eqb m n) eqn:E; auto. apply Nat.eqb_eq in E. subst. contradiction. }
    rewrite <- app_assoc in Step. simpl in Step.
    destruct Kd as [Kd|Kd]; rewrite Kd, A; exact Step.
Qed.

Lemma call_kw_extra sig : forall Kd hv acc extra,
  (Kd = [] \/ hv = true) ->
  (forall n v, In (n, v) Kd -> forall q, find_param n sig = Some q -> p_kind q <> PosOrKw /\ p_kind q <> KwOnly) ->
  call_kw sig hv Kd acc extra = inl (Some (acc, extra ++ Kd)).
Proof.
  induction Kd as [|[n v] Kd IH]; intros hv acc extra Hv HK.
  - simpl. rewrite app_nil_r. reflexivity.
  - destruct Hv as [Hv|Hv]; [discriminate|]. subst hv. simpl.
    assert (Step : call_kw sig true Kd acc (extra ++ [(n, v)]) = inl (Some (acc, extra ++ (n, v) :: Kd))).
    { rewrite IH; auto. - rewrite <- app_assoc. reflexivity. - intros m w Hm. apply (HK m w). now right. }
    destruct (find_param n sig) as [q|] eqn:F; [|exact Step].
    destruct (HK n v (or_introl eq_refl) q F) as [N1 N2].
    destruct (p_kind q); try exact Step; congruence.
Qed.

(* ---------- *args and **kwargs ---------- *)
Definition is_varpos (p : param) := kind_eqb (p_kind p) VarPos.
Definition is_varkw (p : param) := kind_eqb (p_kind p) VarKw.

Lemma find_varpos_unique sig : shape sig = true -> forall p, In p sig -> p_kind p = VarPos -> find is_varpos sig = Some p.
Proof.
  induction sig as [|q r IH]; intros S p Hp K; [contradiction|]. simpl in S. simpl. unfold is_varpos at 1.
  destruct Hp as [->|Hp].
  - rewrite K. reflexivity.
  - destruct (p_kind q) eqn:Kq; simpl; try (apply IH; auto);
      try (destruct (shape_kwonly_no_positional r S p Hp); congruence).
    assert (r = []) as -> by (destruct r; auto; discriminate). contradiction.
Qed.

Lemma find_varkw_unique sig : shape sig = true -> forall p, In p sig -> p_kind p = VarKw -> find is_varkw sig = Some p.
Proof.
  induction sig as [|q r IH]; intros S p Hp K; [contradiction|]. simpl. unfold is_varkw at 1.
  destruct Hp as [->|Hp].
  - rewrite K. reflexivity.
  - pose proof (shape_tail _ _ S) as Sr. simpl in S.
    destruct (p_kind q) eqn:Kq; simpl; try (apply IH; auto).
    assert (r = []) as -> by (destruct r; auto; discriminate). contradiction.
Qed.

Lemma find_kind_in (f : param -> bool) sig p : find f sig = Some p -> In p sig /\ f p = true.
Proof. apply find_some. Qed.

Lemma star_spec : forall ps, shape ps = true -> typed_on ps -> prefix_closed ps B ->
  forall p, In p ps -> p_kind p = VarPos -> star ps = match lk (p_name p) with Some (BTuple l) => l | _ => [] end.
Proof.
  induction ps as [|q r IH]; intros S T PC p Hp K; [contradiction|].
  pose proof (T q) as Tq. specialize (Tq) with (1 := or_introl eq_refl).
  pose proof (shape_tail _ _ S) as Sr. simpl in S. simpl. unfold is_positional.
  destruct Hp as [->|Hp].
  - rewrite K. reflexivity.
  - destruct (p_kind q) eqn:Kq;
      try (destruct (shape_kwonly_no_positional r S p Hp); congruence).
    + destruct (lk (p_name q)) as [[v|l|d]|] eqn:L; try (ill_typed Tq Kq).
      * apply IH; auto. eapply typed_on_tail; eauto. eapply prefix_closed_tail; eauto.
      * rewrite (prefix_closed_absent q r PC); auto. unfold is_positional. rewrite Kq. reflexivity.
    + destruct (lk (p_name q)) as [[v|l|d]|] eqn:L; try (ill_typed Tq Kq).
      * apply IH; auto. eapply typed_on_tail; eauto. eapply prefix_closed_tail; eauto.
      * rewrite (prefix_closed_absent q r PC); auto. unfold is_positional. rewrite Kq. reflexivity.
    + assert (r = []) as -> by (destruct r; auto; discriminate). contradiction.
Qed.

Lemma star_needs_varpos : forall ps, star ps <> [] -> exists p, find is_varpos ps = Some p.
Proof.
  induction ps as [|q r IH]; intros H; [exfalso; apply H; reflexivity|]. simpl in *. unfold is_varpos at 1.
  unfold is_positional in H. destruct (p_kind q) eqn:K; simpl; eauto.
  - destruct (lk (p_name q)) as [[v|l|d]|]; try (exfalso; apply H; reflexivity). apply IH. exact H.
  - destruct (lk (p_name q)) as [[v|l|d]|]; try (exfalso; apply H; reflexivity). apply IH. exact H.
Qed.

Lemma dict_of_spec : forall ps, shape ps = true ->
  forall p, In p ps -> p_kind p = VarKw -> dict_of ps = match lk (p_name p) with Some (BDict d) => d | _ => [] end.
Proof.
  induction ps as [|q r IH]; intros S p Hp K; [contradiction|]. pose proof (shape_tail _ _ S) as Sr.
  simpl in S. simpl. destruct Hp as [->|Hp].
  - rewrite K. reflexivity.
  - destruct (p_kind q) eqn:Kq; try (apply IH; auto).
    assert (r = []) as -> by (destruct r; auto; discriminate). contradiction.
Qed.

Lemma dict_of_source : forall ps n v, In (n, v) (dict_of ps) ->
  exists p d, In p ps /\ p_kind p = VarKw /\ lk (p_name p) = Some (BDict d) /\ In (n, v) d.
Proof.
  induction ps as [|q r IH]; intros n v H; [contradiction|]. simpl in H.
  destruct (p_kind q) eqn:Kq;
    try (destruct (IH _ _ H) as [p [d [Hp X]]]; exists p, d; split; [now right|exact X]).
  destruct (lk (p_name q)) as [[w|l|d]|] eqn:L; try contradiction.
  exists q, d. repeat split; auto. now left.
Qed.

(* ---------- what the call assigns ---------- *)
Definition vp_entry (sig : list param) : arguments :=
  match find is_varpos sig with Some p => [(p_name p, BTuple (star sig))] | None => [] end.
Definition vk_entry (sig : list param) : arguments :=
  match find is_varkw sig with Some p => [(p_name p, BDict (dict_of sig))] | None => [] end.

Definition rebuilt (sig : list param) : arguments :=
  ((lead sig ++ vp_entry sig) ++ map toB (kwe sig false)) ++ vk_entry sig.

Lemma same_name_same_param sig p q :
  names_distinct sig = true -> In p sig -> In q sig -> p_name p = p_name q -> p = q.
Proof.
  intros D Hp Hq E. pose proof (find_param_in sig D p Hp) as X. pose proof (find_param_in sig D q Hq) as Y.
  rewrite E in X. congruence.
Qed.

Theorem py_call_rebuilt sig :
  shape sig = true -> names_distinct sig = true -> WB sig B ->
  py_call sig (ba_args sig B) (ba_kwargs sig B false) =
    if missing sig (rebuilt sig) then CallTypeError 4 else Assigned (rebuilt sig).
Proof.
  intros S D [T PC WD].
  unfold py_call. destruct (call_pos_ba sig [] S T) as [ps' E]. rewrite E. simpl app.
  rewrite (ba_kwargs_split sig false S T).
  change (fun p => kind_eqb (p_kind p) VarPos) with is_varpos.
  change (fun p => kind_eqb (p_kind p) VarKw) with is_varkw.
  assert (NoErr1 : match star sig, find is_varpos sig with _ :: _, None => False | _, _ => True end).
  { destruct (star sig) eqn:Es; auto. destruct (star_needs_varpos sig) as [p F]; [rewrite Es; discriminate|].
    rewrite F. exact I. }
  set (acc1 := match find is_varpos sig with Some p => lead sig ++ [(p_name p, BTuple (star sig))] | None => lead sig end).
  assert (Eacc1 : acc1 = lead sig ++ vp_entry sig).
  { unfold acc1, vp_entry. destruct (find is_varpos sig); auto. rewrite app_nil_r. reflexivity. }
  set (hv := match find is_varkw sig with Some _ => true | None => false end).
  assert (Ekw : call_kw sig hv (kwe sig false ++ dict_of sig) acc1 [] =
                inl (Some (acc1 ++ map toB (kwe sig false), dict_of sig))).
  { rewrite call_kw_named.
    - rewrite call_kw_extra; auto.
      + destruct (dict_of sig) as [|[n v] dd] eqn:Ed; auto. right.
        destruct (dict_of_source sig n v) as [p [d [Hp [K _]]]]; [rewrite Ed; now left|].
        unfold hv. rewrite (find_varkw_unique sig S p Hp K). reflexivity.
      + intros n v Hn q F. destruct (dict_of_source sig n v Hn) as [p [d [Hp [K [L Hd]]]]].
        unfold find_param in F. apply find_some in F. destruct F as [Hq Eq]. apply Nat.eqb_eq in Eq.
        exact (WD p d Hp K L n v q Hd Hq Eq).
    - intros n v Hn. destruct (kwe_entries sig false S T PC (fun X => ltac:(discriminate)) n v Hn) as [p [Hp [En [K _]]]].
      exists p. split; auto. rewrite <- En. apply find_param_in; auto.
    - apply kwe_nodup; auto.
    - intros n Hn. rewrite Eacc1, arg_lookup_app, (kwe_not_in_lead sig D n Hn).
      unfold vp_entry. destruct (find is_varpos sig) as [vp|] eqn:F; auto. simpl.
      destruct (Nat.eqb n (p_name vp)) eqn:En; auto. exfalso. apply Nat.eqb_eq in En.
      apply in_map_iff in Hn. destruct Hn as [[n' v] [X Hn]]. simpl in X. subst n'.
      destruct (kwe_entries sig false S T PC (fun X => ltac:(discriminate)) n v Hn) as [p [Hp [Ep [K _]]]].
      apply find_some in F. destruct F as [Hvp Kvp]. unfold is_varpos in Kvp.
      assert (p = vp) by (eapply same_name_same_param; eauto; congruence). subst p.
      destruct K as [K|K]; rewrite K in Kvp; discriminate. }
  assert (Final : rebuilt sig = match find is_varkw sig with
                                | Some p => (acc1 ++ map toB (kwe sig false)) ++ [(p_name p, BDict (dict_of sig))]
                                | None => acc1 ++ map toB (kwe sig false) end).
  { unfold rebuilt, vk_entry. rewrite Eacc1. destruct (find is_varkw sig); auto. rewrite app_nil_r. reflexivity. }
  fold acc1. fold hv.
  destruct (star sig) as [|a l] eqn:Es.
  - rewrite Ekw. rewrite Final. reflexivity.
  - destruct (find is_varpos sig) eqn:F; [|contradiction]. rewrite Ekw. rewrite Final. reflexivity.
Qed.

(* ---------- every parameter finds its value ---------- *)
Lemma lead_kwonly r : shape_kwonly r = true -> lead r = [].
Proof. destruct r as [|p r]; simpl; auto. unfold is_positional. destruct (p_kind p); auto; discriminate. Qed.

Lemma core_lookup : forall ps s, shape ps = true -> names_distinct ps = true -> typed_on ps ->
  prefix_closed ps B -> (s = true -> noPO ps) ->
  forall p, In p ps -> p_kind p <> VarPos -> p_kind p <> VarKw ->
    arg_lookup (p_name p) ((if s then [] else lead ps) ++ map toB (kwe ps s)) = lk (p_name p).
Proof.
  induction ps as [|q r IH]; intros s S D T PC NP p Hp N1 N2; [contradiction|].
  pose proof (T q) as Tq. specialize (Tq) with (1 := or_introl eq_refl).
  pose proof (shape_tail _ _ S) as Sr. pose proof (typed_on_tail _ _ T) as Tr.
  pose proof (prefix_closed_tail _ _ PC) as PCr. pose proof (names_distinct_tail _ _ D) as Dr.
  assert (F1 : forall p', In p' r -> Nat.eqb (p_name p') (p_name q) = false)
    by (intros p' Hp'; eapply names_distinct_head; eauto).
  assert (F2 : forall s', arg_lookup (p_name q) (map toB (kwe r s')) = None).
  { intros s'. apply arg_lookup_toB_none. intros H. destruct (kwe_names _ _ _ H) as [q' [Hq' E]].
    pose proof (F1 q' Hq') as X. rewrite E, Nat.eqb_refl in X. discriminate. }
  assert (IHt : noPO r -> forall p', In p' r -> p_kind p' <> VarPos -> p_kind p' <> VarKw ->
                arg_lookup (p_name p') (map toB (kwe r true)) = lk (p_name p')).
  { intros NPr p' Hp' M1 M2. exact (IH true Sr Dr Tr PCr (fun _ => NPr) p' Hp' M1 M2). }
  assert (IHf : forall p', In p' r -> p_kind p' <> VarPos -> p_kind p' <> VarKw ->
                arg_lookup (p_name p') (lead r ++ map toB (kwe r false)) = lk (p_name p')).
  { intros p' Hp' M1 M2. exact (IH false Sr Dr Tr PCr (fun X => ltac:(discriminate)) p' Hp' M1 M2). }
  simpl in S. simpl lead. simpl kwe. unfold is_positional.
  destruct (p_kind q) eqn:K.
  - (* PosOnly *)
    destruct (lk (p_name q)) as [[v|l|d]|] eqn:L; try (ill_typed Tq K).
    + destruct s.
      * pose proof (NP eq_refl q (or_introl eq_refl) K). congruence.
      * destruct Hp as [->|Hp]; simpl.
        -- rewrite Nat.eqb_refl. auto.
        -- rewrite (F1 p Hp). apply IHf; auto.
    + assert (NPr : noPO r).
      { intros q' Hq' Kq'. apply (prefix_closed_absent q r PC); auto. unfold is_positional. rewrite K. reflexivity. }
      assert (E : (if s then [] else @nil (nat * bval)) ++ map toB (kwe r true) = map toB (kwe r true)) by (destruct s; reflexivity).
      rewrite E. destruct Hp as [->|Hp].
      * rewrite F2. auto.
      * apply IHt; auto.
  - (* PosOrKw *)
    destruct (lk (p_name q)) as [[v|l|d]|] eqn:L; try (ill_typed Tq K).
    + destruct s.
      * destruct Hp as [->|Hp]; simpl.
        -- rewrite Nat.eqb_refl. auto.
        -- rewrite (F1 p Hp). apply IHt; auto. apply noPO_tail with q. auto.
      * destruct Hp as [->|Hp]; simpl.
        -- rewrite Nat.eqb_refl. auto.
        -- rewrite (F1 p Hp). apply IHf; auto.
    + assert (NPr : noPO r).
      { intros q' Hq' Kq'. apply (prefix_closed_absent q r PC); auto. unfold is_positional. rewrite K. reflexivity. }
      assert (E : (if s then [] else @nil (nat * bval)) ++ map toB (kwe r true) = map toB (kwe r true)) by (destruct s; reflexivity).
      rewrite E. destruct Hp as [->|Hp].
      * rewrite F2. auto.
      * apply IHt; auto.
  - (* VarPos *)
    destruct Hp as [->|Hp]; [congruence|].
    assert (E : forall fl, (if s then [] else @nil (nat * bval)) ++ map toB (kwe r fl)
                           = (if fl then [] else lead r) ++ map toB (kwe r fl)).
    { intros fl. rewrite (lead_kwonly r S). destruct s, fl; reflexivity. }
    rewrite E. apply IH; auto. intros _. apply noPO_kwonly. exact S.
  - (* KwOnly *)
    assert (NPr : noPO r) by (apply noPO_kwonly; exact S).
    assert (E : forall X, (if s then [] else @nil (nat * bval)) ++ X = X) by (destruct s; reflexivity).
    rewrite E.
    destruct (lk (p_name q)) as [[v|l|d]|] eqn:L; try (ill_typed Tq K).
    + destruct Hp as [->|Hp]; simpl.
      * rewrite Nat.eqb_refl. auto.
      * rewrite (F1 p Hp). apply IHt; auto.
    + destruct Hp as [->|Hp].
      * rewrite F2. auto.
      * apply IHt; auto.
  - destruct Hp as [->|Hp]; [congruence|].
    assert (r = []) as -> by (destruct r; auto; discriminate). contradiction.
Qed.

Lemma lookup_around n a vpe k vke :
  arg_lookup n vpe = None -> arg_lookup n vke = None ->
  arg_lookup n (((a ++ vpe) ++ k) ++ vke) = arg_lookup n (a ++ k).
Proof.
  intros H1 H2. rewrite !arg_lookup_app, H1, H2.
  destruct (arg_lookup n a); auto. destruct (arg_lookup n k); auto.
Qed.

Lemma rebuilt_lookup sig : shape sig = true -> names_distinct sig = true -> WB sig B ->
  forall p, In p sig -> arg_lookup (p_name p) (rebuilt sig) = received p B.
Proof.
  intros S D [T PC WD] p Hp. unfold rebuilt, received.
  assert (NotLead : is_positional p = false -> arg_lookup (p_name p) (lead sig) = None).
  { intros NP. destruct (arg_lookup (p_name p) (lead sig)) eqn:E; auto.
    destruct (lead_names _ _ _ E) as [q [Hq [En Pq]]].
    assert (q = p) by (eapply same_name_same_param; eauto). subst q. congruence. }
  assert (NotKwe : p_kind p <> PosOrKw -> p_kind p <> KwOnly -> arg_lookup (p_name p) (map toB (kwe sig false)) = None).
  { intros M1 M2. apply arg_lookup_toB_none. intros H. apply in_map_iff in H. destruct H as [[n v] [X H]]. simpl in X. subst n.
    destruct (kwe_entries sig false S T PC (fun X => ltac:(discriminate)) _ _ H) as [q [Hq [En [Kq _]]]].
    assert (q = p) by (eapply same_name_same_param; eauto). subst q. tauto. }
  assert (SkipVP : p_kind p <> VarPos -> arg_lookup (p_name p) (vp_entry sig) = None).
  { intros M. unfold vp_entry. destruct (find is_varpos sig) as [vp|] eqn:F; auto. simpl.
    destruct (Nat.eqb (p_name p) (p_name vp)) eqn:E; auto. apply Nat.eqb_eq in E.
    apply find_some in F. destruct F as [Hvp Kvp]. unfold is_varpos in Kvp.
    assert (p = vp) by (eapply same_name_same_param; eauto). subst vp.
    destruct (p_kind p); try discriminate. congruence. }
  assert (SkipVK : p_kind p <> VarKw -> arg_lookup (p_name p) (vk_entry sig) = None).
  { intros M. unfold vk_entry. destruct (find is_varkw sig) as [vk|] eqn:F; auto. simpl.
    destruct (Nat.eqb (p_name p) (p_name vk)) eqn:E; auto. apply Nat.eqb_eq in E.
    apply find_some in F. destruct F as [Hvk Kvk]. unfold is_varkw in Kvk.
    assert (p = vk) by (eapply same_name_same_param; eauto). subst vk.
    destruct (p_kind p); try discriminate. congruence. }
  destruct (p_kind p) eqn:K.
  - rewrite lookup_around; try (apply SkipVP || apply SkipVK; congruence).
    apply (core_lookup sig false S D T PC (fun X => ltac:(discriminate)) p Hp); congruence.
  - rewrite lookup_around; try (apply SkipVP || apply SkipVK; congruence).
    apply (core_lookup sig false S D T PC (fun X => ltac:(discriminate)) p Hp); congruence.
  - (* *args *)
    rewrite !arg_lookup_app. rewrite NotLead by (unfold is_positional; rewrite K; reflexivity).
    unfold vp_entry. rewrite (find_varpos_unique sig S p Hp K). simpl. rewrite Nat.eqb_refl.
    rewrite (star_spec sig S T PC p Hp K).
    pose proof (T p) as Tp. specialize (Tp) with (1 := Hp).
    destruct (lk (p_name p)) as [[v|l|d]|] eqn:L; try (ill_typed Tp K); reflexivity.
  - rewrite lookup_around; try (apply SkipVP || apply SkipVK; congruence).
    apply (core_lookup sig false S D T PC (fun X => ltac:(discriminate)) p Hp); congruence.
  - (* **kwargs *)
    rewrite !arg_lookup_app. rewrite NotLead by (unfold is_positional; rewrite K; reflexivity).
    rewrite SkipVP by congruence. rewrite NotKwe by congruence.
    unfold vk_entry. rewrite (find_varkw_unique sig S p Hp K). simpl. rewrite Nat.eqb_refl.
    rewrite (dict_of_spec sig S p Hp K).
    pose proof (T p) as Tp. specialize (Tp) with (1 := Hp).
    destruct (lk (p_name p)) as [[v|l|d]|] eqn:L; try (ill_typed Tp K); reflexivity.
Qed.

Lemma existsb_ext_in {A} (f g : A -> bool) l : (forall x, In x l -> f x = g x) -> existsb f l = existsb g l.
Proof.
  induction l as [|x l IH]; intros H; simpl; auto.
  rewrite (H x (or_introl eq_refl)), IH; auto. intros y Hy. apply H. now right.
Qed.

Lemma missing_rebuilt sig : shape sig = true -> names_distinct sig = true -> WB sig B ->
  missing sig (rebuilt sig) = missing sig B.
Proof.
  intros S D W. unfold missing. apply existsb_ext_in. intros p Hp.
  pose proof (rebuilt_lookup sig S D W p Hp) as X. unfold received in X.
  destruct (p_kind p); auto; rewrite X; reflexivity.
Qed.

(* the contract of the last step of the adapter: calling the callable with BoundArguments.args and
   .kwargs either fails with "missing required argument" - exactly when a parameter without default
   is unbound - or every declared parameter receives exactly what was bound for it; the star
   parameters receive what was bound for them, or an empty tuple / dict *)
Theorem round_trip sig :
  shape sig = true -> names_distinct sig = true -> WB sig B ->
  (missing sig B = true /\ py_call sig (ba_args sig B) (ba_kwargs sig B false) = CallTypeError 4)
  \/ (missing sig B = false /\ exists A, py_call sig (ba_args sig B) (ba_kwargs sig B false) = Assigned A
        /\ forall p, In p sig -> arg_lookup (p_name p) A = received p B).
Proof.
  intros S D W. rewrite (py_call_rebuilt sig S D W), (missing_rebuilt sig S D W).
  destruct (missing sig B); [left; auto|right]. split; auto.
  exists (rebuilt sig). split; auto. apply rebuilt_lookup; auto.
Qed.

End RoundTrip.
