(* Nothing is stranded also when callbacks fail - with the re-check on the failure path (fix 894918f);
   without it the statement is refuted by a schedule (the one the scheduler reproduced on the real
   engine: deviation D26). *)
From Coq Require Import List Arith Bool Lia.
Import ListNotations.
From PySM Require Import Impl.Conc Impl.ConcFail.

Definition fholds (p : fpc) : bool := match p with FTest | FProc | FRel | FRelF => true | _ => false end.

Record FInv (w : fworld) : Prop := {
  (* the lock is held by exactly the thread that is inside the loop (or unwinding from it) *)
  finv_holder : forall t, fholds (f_pc (fw_threads w t)) = true <-> fw_holder w = Some t;
  (* a non-empty queue always has somebody in charge *)
  finv_charge : fw_queue w <> [] ->
                (exists t, f_pc (fw_threads w t) = FAcq) \/ (exists t, fw_holder w = Some t)
                \/ (exists t, f_pc (fw_threads w t) = FRecheck)
}.

Lemma fupd_same f t s : fupd f t s t = s.
Proof. unfold fupd. rewrite Nat.eqb_refl. reflexivity. Qed.

Lemma fupd_other f t s t' : t' <> t -> fupd f t s t' = f t'.
Proof. intros H. unfold fupd. destruct (Nat.eqb_spec t' t); [contradiction|reflexivity]. Qed.

Lemma finv_init plan : FInv (finit plan).
Proof.
  constructor; simpl.
  - intros t. split; intros H; discriminate.
  - intros H. contradiction.
Qed.

Ltac other t' t N :=
  destruct (Nat.eq_dec t' t) as [->|N]; [rewrite ?fupd_same in *|rewrite ?fupd_other in * by exact N].

Section Fixed.
  Variable fails : event -> bool.

  Lemma finv_step w t : FInv w -> FInv (fstep fails true w t).
  Proof.
    intros I. unfold fstep.
    destruct (f_pc (fw_threads w t)) eqn:P.
    - (* FIdle *)
      destruct (f_todo (fw_threads w t)) as [|e r] eqn:T; [exact I|].
      constructor; simpl.
      + intros t'. other t' t N; simpl.
        * split; [discriminate|]. intros H. apply (finv_holder _ I) in H. rewrite P in H. discriminate.
        * apply (finv_holder _ I).
      + intros _. left. exists t. rewrite fupd_same. reflexivity.
    - (* FAcq *)
      destruct (fw_holder w) as [h|] eqn:H.
      + assert (Nh : h <> t).
        { intros ->. assert (E : fholds (f_pc (fw_threads w t)) = true) by (apply (finv_holder _ I); exact H).
          rewrite P in E. discriminate. }
        constructor; simpl.
        * intros t'. other t' t N; simpl.
          -- split; [discriminate|]. intros E. inversion E. congruence.
          -- rewrite <- H. apply (finv_holder _ I).
        * intros _. right. left. exists h. reflexivity.
      + constructor; simpl.
        * intros t'. other t' t N; simpl.
          -- split; auto.
          -- split; [intros E; apply (finv_holder _ I) in E; congruence|intros E; inversion E; congruence].
        * intros _. right. left. exists t. reflexivity.
    - (* FTest *)
      assert (Ht : fw_holder w = Some t) by (apply (finv_holder _ I); rewrite P; reflexivity).
      destruct (fw_queue w) as [|e q] eqn:Q.
      + constructor; simpl.
        * intros t'. other t' t N; simpl; [split; auto|apply (finv_holder _ I)].
        * intros C. contradiction.
      + constructor; simpl.
        * intros t'. other t' t N; simpl; [split; auto|apply (finv_holder _ I)].
        * intros _. right. left. exists t. exact Ht.
    - (* FProc *)
      assert (Ht : fw_holder w = Some t) by (apply (finv_holder _ I); rewrite P; reflexivity).
      destruct (fails _).
      + constructor; simpl.
        * intros t'. other t' t N; simpl; [split; auto|apply (finv_holder _ I)].
        * intros C. contradiction.
      + constructor; simpl.
        * intros t'. other t' t N; simpl; [split; auto|apply (finv_holder _ I)].
        * intros _. right. left. exists t. exact Ht.
    - (* FRel *)
      assert (Ht : fw_holder w = Some t) by (apply (finv_holder _ I); rewrite P; reflexivity).
      constructor; simpl.
      + intros t'. other t' t N; simpl.
        * split; discriminate.
        * split; [intros E; apply (finv_holder _ I) in E; congruence|discriminate].
      + intros _. right. right. exists t. rewrite fupd_same. reflexivity.
    - (* FRecheck *)
      constructor; simpl.
      + intros t'. other t' t N; simpl.
        * destruct (fw_queue w); simpl; (split; [discriminate|]); intros H; apply (finv_holder _ I) in H; rewrite P in H; discriminate.
        * apply (finv_holder _ I).
      + intros Qn. destruct (fw_queue w) as [|e q] eqn:Q; [contradiction|].
        left. exists t. rewrite fupd_same. reflexivity.
    - (* FRelF: the fixed engine looks at the queue again *)
      assert (Ht : fw_holder w = Some t) by (apply (finv_holder _ I); rewrite P; reflexivity).
      constructor; simpl.
      + intros t'. other t' t N; simpl.
        * split; discriminate.
        * split; [intros E; apply (finv_holder _ I) in E; congruence|discriminate].
      + intros _. right. right. exists t. rewrite fupd_same. reflexivity.
  Qed.

  Lemma finv_run : forall sched w, FInv w -> FInv (frun fails true sched w).
  Proof. induction sched as [|t r IH]; intros w I; simpl; auto. apply IH, finv_step, I. Qed.

  (* once every sender has returned, nothing is left in the queue - whatever fails, whatever the schedule *)
  Theorem nothing_stranded_with_failures plan sched :
    let w := frun fails true sched (finit plan) in
    (forall t, ffinished w t) -> fw_queue w = [].
  Proof.
    intros w F. pose proof (finv_run sched _ (finv_init plan)) as I. fold w in I.
    destruct (fw_queue w) as [|e q] eqn:Q; [reflexivity|exfalso].
    assert (Qn : fw_queue w <> []) by (rewrite Q; discriminate).
    destruct (finv_charge _ I Qn) as [(t & H)|[(t & H)|(t & H)]].
    - destruct (F t) as (Hp & _). congruence.
    - apply (finv_holder _ I) in H. destruct (F t) as (Hp & _). rewrite Hp in H. discriminate.
    - destruct (F t) as (Hp & _). congruence.
  Qed.

  (* and the lock is free *)
  Theorem lock_free_when_all_returned plan sched :
    let w := frun fails true sched (finit plan) in
    (forall t, ffinished w t) -> fw_holder w = None.
  Proof.
    intros w F. pose proof (finv_run sched _ (finv_init plan)) as I. fold w in I.
    destruct (fw_holder w) as [t|] eqn:H; [|reflexivity].
    apply (finv_holder _ I) in H. destruct (F t) as (Hp & _). rewrite Hp in H. discriminate.
  Qed.
End Fixed.

(* before the fix: sender 0's callbacks fail; sender 1 puts its event after the queue was cleared and
   before the lock is released, loses the try-lock and returns; sender 0 releases and re-raises *)
Definition d26_plan : nat -> nat := fun t => if Nat.ltb t 2 then 1 else 0.
Definition d26_fails : event -> bool := fun e => Nat.eqb (fst e) 0.
Definition d26_sched : list nat := [0; 0; 0; 0; 1; 1; 0].

Theorem stranded_without_the_recheck_refuted :
  let w := frun d26_fails false d26_sched (finit d26_plan) in
  (forall t, ffinished w t) /\ fw_queue w = [(1, 0)].
Proof.
  simpl. split; [|vm_compute; reflexivity].
  intros t. unfold ffinished.
  destruct t as [|[|t]]; vm_compute; auto.
Qed.

(* the same schedule on the fixed engine: sender 0 finds the event at its re-check and processes it *)
Example d26_schedule_fixed :
  let w := frun d26_fails true (d26_sched ++ [0; 0; 0; 0; 0; 0]) (finit d26_plan) in
  fw_queue w = [] /\ begun (fw_log w) = [(0, 0); (1, 0)].
Proof. vm_compute. split; reflexivity. Qed.

(* ---------- mutual exclusion also with failing callbacks ---------- *)
From PySM Require Import Proofs.ConcProofs.

Record FLog (w : fworld) : Prop := {
  flog_closed : (forall t, f_pc (fw_threads w t) <> FProc) -> closed (fw_log w);
  flog_open : forall t, f_pc (fw_threads w t) = FProc -> exists e, opened (fw_log w) e t
}.

Lemma flog_init plan : FLog (finit plan).
Proof. constructor; simpl; [intros _; constructor | intros t H; discriminate]. Qed.

Section FixedLog.
  Variable fails : event -> bool.
  Variable fixed : bool.

  (* whoever holds the lock is the only thread that can be inside callbacks *)
  Lemma only_holder_in_proc w t t' :
    FInv w -> fw_holder w = Some t -> f_pc (fw_threads w t') = FProc -> t' = t.
  Proof.
    intros I H P. assert (E : fw_holder w = Some t') by (apply (finv_holder _ I); rewrite P; reflexivity).
    congruence.
  Qed.

  Lemma flog_step w t : FInv w -> FLog w -> FLog (fstep fails fixed w t).
  Proof.
    intros I L. unfold fstep.
    destruct (f_pc (fw_threads w t)) eqn:P.
    - (* FIdle *)
      destruct (f_todo (fw_threads w t)) as [|e r] eqn:T; [exact L|].
      constructor; simpl.
      + intros H. apply (flog_closed _ L). intros t'. specialize (H t'). other t' t N; [rewrite P; discriminate|exact H].
      + intros t' H. other t' t N; [discriminate|]. apply (flog_open _ L). exact H.
    - (* FAcq *)
      destruct (fw_holder w) as [h|] eqn:Hh; constructor; simpl.
      + intros H. apply (flog_closed _ L). intros t'. specialize (H t'). other t' t N; [rewrite P; discriminate|exact H].
      + intros t' H. other t' t N; [discriminate|]. apply (flog_open _ L). exact H.
      + intros H. apply (flog_closed _ L). intros t'. specialize (H t'). other t' t N; [rewrite P; discriminate|exact H].
      + intros t' H. other t' t N; [discriminate|]. apply (flog_open _ L). exact H.
    - (* FTest *)
      assert (Ht : fw_holder w = Some t) by (apply (finv_holder _ I); rewrite P; reflexivity).
      assert (NoProc : forall t', f_pc (fw_threads w t') <> FProc).
      { intros t' E. pose proof (only_holder_in_proc w t t' I Ht E) as ->. congruence. }
      destruct (fw_queue w) as [|e q] eqn:Q; constructor; simpl.
      + intros _. apply (flog_closed _ L). exact NoProc.
      + intros t' H. other t' t N; [discriminate|]. exfalso. eapply NoProc; eauto.
      + intros H. exfalso. apply (H t). rewrite fupd_same. reflexivity.
      + intros t' H. other t' t N.
        * exists e, (fw_log w). split; auto. apply (flog_closed _ L). exact NoProc.
        * exfalso. eapply NoProc; eauto.
    - (* FProc *)
      assert (Ht : fw_holder w = Some t) by (apply (finv_holder _ I); rewrite P; reflexivity).
      destruct (flog_open _ L t P) as (e0 & l0 & Hc & Hl).
      assert (Elast : match rev (fw_log w) with Begin e _ :: _ => e | _ => (0, 0) end = e0).
      { rewrite Hl, last_begin. reflexivity. }
      rewrite Elast.
      assert (Hnew : closed (fw_log w ++ [End e0 t])).
      { rewrite Hl, <- app_assoc. simpl. constructor. exact Hc. }
      destruct (fails e0); constructor; simpl.
      + intros _. exact Hnew.
      + intros t' H. other t' t N; [discriminate|].
        pose proof (only_holder_in_proc w t t' I Ht H). contradiction.
      + intros _. exact Hnew.
      + intros t' H. other t' t N; [discriminate|].
        pose proof (only_holder_in_proc w t t' I Ht H). contradiction.
    - (* FRel *)
      constructor; simpl.
      + intros H. apply (flog_closed _ L). intros t'. specialize (H t'). other t' t N; [rewrite P; discriminate|exact H].
      + intros t' H. other t' t N; [discriminate|]. apply (flog_open _ L). exact H.
    - (* FRecheck *)
      constructor; simpl.
      + intros H. apply (flog_closed _ L). intros t'. specialize (H t'). other t' t N; [rewrite P; discriminate|exact H].
      + intros t' H. other t' t N; [destruct (fw_queue w); discriminate|]. apply (flog_open _ L). exact H.
    - (* FRelF *)
      constructor; simpl.
      + intros H. apply (flog_closed _ L). intros t'. specialize (H t'). other t' t N; [rewrite P; discriminate|exact H].
      + intros t' H. other t' t N; [destruct fixed; discriminate|]. apply (flog_open _ L). exact H.
  Qed.
End FixedLog.

Section FixedRun.
  Variable fails : event -> bool.

  Lemma both_run : forall sched w, FInv w -> FLog w ->
    FInv (frun fails true sched w) /\ FLog (frun fails true sched w).
  Proof.
    induction sched as [|t r IH]; intros w I L; simpl; auto.
    apply IH; [apply finv_step; exact I | apply flog_step; assumption].
  Qed.

  (* the callback blocks of different events never overlap, whatever fails, whatever the schedule *)
  Theorem mutual_exclusion_with_failures plan sched :
    let w := frun fails true sched (finit plan) in
    closed (fw_log w) \/ exists e t, opened (fw_log w) e t.
  Proof.
    intros w. destruct (both_run sched _ (finv_init plan) (flog_init plan)) as (I & L). fold w in I, L.
    destruct (fw_holder w) as [h|] eqn:H.
    - destruct (f_pc (fw_threads w h)) eqn:P;
        try (left; apply (flog_closed _ L); intros t E;
             pose proof (only_holder_in_proc w h t I H E); subst; congruence).
      right. destruct (flog_open _ L h P) as (e & O). eauto.
    - left. apply (flog_closed _ L). intros t E.
      assert (fw_holder w = Some t) as X by (apply (finv_holder _ I); rewrite E; reflexivity). congruence.
  Qed.
End FixedRun.
