(* C05: on the async engine the constructor only queues the initial activation; the first event
   sent afterwards processes that activation first and the event itself second. *)
From Coq Require Import List Arith Bool Lia.
Import ListNotations.
From PySM Require Import Impl.Engine Proofs.EngineFrame Proofs.EngineLog.

Definition init_td : tdata := {| td_ev := None; td_tag := 0 |}.

Theorem first_event_after_deferred_activation beh rm fuel td c c' v :
  queue c = [] -> locked c = false ->
  send_flat beh rm fuel td (enqueue init_td c) = Ok c' v ->
  exists later,
    Drained beh rm (set_locked (enqueue td (enqueue init_td c)) true) (init_td :: td :: later) c'.
Proof.
  intros Q L H. unfold send_flat in H. simpl in H. rewrite L in H.
  destruct (drain_drained beh rm fuel _ None c' v H) as (tds & D).
  destruct (drained_fifo beh rm _ tds c' D) as (later & E). simpl in E. rewrite Q in E. simpl in E.
  exists later. rewrite E in D. exact D.
Qed.
