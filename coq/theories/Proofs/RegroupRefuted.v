(* Deviation D25, as witnesses in the model (replayed on the real library by the probes of C12 and C17).

   An `unless` guard name provided by several objects: providers of one resolution round (machine,
   model, constructor listeners - and, for a clone, every listener attached so far) become ONE entry
   over the conjunction of their values, providers of different rounds (listeners attached later)
   become separate entries.  For `cond` the two readings agree (all truthy); for `unless` they do not:
   - the guard of a machine constructed with a blocking listener lets the transition fire although
     the guard does not hold on that listener;
   - the same listener attached later blocks it; until the repair D30 a clone of that machine (which re-attached
     everything in one round) fired it again - it now replays the rounds of its original and refuses it too. *)
From Coq Require Import List Arith Bool ZArith.
Import ListNotations.
From PySM Require Import Impl.Engine Impl.Registry Impl.History.

Definition blocked : cbname := NUser 1.

(* open = closed.to(opened, unless="blocked"); the model (provider 1) and a listener (provider 2)
   both have `blocked` *)
Definition door (rounds : list (list nat)) : mdecl :=
  {| md_states := [ {| sd_enter := []; sd_exit := [] |}; {| sd_enter := []; sd_exit := [] |} ];
     md_trans := [ {| d_src := 0; d_tgt := 1; d_events := [0]; d_internal := false; d_validators := [];
                      d_cond := [(blocked, false)]; d_before := []; d_on := []; d_after := [] |} ];
     md_start := 0; md_rtc := true; md_allow := false;
     md_providers := [[]; [blocked]; [blocked]]; md_coro := [];
     md_rounds := rounds; md_erounds := 1 |}.

(* the model says False, the listener says True *)
Definition says : behaviour :=
  fun cb _ => {| acts := []; ret := VBool (Nat.eqb (cb_prov cb) 2) |}.

Definition at_closed : cfg := init_cfg (Some 0).
Definition open_ : op := OSend 0 0.

Definition outcome_of (md : mdecl) (ops : list op) : list outcome :=
  map o_out (run_ops says md 10 ops at_closed).

(* listener attached later: the event is refused *)
Example late_listener_blocks :
  outcome_of (door [[0; 1]; [2]]) [open_] = [RExn (XNotAllowed 0 0)].
Proof. vm_compute. reflexivity. Qed.

(* listener passed to the constructor: the transition fires although `blocked` is true on it *)
Theorem unless_over_round_providers_refuted :
  exists md, md_rounds md = [[0; 1; 2]] /\
             truthy (ret (says {| cb_prov := 2; cb_name := blocked |} 0)) = true /\
             outcome_of md [open_] = [RVal no_res].
Proof. exists (door [[0; 1; 2]]). vm_compute. repeat split. Qed.

(* the clone of the machine with the late listener: while a clone re-attached every listener in one round with
   machine and model it fired the event its original refuses (the refuted theorem that stood here until the
   repair D30); now that it replays the rounds of its original, it refuses it too *)
Example clone_of_the_door_refuses_too :
  tl (map o_out (run_ops says (door [[0; 1]; [2]]) 10 [OClone; open_] at_closed))
  = map o_out (run_ops says (door [[0; 1]; [2]]) 10 [open_] at_closed).
Proof. vm_compute. reflexivity. Qed.
